"""C12 — hedge: generator, implementation-side monitors"""
from gen.util import kvs, tparse


# ----------------------------------------------------------------------------- configuration

# a configured delay that cannot be added to an `Instant` (`max` = Duration::MAX, `smax` = Duration::from_secs(u64::MAX),
# `hmax` = Duration::from_secs(1 << 63)): tokio's `sleep` saturates the deadline — the timer is never due. Larger than
# any instant of a case, so "started less than delay(n) after its predecessor" holds of every start.
NEVER = 10 ** 40
NEVER_TOKENS = ("max", "smax", "hmax")


DEFAULT_DELAY_US = 1000000      # `HedgeConfig::default()`: one second (header token `dflt`)
DEFAULT_MAX = 2                 # … and the original request plus one hedge (`max=dflt`)


def _delay_tok(x, mul):
    if x in NEVER_TOKENS:
        return NEVER
    if x == "dflt":
        return DEFAULT_DELAY_US
    return int(x) * mul if x.isdigit() else None


def delay_fn(cfg):
    """header -> (max, delay(n) in MICROSECONDS for attempt number n >= 1), as the crate documents the configuration
    the adapter asks for (`unit=us`: d and ds are microseconds; default milliseconds; NEVER for max/smax/hmax;
    `via=new`/`via=direct`/`max=dflt`/`d=dflt`: the shortcut constructor and the documented defaults; `max=0`: 1)"""
    via = cfg.get("via", "builder")
    m = cfg.get("max", "2")
    mx = max(int(m), 1) if m.isdigit() else DEFAULT_MAX      # the builder documents the clamp: 0 means 1
    mul = 1 if cfg.get("unit", "ms") == "us" else 1000
    d = _delay_tok(cfg.get("d", "0"), mul) or 0
    if via == "direct":                 # Hedge::new(inner, HedgeConfig::default())
        return DEFAULT_MAX, (lambda n: DEFAULT_DELAY_US)
    if via == "new":                    # HedgeLayer::new(d): "a single hedge request after the specified delay"
        return DEFAULT_MAX, (lambda n: d)
    ds = [v for v in (_delay_tok(x, mul) for x in cfg.get("ds", "").split(",")) if v is not None]
    kind = cfg.get("kind", "fixed")

    def delay(n):
        if kind == "imm":
            return 0
        if kind == "fn":
            return ds[n - 1] if 1 <= n <= len(ds) else d
        return d
    return mx, delay


def us_text(us):
    if us >= NEVER:
        return "(a duration no Instant can be moved by: never due)"
    return "%dms" % (us // 1000) if us % 1000 == 0 else "%dus" % us


def plan_of(op):
    """'arrive 3 inner=5:ok,0:err1' -> [(5,'ok'),(0,'err1')]"""
    for w in op.split()[2:]:
        if w.startswith("inner="):
            out = []
            for part in w[6:].split(","):
                if ":" in part:
                    l, o = part.split(":", 1)
                    out.append((int(l) if l.isdigit() else 0, o))
            return out
    return [(0, "ok")]


def script(plan, i):
    return plan[i] if i < len(plan) else (0, "ok")


# ----------------------------------------------------------------------------- generator

def _outcome(rng, w_ok, w_err, w_panic, w_never):
    r = rng.random() * (w_ok + w_err + w_panic + w_never)
    if r < w_ok:
        return "ok"
    if r < w_ok + w_err:
        return "err%d" % rng.randint(1, 3)
    if r < w_ok + w_err + w_panic:
        return "panic"
    return "never"


def _us_delay(rng, base):
    """a delay in microseconds: zero, below the timer's resolution, around it, whole and broken milliseconds"""
    return rng.choice([0, 1, 500, 999, 1000, 1001, 1500, 2000, base * 1000, base * 1000 + rng.randint(1, 999),
                       rng.randint(1, 999), rng.randint(1, 30) * 1000, rng.randint(1, 2999)])


def gen(rng, tier):
    # what the builder is asked for (0 is a legal argument: "including the original request", clamped to 1) and what
    # the call can do
    mx_cfg = rng.choice([0, 0, 1, 1, 2, 2, 2, 2, 2, 3, 3, 3, 3, 3, 4, 4, 5, 5])
    mx = max(mx_cfg, 1)
    r = rng.random()
    base = rng.choice([1, 5, 10, 10, 20, rng.randint(2, 40)])
    BIG = 10 ** 6            # planning: a delay of BIG ms or more is never waited for in a case
    slow = False
    if rng.random() < 0.10:
        # delays no `Instant` can be moved by (`Duration::MAX` as "never again"), fixed or for any attempt of a
        # per-attempt function, and very long representable ones (30 years, u64::MAX ms): never due
        tok = lambda: rng.choice(["max", "max", "smax", "hmax", "max", "946080000000", "18446744073709551615"])
        us = rng.random() < 0.2
        if r < 0.12:
            t = tok()
            header = "hedge max=%d d=%s kind=fixed" % (mx_cfg, t)
            lst, dflt = [], t
        else:
            n = rng.randint(0, mx)
            lst = [str(rng.choice([0, base, base, 2 * base, rng.randint(1, 30)])) for _ in range(n)]
            if lst and rng.random() < 0.75:
                lst[0] = str(max(int(lst[0]), 1))
            dflt = str(rng.choice([0, base, rng.randint(1, 20)]))
            k = rng.choice([1, 1, 1, 2])
            for _ in range(k):
                # any attempt number, the entries beyond the list included; the later hedges a little more often
                pos = rng.choice([rng.randint(0, mx - 1), rng.randint(1, max(mx - 1, 1))])
                if pos < len(lst):
                    lst[pos] = tok()
                else:
                    dflt = tok()
            header = "hedge max=%d kind=fn ds=%s d=%s" % (mx_cfg, ",".join(lst), dflt)
        if us:
            header += " unit=us"
        val = lambda x: BIG if not x.isdigit() or int(x) >= BIG else ((int(x) + 999) // 1000 if us else int(x))
        ds = [val(x) for x in lst] + [val(dflt)] * 8
        if us and ds[0] == 0 and lst and lst[0] != "0":
            ds[0] = 1
        slow = rng.random() < 0.6      # attempts that outlive the starts of the hedges before the never-due one
    elif rng.random() < 0.16:
        # microsecond-resolution delays (`unit=us`): the timer fires at the next whole millisecond
        if r < 0.45:
            du = max(1, _us_delay(rng, base)) if rng.random() < 0.9 else 0
            header = "hedge max=%d d=%d kind=fixed unit=us" % (mx_cfg, du)
            dsu = [du] * 8
        else:
            n = rng.randint(0, mx)
            lst = [_us_delay(rng, base) for _ in range(n)]
            if lst and rng.random() < 0.8:
                lst[0] = max(lst[0], rng.choice([1, 500, 999]))      # mostly latency mode, often by a sub-millisecond delay
            dflt = _us_delay(rng, base)
            header = "hedge max=%d kind=fn ds=%s d=%d unit=us" % (mx_cfg, ",".join(map(str, lst)), dflt)
            dsu = lst + [dflt] * 8
        ds = [(x + 999) // 1000 for x in dsu]
        if ds[0] == 0 and dsu[0] > 0:
            ds[0] = 1
    elif r < 0.50:
        header = "hedge max=%d d=%d kind=fixed" % (mx_cfg, base)
        ds = [base] * 8
    elif r < 0.58:
        header = "hedge max=%d d=0 kind=fixed" % mx_cfg
        ds = [0] * 8
    elif r < 0.70:
        header = "hedge max=%d kind=imm" % mx_cfg
        ds = [0] * 8
    else:
        n = rng.randint(0, mx)
        lst = [rng.choice([0, base, base, 2 * base, rng.randint(1, 30)]) for _ in range(n)]
        if lst and rng.random() < 0.75:
            lst[0] = max(lst[0], 1)          # mostly latency mode; sometimes a zero first delay (parallel by function)
        dflt = rng.choice([0, base, rng.randint(1, 20)])
        header = "hedge max=%d kind=fn ds=%s d=%d" % (mx_cfg, ",".join(map(str, lst)), dflt)
        ds = lst + [dflt] * 8
    # construction paths other than `HedgeLayer::builder()` with every setter called, and the documented defaults
    v = rng.random()
    plain = True
    if v < 0.05:
        # the shortcut `HedgeLayer::new(delay)`: one hedge after `delay`
        tok = rng.choice([base, base, base, 1, 0, rng.randint(1, 40), "max"])
        header = "hedge via=new d=%s" % tok
        mx, ds, plain = 2, [BIG if tok == "max" else tok] * 8, False
    elif v < 0.075:
        # no layer: `Hedge::new(inner, HedgeConfig::default())` — two attempts, one second apart
        header = "hedge via=direct"
        mx, ds, plain = 2, [1000] * 8, False
    elif v < 0.12:
        # setters that are not called: default max_hedged_attempts (2) and/or default delay (1 s)
        which = rng.choice(["max", "d", "both"])
        if which in ("max", "both"):
            mx = 2
        dd = "dflt" if which in ("d", "both") else str(base)
        header = "hedge max=%s d=%s kind=fixed" % ("dflt" if which in ("max", "both") else str(mx_cfg), dd)
        ds = [1000 if dd == "dflt" else base] * 8
    if plain:
        if rng.random() < 0.15:
            header = header.replace("hedge ", "hedge via=dflt ", 1)         # `HedgeConfigBuilder::default()`
        if rng.random() < 0.25:
            header += " name=h%d" % rng.randint(0, 9) + (" nameat=first" if rng.random() < 0.3 else "")
        if rng.random() < 0.25:
            header += " listen=1"
    parallel = ds[0] == 0 or mx == 1
    # which handle makes the call: several services from the one layer value (some from a clone of the layer taken
    # then), handles that are kept and used for one request after the other, clones of such handles taken after calls
    multi = rng.random() < 0.3
    reuse = rng.random() < 0.35
    accy = rng.random() < 0.5             # callers that look at their error through HedgeError's accessors
    refusy = rng.random() < 0.12          # handles whose inner service fails a readiness poll
    handles = []
    warmy = mx > 1 and rng.random() < 0.28     # fresh clones of the inner service that are not ready at once
    faily = warmy and rng.random() < 0.35      # … or that fail their readiness poll
    ties = rng.random() < 0.25
    fail_heavy = rng.random() < 0.45
    exotic = rng.random() < 0.18           # panic / never outcomes (outside the property's quantifier, modelled anyway)
    all_panic = exotic and rng.random() < 0.25
    ncall = rng.choice([2, 3, 3, 4, 5]) if reuse or multi else rng.choice([1, 1, 1, 2, 2, 3])

    # expected start offsets of attempt i if the caller is polled promptly
    offs = [0]
    for i in range(1, mx):
        if not parallel and ds[i - 1] >= BIG:
            break                          # never due: this attempt and the later ones are not started
        offs.append(offs[-1] + (0 if parallel else ds[i - 1]))
    ds = [x if x < BIG else rng.choice([base, 3 * base, 50]) for x in ds]     # from here on: planning values only
    ops = []
    marks = []
    now = 0
    pending = list(range(1, ncall + 1))
    arrived = []
    plans = {}

    def mkplan():
        n = mx if rng.random() < 0.85 else rng.randint(0, mx + 1)
        tie_at = rng.choice([base, 2 * base, 3 * base + 1, rng.randint(1, 60)]) + (offs[-1] if rng.random() < 0.5 else 0)
        steps = []
        for i in range(n):
            off = offs[i] if i < len(offs) else offs[-1]
            if ties and rng.random() < 0.8:
                lat = max(0, tie_at - off)
            else:
                nxt = (ds[i] if not parallel and i + 1 < mx else base)
                lat = rng.choice([0, 1, max(0, nxt - 1), nxt, nxt + 1, 2 * nxt, rng.randint(0, 3 * base + 5),
                                  rng.randint(0, 120), rng.randint(0, 120)])
            if slow and rng.random() < 0.8:
                lat += offs[-1] - off + rng.choice([1, base, 2 * base])
            if all_panic:
                o = "panic"
            elif fail_heavy:
                o = _outcome(rng, 2, 6, 1 if exotic else 0, 1 if exotic else 0)
            else:
                o = _outcome(rng, 6, 3, 1 if exotic else 0, 1 if exotic else 0)
            steps.append((lat, o))
        return steps

    def mkwarm(p):
        """readiness plan of the hedges' fresh clones: ready at once / after a while (before, at, after the instant an
        earlier attempt completes or the next hedge is due) / never; possibly shorter than the number of hedges"""
        if not warmy:
            return []
        lat0 = p[0][0] if p else 0
        ws = []
        for i in range(1, mx):
            if rng.random() < 0.2:
                break
            off = offs[i] if i < len(offs) else 0
            ws.append(rng.choice([0, 1, base, 2 * base, max(0, lat0 - off - 1), max(0, lat0 - off), max(0, lat0 - off) + 1,
                                  max(0, lat0 - off) + rng.randint(1, 40), rng.randint(1, 60), rng.randint(1, 60), "never"]))
            if faily and rng.random() < 0.45:
                ws[-1] = "fail"          # the clone's readiness poll answers with an error: the attempt is over at once
        return ws

    def arrive_op(c, p, ws):
        op = "arrive %d inner=%s" % (c, ",".join("%d:%s" % s for s in p))
        if ws:
            op += " warm=" + ",".join(str(x) for x in ws)
        if multi and rng.random() < 0.8:
            op += " svc=%d" % rng.choice([0, 1, 1, 2])
            if rng.random() < 0.3:
                op += " lc=1"
        if reuse and rng.random() < 0.85:
            h = rng.choice([1, 1, 1, 2, 2, 3])
            op += " h=%d" % h
            if handles and rng.random() < 0.4:
                op += " from=%d" % rng.choice(handles)      # (only looked at when handle h does not exist yet)
            if h not in handles:
                handles.append(h)
        if accy and rng.random() < 0.8:
            op += " acc=1"
        if refusy and rng.random() < 0.25:
            op += " rdy=err"
        return op

    def add_marks(p, ws):
        for i, off in enumerate(offs):
            marks.append(now + off)
            w = ws[i - 1] if 1 <= i <= len(ws) and ws[i - 1] not in ("never", "fail") else 0
            marks.append(now + off + w)
            marks.append(now + off + w + (p[i][0] if i < len(p) else 0))

    nsteps = rng.randint(6, 40)
    for _ in range(nsteps):
        r = rng.random()
        if pending and (r < 0.2 or not arrived):
            c = pending.pop(0)
            p = mkplan()
            ws = mkwarm(p)
            plans[c] = p
            ops.append(arrive_op(c, p, ws))
            arrived.append(c)
            if rng.random() < 0.8:
                ops.append("poll %d" % c)
                add_marks(p, ws)
        elif r < 0.40 and arrived:
            ops.append("poll %d" % rng.choice(arrived))
        elif r < 0.44 and arrived:
            ops.append("drop %d" % rng.choice(arrived))
        elif r < 0.446 and arrived and (reuse or multi):
            ops.append("manual dropsvc")        # the layer, the services and the kept handles go; calls in flight stay
        elif r < 0.80:
            fut = sorted(set(m for m in marks if m > now))
            if fut and rng.random() < 0.8:
                tgt = fut[0] if rng.random() < 0.6 else rng.choice(fut)
                d = max(0, tgt - now + rng.choice([-1, 0, 0, 0, 0, 1]))
            else:
                d = rng.choice([0, 1, 2, base, rng.randint(0, 30)])
            ops.append("adv %d" % d)
            now += d
            if rng.random() < 0.6:
                ops.append("settle")
        else:
            ops.append("settle")
    # run to the end most of the time: every remaining instant of interest, polled promptly
    if rng.random() < 0.85:
        for c in pending:
            p = mkplan()
            ws = mkwarm(p)
            plans[c] = p
            ops.append(arrive_op(c, p, ws))
            ops.append("poll %d" % c)
            add_marks(p, ws)
        for _ in range(18 if warmy else 14):
            fut = sorted(set(m for m in marks if m > now))
            if not fut:
                break
            d = fut[0] - now
            ops.append("adv %d" % d)
            now += d
            ops.append("settle")
            # late polls shift the later starts: keep a few extra marks around
            marks.extend([now + x for x in ds[:mx]])
        ops.append("adv %d" % rng.choice([0, 1, 50, 200]))
        ops.append("settle")
    return {"header": header, "ops": ops}


# ----------------------------------------------------------------------------- monitors

class View:
    """per-caller view of the implementation's event log"""
    def __init__(self, case, lines, meta):
        self.cfg = kvs(case["header"])
        self.max, self.delay = delay_fn(self.cfg)
        self.parallel = self.max == 1 or self.delay(1) == 0
        self.plans = {}
        for o in case["ops"]:
            w = o.split()
            if w and w[0] == "arrive" and len(w) > 1 and w[1] not in self.plans:
                self.plans[w[1]] = plan_of(o)
        self.calls = {}       # c -> [(pos, t, k)] in call order
        self.warms = {}       # c -> {attempt number: (pos, t)}: first readiness poll of the fresh clone of a hedge
        self.rfail = {}       # c -> {attempt number: (pos, t)}: … that was answered with an error (the attempt failed there)
        self.att = {}         # serial -> attempt number of that inner call (harness: `#att c k i`)
        self.held = []        # (pos, c, t, k): the caller polled c at t, attempt k had succeeded before, c stayed pending
        self.done = {}        # k -> (pos, t, out)
        self.result = {}      # c -> (pos, t, text)
        self.fp = {}
        self.dropped = {}     # c -> pos
        self.lines = lines
        for pos, m in meta:
            ws = m.split()
            if ws[0] == "#fp":
                self.fp[ws[1]] = int(ws[2])
            elif ws[0] == "#drop" and pos >= 0:
                self.dropped[ws[1]] = pos
            elif ws[0] == "#att":
                self.att[ws[2]] = int(ws[3])
            elif ws[0] == "#held" and pos >= 0:
                self.held.append((pos, ws[1], int(ws[2]), ws[3]))
        for i, l in enumerate(lines):
            t, w = tparse(l)
            if not w:
                continue
            if w[0] == "inner_call":
                self.calls.setdefault(w[1], []).append((i, t, w[2]))
            elif w[0] == "inner_warm":
                self.warms.setdefault(w[1], {}).setdefault(int(w[2]), (i, t))
                if w[3] == "fail":
                    self.rfail.setdefault(w[1], {}).setdefault(int(w[2]), (i, t))
            elif w[0] == "inner_done":
                self.done[w[2]] = (i, t, w[3])
            elif w[0] == "result":
                self.result[w[1]] = (i, t, w[2])

    def attempts(self, c):
        """inner calls of request c in call order: [(attempt number, pos, t, serial, (lat, scripted outcome))];
        the scripted inner service hands out the script steps in call order"""
        p = self.plans.get(c, [])
        return [(self.att.get(k, j), pos, t, k, script(p, j)) for j, (pos, t, k) in enumerate(self.calls.get(c, []))]

    def starts(self, c):
        """attempts of request c that were started, by attempt number: [(number, pos, t)] — a hedge is started when
        its task is spawned, seen as the first readiness poll of its fresh clone (`inner_warm`) when the clone has
        a readiness plan, else as its inner call (a clone that is ready at once is called in the same step)"""
        st = {}
        for (i, pos, t, k, _) in self.attempts(c):
            st[i] = (pos, t)
        for i, (pos, t) in self.warms.get(c, {}).items():
            st[i] = (pos, t)
        return [(i,) + st[i] for i in sorted(st)]


def mon_bounded(case, lines, meta):
    v = View(case, lines, meta)
    for c, cs in v.calls.items():
        if len(cs) > v.max:
            return "request %s: %d inner calls started, max_hedged_attempts=%d (line %d: %s)" % (
                c, len(cs), v.max, cs[v.max][0], lines[cs[v.max][0]])
        st = v.starts(c)
        if len(st) > v.max or (st and st[-1][0] >= v.max):
            return "request %s: attempt number %d started, max_hedged_attempts=%d" % (c, st[-1][0], v.max)
        for (i, pos, t, k, _) in v.attempts(c):
            if i in v.rfail.get(c, {}):
                return ("request %s: attempt %d called the inner service (serial %s, t=%d) although its clone had answered the "
                        "readiness poll with an error" % (c, i, k, t))
    return None


def mon_spaced(case, lines, meta):
    """instants are whole milliseconds, delays microseconds: `delay` after t means at or after t*1000 + delay us"""
    v = View(case, lines, meta)
    for c in v.calls:
        st = v.starts(c)
        for (i, pos, t), (ip, _, tp) in zip(st[1:], st[:-1]):
            if i != ip + 1:
                return "request %s: attempt %d was started but attempt %d never was" % (c, i, i - 1)
            if v.parallel:
                if t != tp:
                    return "request %s (parallel mode): attempt %d started at t=%d, attempt %d at t=%d, not at once" % (c, i, t, i - 1, tp)
            elif t * 1000 < tp * 1000 + v.delay(i):
                return "request %s: attempt %d started at t=%dms, less than delay(%d)=%s after attempt %d (t=%dms)" % (
                    c, i, t, i, us_text(v.delay(i)), i - 1, tp)
        if st and c in v.fp and st[0][2] != v.fp[c]:
            return "request %s: primary started at t=%d, first polled at t=%d" % (c, st[0][2], v.fp[c])
    return None


def mon_first_success(case, lines, meta):
    v = View(case, lines, meta)
    for c, (rpos, rt, text) in v.result.items():
        if not text.startswith("ok:"):
            continue
        val = text[3:]
        at = v.attempts(c)
        mine = [a for a in at if a[3] == val]
        if not mine:
            return "request %s resolved with %s, which is not the response of one of its attempts" % (c, text)
        (i, pos, t, k, (lat, out)) = mine[0]
        if out != "ok":
            return "request %s resolved with %s, but attempt %d (serial %s) is scripted %s" % (c, text, i, k, out)
        if k not in v.done or v.done[k][0] > rpos:
            return "request %s resolved with %s before that attempt completed" % (c, text)
        if v.done[k][1] < t + lat:
            return "attempt serial %s completed at t=%d, before start %d + latency %d" % (k, v.done[k][1], t, lat)
        # earliest available success: no other successful attempt of this request completed before the winner
        for (j, _, _, kj, (_, oj)) in at:
            if oj == "ok" and kj != k and kj in v.done and v.done[kj][0] < v.done[k][0]:
                return "request %s resolved with attempt %d (serial %s, done line %d) although attempt %d (serial %s) had succeeded earlier (line %d)" % (
                    c, i, k, v.done[k][0], j, kj, v.done[kj][0])
    return None


def mon_success_at_once(case, lines, meta):
    """"... resolves with the first successful attempt's response as soon as it is available": a poll of the call by
    its caller after one of its attempts has completed successfully must resolve it (the harness records a poll that
    did not: `#held c t k`; checked here against the log: attempt k is an attempt of c, completed ok before that poll,
    and the call had no result yet)"""
    v = View(case, lines, meta)
    for (pos, c, t, k) in v.held:
        mine = [a for a in v.attempts(c) if a[3] == k]
        if not mine or k not in v.done or v.done[k][2] != "ok" or v.done[k][0] >= pos:
            return "harness marker '#held %s %d %s' does not match the log" % (c, t, k)
        if c in v.result and v.result[c][0] < pos:
            continue
        when = ("resolved only at t=%d (%s)" % (v.result[c][1], v.result[c][2])) if c in v.result else "never resolved in this case"
        return ("request %s: attempt %d (serial %s) completed successfully at t=%d, the caller polled the call at t=%d "
                "and it stayed pending; it %s" % (c, mine[0][0], k, v.done[k][1], t, when))
    return None


def mon_resolves_not_panics(case, lines, meta):
    """"... resolves with the first successful attempt's response ...; all-attempts-failed only when all attempts have
    failed": the response future itself does not die. `result c panic` is what the caller sees when polling the call
    panics; the only way the crate's own code gets there is the drain phase's `expect` when every attempt of the call
    panicked and none sent anything. A call one of whose attempts does not end in a panic (it succeeds, fails with an
    error, or is still running or not even started) must not resolve by panic."""
    v = View(case, lines, meta)
    for c, (rpos, rt, text) in v.result.items():
        if text != "panic":
            continue
        at = [a for a in v.attempts(c) if a[1] < rpos]
        if not at:
            return ("request %s: polling the call panicked at t=%d before a single attempt was started: the original request "
                    "was never forwarded to the inner service (max_hedged_attempts=%s is documented to mean at least the "
                    "original request)" % (c, rt, v.cfg.get("max", "2")))
        for (i, pos, t, k, (lat, out)) in at:
            if out != "panic":
                what = ("succeeds at t=%d" % (t + lat)) if out == "ok" else \
                       ("never completes" if out == "never" else "fails with %s at t=%d" % (out, t + lat))
                return ("request %s: polling the call panicked at t=%d although attempt %d (serial %s, started t=%d) %s: "
                        "the caller never gets %s" % (c, rt, i, k, t, what,
                                                      "that response" if out == "ok" else "a result of its attempts"))
        for i, (pos, t) in sorted(v.rfail.get(c, {}).items()):
            if pos < rpos:
                return ("request %s: polling the call panicked at t=%d although attempt %d failed with an error (its clone's "
                        "readiness error, t=%d): the caller never gets a result of its attempts" % (c, rt, i, t))
        if len(at) < v.max and not v.parallel:
            return ("request %s: polling the call panicked at t=%d with %d of %d attempts started (latency mode)"
                    % (c, rt, len(at), v.max))
    return None


def arrive_words(case):
    """request id -> key=value words of its (first) arrive op"""
    arr = {}
    for o in case["ops"]:
        w = o.split()
        if len(w) > 1 and w[0] == "arrive" and w[1] not in arr:
            arr[w[1]] = kvs(" ".join(w[2:]))
    return arr


def mon_accessors(case, lines, meta):
    """what a caller reads off its error: `HedgeError::AllAttemptsFailed(e)` is all-attempts-failed and not an inner error,
    `HedgeError::Inner(e)` the other way round, `inner()`/`into_inner()` give `e` (also from a clone of the error).
    `HedgeError::Inner` is the answer to a request whose handle failed its readiness poll, never the result of a call:
    an attempt's error only ever reaches the caller inside all-attempts-failed."""
    arr = arrive_words(case)
    called = set()
    for l in lines:
        t, w = tparse(l)
        if not w:
            continue
        if w[0] == "inner_call":
            called.add(w[1])
        if w[0] != "result" or len(w) < 3:
            continue
        c, text = w[1], w[2]
        a = arr.get(c, {})
        if a.get("rdy") == "err":
            if text != "err:inner9:0":
                return ("request %s: the readiness poll of its handle failed with the inner error inner9:0, it was answered %s "
                        "(expected HedgeError::Inner carrying that error)" % (c, text))
            if c in called:
                return "request %s: its handle was not ready (readiness error), yet the inner service was called for it" % c
        elif text.startswith("err:inner"):
            return ("request %s resolved with %s (HedgeError::Inner) although its handle was ready: a call reports the failure "
                    "of its attempts as all-attempts-failed only" % (c, text))
        if a.get("acc") == "1" and text.startswith("err:"):
            if len(w) < 4 or not w[3].startswith("acc="):
                return "request %s (acc=1): the result line carries no accessor word: %s" % (c, l)
            f = dict(x.split(":", 1) for x in w[3][4:].split(",") if ":" in x)
            allf = text.startswith("err:all_failed:")
            e = text[len("err:all_failed:"):] if allf else text[len("err:"):]
            want = {"af": "1" if allf else "0", "in": "0" if allf else "1", "ref": e, "into": e}
            if f != want:
                return ("request %s resolved with %s, but through the accessors the caller reads is_all_attempts_failed()=%s "
                        "is_inner()=%s inner()=%s into_inner()=%s (expected %s %s %s %s)" % (
                            c, text, f.get("af"), f.get("in"), f.get("ref"), f.get("into"),
                            want["af"], want["in"], want["ref"], want["into"]))
    return None


def mon_event_names(case, lines, meta):
    """the events a listener sees carry the configured name (`pattern_name()`: the name given to `.name(..)`, "hedge"
    without one). Not a clause of C12 — it pins what the `.name(..)` setter is modelled to be (a label and nothing
    else), so a failure is reported as a broken correspondence, not as a failing input."""
    cfg = kvs(case["header"])
    if cfg.get("via") in ("new", "direct") or cfg.get("listen") != "1":
        return None
    want = cfg.get("name", "hedge")
    for _, m in meta:
        ws = m.split()
        if ws and ws[0] == "#ev" and (len(ws) < 3 or ws[2] != want):
            return "PINNED: a listener of the layer named %r saw the event %r" % (want, m)
    return None


def mon_all_failed(case, lines, meta):
    v = View(case, lines, meta)
    for c, (rpos, rt, text) in v.result.items():
        if not text.startswith("err:all_failed"):
            continue
        at = v.attempts(c)
        started = [a for a in at if a[1] < rpos]
        # attempts whose fresh clone failed its readiness poll: started and failed, without an inner call
        rfailed = [i for i, (pos, t) in v.rfail.get(c, {}).items() if pos < rpos]
        if len(started) + len(rfailed) != v.max:
            return ("request %s reported all-attempts-failed at t=%d with %d of %d attempts having called the inner service%s" % (
                c, rt, len(started), v.max, (" and %d having failed their readiness poll" % len(rfailed)) if rfailed else ""))
        for (i, pos, t, k, (lat, out)) in started:
            if out == "ok" or out == "never":
                return "request %s reported all-attempts-failed at t=%d although attempt %d (serial %s) is scripted %s (latency %d, started t=%d)" % (
                    c, rt, i, k, out, lat, t)
            if k not in v.done or v.done[k][0] > rpos:
                return "request %s reported all-attempts-failed at t=%d while attempt %d (serial %s, %s due t=%d) was still running" % (
                    c, rt, i, k, out, t + lat)
        # the carried error is an error of one of this request's attempts
        w = text.split(":")
        if len(w) >= 4 and w[3] not in [a[3] for a in started] and not (rfailed and w[2:4] == ["inner9", "0"]):
            return "request %s: all-attempts-failed carries an error of serial %s, not one of its attempts" % (c, w[3])
    return None


def mon_no_late_start(case, lines, meta):
    """no attempt is started after the result / the cancellation (an attempt started before, whose clone was still
    warming up, may call the inner service later: its task is detached)"""
    v = View(case, lines, meta)
    for c in v.calls:
        for (i, pos, t) in v.starts(c):
            if c in v.result and pos > v.result[c][0]:
                return "request %s: attempt %d started (line %d) after its result (line %d)" % (c, i, pos, v.result[c][0])
            if c in v.dropped and pos >= v.dropped[c]:
                return "request %s: attempt %d started (line %d) after the call future was dropped" % (c, i, pos)
    return None


def mon_script(case, lines, meta):
    """sanity of the attempt <-> script mapping and of the wake-ups"""
    v = View(case, lines, meta)
    for c in v.calls:
        for (i, pos, t, k, (lat, out)) in v.attempts(c):
            if k in v.done:
                dpos, dt, dout = v.done[k]
                if dout != out:
                    return "attempt %d of request %s (serial %s) completed with %s, scripted %s" % (i, c, k, dout, out)
                if dt < t + lat:
                    return "attempt serial %s completed at t=%d < start %d + latency %d" % (k, dt, t, lat)
    for _, m in meta:
        if m.startswith("#unwoken_progress"):
            return "a call future made progress on a re-poll without having been woken (%s)" % m
    return None


# ----------------------------------------------------------------------------- coverage

def transitions(case, lines, meta=None):
    cfg = kvs(case["header"])
    mx, delay = delay_fn(cfg)
    parallel = mx == 1 or delay(1) == 0
    tags = []
    ncalls = {}
    owner = {}
    resolved = set()
    done_at = {}
    errs = {}
    att = {}
    for _, m in (meta or []):
        ws = m.split()
        if ws[0] == "#att":
            att[ws[2]] = int(ws[3])
    waiting = {}      # (c, attempt number) -> instant its clone started warming up
    listed = set()    # (c, attempt number) of the hedges whose clone has a readiness plan entry
    if 0 < delay(1) < 1000 and mx > 1:
        tags.append("mode-latency-sub-ms")
    nevers = [n for n in range(1, mx) if delay(n) >= NEVER]
    if nevers:
        tags.append("delay-never-due-ignored-parallel" if parallel else "delay-never-due")
    nstarted = {}     # c -> number of attempts started so far
    rfc = set()       # requests one of whose attempts failed its readiness poll
    ends = {}         # c -> [completions + readiness failures, panics, successes] of its attempts
    # construction paths, configuration defaults, handles
    via = cfg.get("via", "builder")
    if via != "builder":
        tags.append({"new": "via-shortcut-new", "direct": "via-service-new-default-config", "dflt": "via-builder-default-impl"}.get(via, "via-other"))
    if cfg.get("max") == "0" and via not in ("new", "direct"):
        tags.append("max-zero-clamped")
    if cfg.get("max") == "dflt":
        tags.append("max-not-set")
    if cfg.get("d") == "dflt" and cfg.get("kind", "fixed") == "fixed":
        tags.append("delay-not-set")
    if "name" in cfg and via not in ("new", "direct"):
        tags.append("named")
    arr = arrive_words(case)
    svcs = set()
    gone = False
    for o in case["ops"]:
        w = o.split()
        if w[:2] == ["manual", "dropsvc"]:
            gone = True
        elif w and w[0] == "arrive" and not gone:
            a = kvs(" ".join(w[2:]))
            if "h" not in a or not any(m.startswith("#handle %s %s reuse" % (w[1], a["h"])) or
                                       m.startswith("#handle %s %s clone" % (w[1], a["h"])) for _, m in (meta or [])):
                k = a.get("svc", "0")
                if k not in svcs:
                    if svcs:
                        tags.append("second-service-from-layer")
                        if a.get("lc") == "1":
                            tags.append("service-from-layer-clone")
                    svcs.add(k)
        elif w and w[0] == "arrive" and gone:
            tags.append("arrive-after-dropsvc")
    busy = set()      # requests with a call in flight (arrived, no result yet)
    for _, m in (meta or []):
        ws = m.split()
        if ws[0] == "#handle":
            tags.append({"reuse": "handle-reused", "clone": "handle-cloned-after-call", "new": "handle-new"}[ws[3]])
        elif ws[0] == "#ev":
            tags.append("listener-event")

    def started(c, n):
        nstarted[c] = max(nstarted.get(c, 0), n + 1)
        if not parallel and n >= 1 and n + 1 < mx and delay(n + 1) >= NEVER and c not in resolved:
            tags.append("timer-armed-never-due")           # re-armed, by a hedge that was started, with such a delay
        if parallel:
            tags.append("start-parallel")
        else:
            tags.append("start-hedge")
            if errs.get(c, 0) > 0:
                tags.append("start-hedge-after-error")
            if delay(n) == 0:
                tags.append("start-hedge-zero-delay")
            elif delay(n) % 1000 != 0:
                tags.append("start-hedge-broken-ms-delay")
    for l in lines:
        t, w = tparse(l)
        if not w:
            continue
        if w[0] == "inner_warm":
            started(w[1], int(w[2]))
            listed.add((w[1], int(w[2])))
            if w[3] == "0":
                tags.append("clone-ready-at-once")
            elif w[3] == "fail":
                tags.append("clone-readiness-error")
                errs[w[1]] = errs.get(w[1], 0) + 1
                rfc.add(w[1])
                ends.setdefault(w[1], [0, 0, 0])[0] += 1
            else:
                waiting[(w[1], int(w[2]))] = t
                tags.append("clone-never-ready" if w[3] == "never" else "clone-warming")
        elif w[0] == "inner_call":
            j = ncalls.get(w[1], 0)
            ncalls[w[1]] = j + 1
            n = att.get(w[2], j)
            owner[w[2]] = (w[1], n)
            if n == 0:
                tags.append("start-primary")
                nstarted[w[1]] = max(nstarted.get(w[1], 0), 1)
            elif (w[1], n) in waiting:
                del waiting[(w[1], n)]
                tags.append("call-after-warm-up")
                if n != j:
                    tags.append("call-out-of-attempt-order")
                if w[1] in resolved:
                    tags.append("call-after-result")
            else:
                if n != j:
                    tags.append("call-out-of-attempt-order")
                if (w[1], n) not in listed:
                    started(w[1], n)
        elif w[0] == "inner_done":
            c = w[1]
            kind = "ok" if w[3] == "ok" else "panic" if w[3] == "panic" else "err"
            tags.append("done-" + kind)
            e = ends.setdefault(c, [0, 0, 0])
            e[0] += 1
            e[1] += kind == "panic"
            e[2] += kind == "ok"
            if kind == "panic" and not parallel and c not in resolved:
                tags.append("done-panic-latency-mode")
            if c in resolved:
                tags.append("done-after-result")
            if kind == "err":
                errs[c] = errs.get(c, 0) + 1
            if (c, t) in done_at:
                tags.append("done-tie")
            done_at[(c, t)] = 1
        elif w[0] == "result":
            resolved.add(w[1])
            if len(w) > 3 and w[3].startswith("acc="):
                tags.append("accessors-inner" if w[2].startswith("err:inner") else "accessors-all-failed")
            if w[2].startswith("err:inner"):
                tags.append("refused-readiness-error")
                if any(c not in resolved for c in ncalls):
                    tags.append("refused-while-calls-in-flight")
            elif w[2].startswith("ok:"):
                n = owner.get(w[2][3:], (None, 0))[1]
                tags.append("result-ok-primary" if n == 0 else "result-ok-hedge")
                if errs.get(w[1], 0) > 0:
                    tags.append("result-ok-after-error")
                if w[1] in rfc:
                    tags.append("result-ok-after-readiness-error")
                if any(c == w[1] for (c, _) in waiting):
                    tags.append("result-ok-while-clone-warming")
                if not parallel and nstarted.get(w[1], 0) in nevers:
                    tags.append("result-ok-while-timer-never-due")
            elif w[2].startswith("err:all_failed"):
                tags.append("result-all_failed-parallel" if parallel else "result-all_failed-latency")
                if w[1] in rfc:
                    tags.append("result-all_failed-with-readiness-error")
            elif w[2] == "panic":
                tags.append("result-panic")
            else:
                tags.append("result-other")
    # latency mode, every attempt the call can start was started and has ended, one of them by a panic, none succeeded:
    # the call never reports anything (TR.Props.C12.panicked_attempt_wedges_latency_hedge)
    dropped = set(o.split()[1] for o in case["ops"] if o.split()[:1] == ["drop"] and len(o.split()) > 1)
    for c, e in ends.items():
        if (not parallel and nstarted.get(c, 0) == mx and e[0] == mx and e[1] >= 1 and e[2] == 0
                and c not in resolved and c not in dropped):
            tags.append("wedged-by-panic-latency-mode")
    return tags


def nontrivial(case, lines, tags):
    return any(t in ("start-hedge", "start-parallel", "result-all_failed-latency", "result-all_failed-parallel",
                     "result-ok-after-error", "done-after-result") for t in tags)


LEVEL_NOTE = ("Trusted: Lean kernel; the transcription in TR.Model.Hedge of tokio's spawn (tasks spawned by a poll run right after it, "
              "in spawn order), mpsc (FIFO, closed when every sender is gone), biased select! and sleep (a zero sleep is ready at once), "
              "validated only by the sampled correspondence check; tokio's timer resolution (a deadline is rounded up to the next "
              "millisecond: a delay of d microseconds armed at a whole-millisecond instant fires ceil(d/1000) ms later) as transcribed in "
              "timerMs; the order in which simultaneously elapsed timers complete attempts / make waiting clones ready is taken "
              "from the implementation as an observed choice (checked to be a permutation of what is due, in deadline order); the "
              "harness (virtual clock, manual poller, scripted inner service) and the python diff. Not verified: that a waiting caller "
              "is woken (observed by the harness's waker monitor only); detached attempts keep running after the result (by design).")

SPECS = {
    "C12": {
        "group": "hedge",
        "module": "TR.Props.C12",
        "gen": gen,
        "monitors": [("c12-starts-bounded", mon_bounded), ("c12-starts-spaced", mon_spaced),
                     ("c12-first-success-wins", mon_first_success), ("c12-success-at-once", mon_success_at_once),
                     ("c12-resolves-not-panics", mon_resolves_not_panics),
                     ("c12-all-failed-only-when-all-failed", mon_all_failed),
                     ("c12-no-late-start", mon_no_late_start), ("c12-error-accessors", mon_accessors),
                     ("c12-script-and-wakeups", mon_script), ("c12-event-names", mon_event_names)],
        "transitions": transitions,
        "nontrivial": nontrivial,
        "all_transitions": ["start-primary", "start-hedge", "start-parallel", "start-hedge-after-error", "start-hedge-zero-delay",
                            "mode-latency-sub-ms", "start-hedge-broken-ms-delay", "clone-ready-at-once", "clone-warming",
                            "clone-never-ready", "call-after-warm-up", "call-out-of-attempt-order", "call-after-result",
                            "result-ok-while-clone-warming",
                            "delay-never-due", "delay-never-due-ignored-parallel", "timer-armed-never-due",
                            "result-ok-while-timer-never-due",
                            "done-ok", "done-err", "done-panic", "done-after-result", "done-tie",
                            "result-ok-primary", "result-ok-hedge", "result-ok-after-error",
                            "result-all_failed-latency", "result-all_failed-parallel", "result-panic",
                            "done-panic-latency-mode", "wedged-by-panic-latency-mode",
                            "via-shortcut-new", "via-service-new-default-config", "via-builder-default-impl",
                            "max-zero-clamped", "max-not-set", "delay-not-set", "named", "listener-event",
                            "second-service-from-layer", "service-from-layer-clone", "handle-new", "handle-reused",
                            "handle-cloned-after-call", "arrive-after-dropsvc", "accessors-all-failed", "accessors-inner",
                            "refused-readiness-error", "refused-while-calls-in-flight",
                            "clone-readiness-error", "result-all_failed-with-readiness-error", "result-ok-after-readiness-error"],
        "model_modules": ["TR.Model.Hedge", "TR.Lemmas.Hedge", "TR.Lemmas.HedgeTrace", "TR.Lemmas.HedgeLog",
                          "TR.Mutants.HedgeEarlyAllFailed"],
        "lean_files": ["TR.Model.Hedge", "TR.Lemmas.Hedge", "TR.Lemmas.HedgeTrace", "TR.Lemmas.HedgeLog"],
        "sizes": (600, 40000),
        "rule": "seeded random op sequences (arrive/poll/drop/adv/settle) over 1..5 requests, max_hedged_attempts 0..5 as given to the "
                "builder (0: the documented clamp to 1) or not set at all, construction through HedgeLayer::builder(), "
                "HedgeConfigBuilder::default(), the shortcut HedgeLayer::new(delay) or Hedge::new(inner, HedgeConfig::default()), "
                "with/without .name(..) (first or last setter) and an event listener, the default delay (1 s) or fixed / zero / "
                "immediate / per-attempt delays (a sixth of the cases with microsecond resolution: 0, 1..999 us, 1000, 1001, broken and "
                "whole milliseconds mixed per attempt; a tenth with a delay no Instant can be moved by — Duration::MAX, from_secs(u64::MAX), "
                "from_secs(1<<63) — or a very long one (30 years, u64::MAX ms), fixed or at any position of a per-attempt function, "
                "mostly with attempts that outlive the starts of the earlier hedges), in a quarter of the multi-attempt cases fresh clones of the inner service that "
                "are ready only after a while (before/at/after the instant an earlier attempt completes) or never, "
                "per-attempt scripts (latency, ok/err, a share with panic/never), latencies biased to "
                "0, delay-1, delay, delay+1 and (in a quarter of the cases) chosen so that several attempts complete at one instant; "
                "advances land on start/completion instants -1/0/+1, late polls included; which handle makes each request: up to three "
                "services built lazily from the ONE layer value (some from a clone of the layer taken then), a fresh clone of the service per "
                "request or handles that are kept and used call after call, clones of such handles taken after calls, `manual dropsvc` "
                "(layer, services, handles all dropped while calls are in flight); handles whose inner service fails the readiness poll "
                "(HedgeError::Inner, no call) and hedges whose fresh clone fails it (an attempt that failed without an inner call); half of "
                "the cases with callers that read their error through HedgeError's accessors (and its Clone); "
                "distinct = distinct implementation event log; "
                "non-trivial = a hedge or parallel attempt was started, all-attempts-failed, a success after an error, or a completion "
                "after the result",
        "level_text": "Theorems TR.Props.C12.{starts_bounded,starts_bounded_trace,starts_spaced,starts_spaced_indexed,positive_delay_separates,never_due_not_started,first_success_wins,"
                      "first_success_at_once,success_is_queued,all_failed_only_when_all_failed,no_late_start,no_start_when_finished,"
                      "instants_sound,log_matches_attempts,record_unique,due_hedges_are_started,configured_max_ge_one,clamp_spec,"
                      "original_request_only,new_fires_a_single_hedge,default_config_one_hedge_after_a_second,requests_are_independent,"
                      "accessors_spec,is_all_attempts_failed_sound,refused_is_inner_error} and, over the timestamped event log "
                      "(TR.Hedge.trace: every event with the instant the driver prints), {trace_is_the_log,trace_instants_nondecreasing,"
                      "result_line_iff_result,one_result_per_call,one_result_per_caller,inner_error_only_for_refused,done_line_iff_completion,"
                      "start_instant_is_in_the_log,call_line_is_an_attempt,calls_bounded_log,call_instants_are_the_starts,starts_spaced_log,starts_spaced_marks,"
                      "first_success_wins_log,all_failed_only_after_all_failed_log,panic_only_when_all_panicked,panic_only_after_all_panicked_log,"
                      "latency_mode_failure_is_errors_only,panicked_attempt_only_success_resolves,panicked_attempt_wedges_latency_hedge}: "
                      "for every max_hedged_attempts >= 1, every delay function in microseconds (fixed, zero, per-attempt, below the timer's "
                      "millisecond resolution or not, or not representable as a deadline at all: never due), every operation sequence (all poll/advance/cancel orders, any number of concurrent "
                      "requests), every script of latencies and outcomes and every readiness plan of the hedges' fresh clones (ready at once, "
                      "later, never, or answering the readiness poll with an error), in the model "
                      "of execute_with_hedging; proved by an inductive per-request invariant and a bridge invariant that ties every ghost (result, "
                      "completion, start instant) to its line of the log. Every configuration the crate's entry points "
                      "can build (builder with any argument incl. 0, defaults, HedgeLayer::new, Hedge::new with the default config) meets the "
                      "hypothesis max >= 1; requests are independent of each other and of the handle they are made on (the service has no "
                      "state); the accessors of HedgeError are specified for every result. The model is tied to the real HedgeLayer by "
                      "line-for-line agreement of event logs on generated schedules.",
        "level_note": LEVEL_NOTE,
        "trusted": ["tokio spawn/mpsc/select!/sleep semantics as transcribed in TR.Model.Hedge (sampled by the correspondence check)",
                    "tokio timer resolution: deadlines rounded up to the millisecond (timerMs), instants are whole milliseconds in the harness",
                    "tokio sleep(d) with now + d not representable saturates to a far future (30 years on): modelled as never due (Cfg.never); no case advances that far",
                    "order of completions / clone readiness of simultaneously elapsed timers taken from the implementation (allowed set: permutations in deadline order)",
                    "a Hedge service has no state besides its immutable configuration (read off lib.rs: `inner`, `config: Arc<HedgeConfig>`): the model has "
                    "no notion of service / handle / clone, sampled by the correspondence on several services from one layer, reused and cloned handles",
                    "harness: clock_gettime interposition, manual poller, scripted inner service", "python diff/monitors"],
        "assumptions": ["one poll of one call future is atomic and the tasks it spawned run before the next operation (current-thread runtime)",
                        "usize modelled as unbounded Nat; max_hedged_attempts >= 1 (the builder clamps: TR.Hedge.clampMax, theorem configured_max_ge_one; "
                        "the clamp itself is sampled with max_hedged_attempts(0))",
                        "a fresh clone that fails its readiness poll fails it at the first poll (kind 9, serial 0); a failure after a warm-up time is not scripted",
                        "mode is chosen once from delay(1), as in the code: delay(1)=0 means all attempts at once whatever a per-attempt function says later",
                        "an attempt is *started* when its task is spawned; with a fresh clone that is not ready at once the inner call comes later "
                        "(the spacing and the bound are about starts; the scripted inner service hands out script steps in call order)"],
    },
}
