"""shared helpers for generators and monitors"""


def kvs(header):
    d = {}
    for w in header.split():
        if "=" in w:
            a, b = w.split("=", 1)
            d[a] = b
    return d


def tparse(line):
    """'t=12 inner_call 3 4' -> (12, ['inner_call','3','4'])"""
    ws = line.split()
    if ws and ws[0].startswith("t="):
        return int(ws[0][2:]), ws[1:]
    return None, ws


def pick_outcome(rng, w_ok=6, w_err=2, w_panic=1, w_never=1):
    r = rng.random() * (w_ok + w_err + w_panic + w_never)
    if r < w_ok:
        return "ok"
    if r < w_ok + w_err:
        return "err%d" % rng.randint(1, 2)
    if r < w_ok + w_err + w_panic:
        return "panic"
    return "never"
