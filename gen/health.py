"""C18 — health check thresholds and selection: generator, implementation-side monitors"""
from gen.util import kvs, tparse

STRATS = ["first", "rr", "rr", "rr", "prefer", "prefer", "random", "random", "last", "oob", "none", "second"]
BUILTIN = ("first", "rr", "prefer", "random")


def _lat(rng, to, iv):
    r = rng.random()
    if r < 0.55:
        return 0
    if r < 0.85:
        if to == 0:
            # timeout 0: every check that is not ready at its first poll is slower than the timeout — all latencies
            return rng.choice([0, 1, 1, 2, 3, max(iv - 1, 1), max(iv, 1), iv + 1, 2 * iv + 1])
        return max(0, to + rng.choice([-1, 0, 0, 1]))
    if r < 0.93:
        return max(0, iv + rng.choice([-1, 0, 1]))
    return rng.randint(0, 30)


def _seq(rng, length, to, iv):
    """regime-based result sequence: runs of passing / failing results, alternation, noise"""
    out = []
    while len(out) < length:
        regime = rng.choice(["pass", "fail", "alt", "mix", "unk"])
        run = rng.randint(1, 6)
        for i in range(run):
            if regime == "pass":
                sym = rng.choice("hhhd")
            elif regime == "fail":
                sym = rng.choice("uuus")
            elif regime == "alt":
                sym = "hu"[i % 2] if rng.random() < 0.8 else rng.choice("dk")
            elif regime == "unk":
                sym = rng.choice("kkkh")
            else:
                sym = rng.choice("hdukss")
            if rng.random() < 0.12:
                sym = "k"
            out.append(sym if sym == "s" else "%s%d" % (sym, _lat(rng, to, iv)) if rng.random() < 0.6 else sym)
    return out[:length]


CRATE_DEFAULT = dict(iv=5000, delay=500, to=2000, sth=1, fth=2)     # HealthCheckConfig::default(), ms
HARNESS_DEFAULT = dict(iv=10, delay=0, to=5, sth=1, fth=2)           # what the adapter passes to the wrapper builder's setters


def _nat(v, d):
    return int(v) if v is not None and v.isdigit() else d


def _eff(header):
    """the configuration a header describes (mirrors TR.Model.Health.cfgOf): via=cfg = stand-alone HealthCheckConfig
    (absent keys keep the crate's defaults) handed over by with_config, which discards `pre=`; `post=` overrides"""
    c = kvs(header)
    via = c.get("via", "builder") == "cfg"
    d = CRATE_DEFAULT if via else HARNESS_DEFAULT
    e = {k: _nat(c.get(k), d[k]) for k in d}
    if via:
        for part in c.get("post", "").split(","):
            kv = part.split(":")
            if len(kv) == 2 and kv[0] in e and kv[1].isdigit():
                e[kv[0]] = int(kv[1])
    e["n"] = _nat(c.get("n"), 1)
    e["strat"] = c.get("strat", "first")
    e["via"] = via
    e["cb"] = via and c.get("cb") == "1"
    return e


def _setters(rng, to, iv):
    ks = rng.sample(["iv", "delay", "to", "sth", "fth"], rng.randint(1, 2))
    vals = {"iv": [1, 5, 10, 20], "delay": [0, 1, 10], "to": [0, 0, 1, 5, 8, 15], "sth": [1, 2, 3], "fth": [1, 2, 3]}
    return ",".join("%s:%d" % (k, rng.choice(vals[k])) for k in ks)


def gen(rng, tier):
    n = rng.choice([1, 2, 2, 3, 3, 3, 4, 5]) if rng.random() < 0.97 else 0
    sth = rng.choice([1, 1, 2, 2, 3, 4]) if rng.random() < 0.96 else 0
    fth = rng.choice([1, 2, 2, 3, 3, 4]) if rng.random() < 0.96 else 0
    iv = rng.choice([1, 2, 3, 5, 10, 10, 10, 20]) if rng.random() < 0.98 else 0
    to = rng.choice([0, 0, 1, 3, 5, 5, 5, 8, 10, 15, 25])
    delay = rng.choice([0, 0, 0, 1, 3, 10])
    strat = rng.choice(STRATS)
    # several wrappers in one case (pools configured alike): more often round-robin, more often from one config value
    nw = rng.choice([2, 2, 2, 3]) if rng.random() < 0.22 else 1
    if nw > 1 and rng.random() < 0.5:
        strat = "rr"
    if nw > 1 and n == 1 and rng.random() < 0.7:
        n = rng.choice([2, 2, 3])
    words = dict(n=n, sth=sth, fth=fth, iv=iv, to=to, delay=delay, strat=strat)
    extra = []
    if nw > 1:
        extra.append("wrappers=%d" % nw)
    # construction path: the wrapper builder's own setters, or a stand-alone HealthCheckConfig handed over by with_config
    if rng.random() < (0.35 if nw == 1 else 0.6):
        extra.append("via=cfg")
        if nw > 1 and rng.random() < 0.25:
            # a config value built separately for each wrapper (default: clones of one value)
            extra.append("share=0")
        if rng.random() < 0.7:
            extra.append("cb=1")
        if rng.random() < 0.3:
            # setters that are not called keep the crate's defaults (5 s / 500 ms / 2 s / 1 / 2 / first-available)
            for k in rng.sample(["iv", "delay", "to", "sth", "fth"] + ([] if nw > 1 and strat == "rr" else ["strat"]), rng.randint(1, 3)):
                del words[k]
        if rng.random() < 0.25:
            extra.append("pre=" + _setters(rng, to, iv))
        if rng.random() < 0.25:
            extra.append("post=" + _setters(rng, to, iv))
    if rng.random() < 0.25:
        extra.append("chk=fn")
    if rng.random() < 0.08:
        extra.append("start=0")
    header0 = "health " + " ".join("%s=%s" % (k, words[k]) for k in ("n", "sth", "fth", "iv", "to", "delay", "strat") if k in words)
    e = _eff(header0 + " " + " ".join(extra))
    to, iv, delay = e["to"], e["iv"], e["delay"]
    dflt = rng.choice(["h", "h", "d", "u", "k", "k", "s", "h%d" % max(0, to + rng.choice([-1, 0, 1])), "u2"])
    header = " ".join([header0, "dflt=%s" % dflt] + extra)
    ops = []
    if rng.random() < 0.3:
        ops.append("probe all")
    if e["via"] and rng.random() < 0.5:
        ops.append("probe config")
    def wx(j):
        """the word naming wrapper j (wrapper 0 is also the default)"""
        return " w=%d" % j if j > 0 or (nw > 1 and rng.random() < 0.3) else ""

    for j in range(nw):
        for r in range(n):
            if rng.random() < 0.9:
                # further wrappers: mostly quiet pools (passing results), so that selections have something to go round
                seq = _seq(rng, rng.randint(3, 30), to, iv) if j == 0 or rng.random() < 0.5 else [rng.choice("hhhd") for _ in range(rng.randint(3, 12))]
                ops.append("manual script r=%d%s seq=%s" % (r, wx(j), ",".join(seq)))

    def observe():
        for j in range(nw):
            if j == 0 or rng.random() < 0.9:
                ops.append("probe all" + wx(j))
            for r in range(n):
                if rng.random() < (0.6 if j == 0 else 0.2):
                    ops.append("probe details r=%d%s" % (r, wx(j)))
                elif rng.random() < 0.3:
                    ops.append("probe status r=%d%s" % (r, wx(j)))
        k = rng.random()
        if k < (0.45 if nw == 1 else 0.7):
            burst = rng.choice([1, 2, n, n + 1, 2 * n + 1]) if strat in ("rr", "random") else rng.choice([1, 1, 2])
            which = rng.choice(["get_healthy", "get_usable", "mixed"])
            # several wrappers: the selections interleaved — alternately, in runs, at random
            order = rng.choice(["alt", "alt", "runs", "rand"])
            for i in range(max(1, burst) * nw):
                j = i % nw if order == "alt" else (i // 2) % nw if order == "runs" else rng.randrange(nw)
                ops.append("probe " + (which if which != "mixed" else rng.choice(["get_healthy", "get_usable"])) + wx(j))

    # start() again / stop() while checks are in flight, in a share of the cases
    lifecycle = rng.random() < 0.3 or "start=0" in extra
    if delay >= 100 and rng.random() < 0.7:
        ops.append("adv %d" % (delay + rng.choice([-1, 0, 0, 1])))
    rounds = rng.randint(4, 28)
    for _ in range(rounds):
        r = rng.random()
        ivx = max(iv, 1)
        if r < 0.45:
            d = ivx
        elif r < 0.60:
            d = max(0, ivx + rng.choice([-1, 1]))
        elif r < 0.72:
            d = max(0, to + rng.choice([-1, 0, 0, 1]))
        elif r < 0.80:
            d = rng.choice([0, 1, 1, 2])
        elif r < 0.88:
            d = ivx * rng.randint(2, 4) + rng.choice([0, 0, 1, 5, 6])
        elif r < 0.95:
            d = rng.randint(0, 30)
        else:
            d = rng.randint(50, 200)
        ops.append("adv %d" % d)
        if rng.random() < 0.85:
            observe()
        x = rng.random()
        if x < 0.10 and n > 0:
            ops.append("manual script r=%d%s seq=%s" % (rng.randrange(n), wx(rng.randrange(nw)), ",".join(_seq(rng, rng.randint(1, 8), to, iv))))
        elif x < 0.14:
            ops.append(rng.choice(["probe status r=%d" % (n + rng.randint(0, 3)), "manual script r=%d seq=h" % (n + 1),
                                   "manual script r=0 seq=h,zz", "manual script r=0", "probe frobnicate", "manual reset",
                                   "probe details r=%d" % (n + 2), "probe status", "probe u8", "probe u8 v=%d" % rng.choice([256, 300, 1000]),
                                   "probe fresh", "probe fresh n=9", "probe all w=%d" % (nw + rng.randint(0, 2)),
                                   "manual stop w=%d" % nw, "probe get_healthy w=%d" % (nw + 1), "probe w=%d" % rng.randint(0, nw)]))
        elif x < 0.17:
            ops.append(rng.choice(["probe u8 v=%d" % rng.choice([0, 1, 2, 3, 4, 99, 255]), "probe fresh n=%d" % rng.randint(0, 4), "probe config"]))
        if lifecycle and rng.random() < 0.18:
            y = rng.random()
            wj = wx(rng.randrange(nw))
            if y < 0.5:
                ops.append("manual start" + wj)
            elif y < 0.8:
                ops.append("manual stop" + wj)
                if rng.random() < 0.5:
                    # statuses after stop(): the checks in flight still complete, nothing new starts
                    ops.append("adv %d" % rng.choice([1, max(to, 1), ivx, ivx * 3, max(to, 1) + ivx]))
                    observe()
            else:
                ops += ["manual stop" + wj, "manual start" + wj] if rng.random() < 0.5 else ["manual start" + wj, "manual start" + wj]
    observe()
    return {"header": header, "ops": ops}


# ------------------------------------------------------------------------- log walking

def _cfg(case):
    e = _eff(case["header"])
    return (e["n"], e["sth"], e["fth"], e["strat"])


FULL = {"h": "healthy", "d": "degraded", "u": "unhealthy", "k": "unknown"}


def _wrapper_of(line):
    """-> (wrapper, the line without its `w<j> ` prefix): lines of wrapper 0 carry no prefix"""
    ws = line.split()
    i = 1 if ws and ws[0].startswith("t=") else 0
    if len(ws) > i and len(ws[i]) > 1 and ws[i][0] == "w" and ws[i][1:].isdigit():
        return int(ws[i][1:]), " ".join(ws[:i] + ws[i + 1:])
    return 0, line


def _nwrappers(case):
    return max(1, _nat(kvs(case["header"]).get("wrappers"), 1))


def _by_wrapper(case, lines):
    """the log of each wrapper of the case (prefix removed)"""
    out = {j: [] for j in range(_nwrappers(case))}
    for l in lines:
        j, l0 = _wrapper_of(l)
        out.setdefault(j, []).append(l0)
    return out


def per_wrapper(mon):
    """a wrapper is a wrapper: every clause of the property is about ONE wrapper's resources, checks and selections —
    the monitor runs over each wrapper's own lines, whatever the other wrappers of the case do in between"""
    def run(case, lines, meta):
        if _nwrappers(case) == 1 and not any(_wrapper_of(l)[0] for l in lines):
            return mon(case, lines, meta)
        for j, ls in sorted(_by_wrapper(case, lines).items()):
            msg = mon(case, ls, meta)
            if msg:
                return "wrapper %d of %d%s: %s" % (j, _nwrappers(case), _how_built(case), msg)
        return None
    run.__doc__ = mon.__doc__
    return run


def _how_built(case):
    c = kvs(case["header"])
    if c.get("via") != "cfg":
        return " (each configured by the builder's setters)"
    return " (built from one config value each)" if c.get("share") == "0" else " (built from clones of ONE HealthCheckConfig)"


def _events(lines):
    """-> list of ('out', r, o) with o in h,d,u,k,t | ('status', r, X) | ('details', r, X, f, s) | ('all', [X..]) | ('get', which, res)"""
    ev = []
    for l in lines:
        _, w = tparse(l)
        if not w:
            continue
        if w[0] == "check_done":
            ev.append(("out", int(w[1]), w[2]))
        elif w[0] == "check_drop":
            ev.append(("out", int(w[1]), "t"))
        elif w[0] == "probe" and len(w) >= 4:
            if w[1] == "status" and w[-1] != "none":
                ev.append(("status", int(w[2][2:]), w[-1]))
            elif w[1] == "details" and w[4] != "none":
                ev.append(("details", int(w[2][2:]), w[4], int(w[5][2:]), int(w[6][2:])))
            elif w[1] == "all":
                ev.append(("all", [] if w[3] == "-" else [FULL[x] for x in w[3].split(",")]))
            elif w[1] in ("get_healthy", "get_usable"):
                ev.append(("get", w[1], None if w[3] == "none" else int(w[3])))
    return ev


def _trailing(seq, pred):
    k = 0
    for o in reversed(seq):
        if pred(o):
            k += 1
        else:
            break
    return k


FAILING = ("u", "t")
PASSING = ("h", "d")


def mon_thresholds(case, lines, meta):
    """the property's first sentence, over the implementation's log: between two observations of a
    resource's published status, a flip must be justified by the completed checks in between"""
    n, sth, fth, _ = _cfg(case)
    outs = {}
    seen = {}      # r -> (status, position in outs[r])
    seen_d = {}    # r -> (f, s, position)

    def observe(r, X, what):
        O = outs.setdefault(r, [])
        Xp, qp = seen.get(r, ("unknown", 0))
        q = len(O)
        win = O[qp:q]
        if all(o == "k" for o in win):
            if X != Xp:
                return "resource %d: status %s -> %s although no check with a known result completed in between (%s, window %s)" % (r, Xp, X, what, win)
        elif X != Xp:
            ok = False
            for j in range(qp + 1, q + 1):
                known = [o for o in O[:j] if o != "k"]
                last = O[j - 1]
                if X == "unhealthy" and last in FAILING and _trailing(known, lambda o: o in FAILING) >= fth:
                    ok = True
                if X == "healthy" and last == "h" and _trailing(known, lambda o: o in PASSING) >= sth:
                    ok = True
                if X == "degraded" and last == "d":
                    ok = True
            if not ok:
                why = {"unhealthy": "%d consecutive failed/timed-out checks" % fth,
                       "healthy": "a healthy check completing a run of %d non-failing checks" % sth,
                       "degraded": "a degraded check", "unknown": "anything"}[X]
                return "resource %d: status %s -> %s without %s (results so far %s, since last observation %s)" % (r, Xp, X, why, "".join(O), "".join(win))
        kn = [o for o in win if o != "k"]
        if kn and kn[-1] == "d" and X != "degraded":
            return "resource %d: last completed check was degraded but published status is %s" % (r, X)
        seen[r] = (X, q)
        return None

    for e in _events(lines):
        msg = None
        if e[0] == "out":
            outs.setdefault(e[1], []).append(e[2])
        elif e[0] == "status":
            msg = observe(e[1], e[2], "probe status")
        elif e[0] == "details":
            r, X, f, s = e[1], e[2], e[3], e[4]
            msg = observe(r, X, "probe details")
            O = outs.setdefault(r, [])
            if msg is None and r in seen_d:
                fp, sp, qp = seen_d[r]
                if all(o == "k" for o in O[qp:]) and (f, s) != (fp, sp):
                    msg = "resource %d: counters changed (f=%d s=%d -> f=%d s=%d) although only unknown results completed" % (r, fp, sp, f, s)
            seen_d[r] = (f, s, len(O))
        elif e[0] == "all":
            for r, X in enumerate(e[1]):
                msg = observe(r, X, "probe all")
                if msg:
                    break
        if msg:
            return msg
    return None


def _checks(lines):
    """-> ({serial: (resource, start instant, sym, latency)}, {serial: ('done'|'drop', instant)})"""
    started, fate = {}, {}
    for l in lines:
        t, w = tparse(l)
        if not w:
            continue
        if w[0] == "check_start" and len(w) >= 4:
            started[w[3]] = (w[1], t, w[2][0], int(w[2][1:] or 0))
        elif w[0] == "check_done" and len(w) >= 4:
            fate[w[3]] = ("done", t)
        elif w[0] == "check_drop" and len(w) >= 3:
            fate[w[2]] = ("drop", t)
    return started, fate


def mon_timeout_due(case, lines, meta):
    """'failed or TIMED-OUT checks': a check is cut off (counted as timed out) only when it has run for the configured
    timeout, and a check that answers within the timeout is never cut off — whatever earlier rounds did"""
    to = _eff(case["header"])["to"]
    started, fate = _checks(lines)
    for k, (what, t) in fate.items():
        if what == "drop" and k in started:
            r, t0, _, _ = started[k]
            if to > 0 and t - t0 < to:
                return "resource %s: check started at t=%d was cut off as timed out at t=%d, after %d < timeout %d" % (r, t0, t, t - t0, to)
    return None


def mon_slow_is_failed(case, lines, meta):
    """'failed OR TIMED-OUT checks … slower than the check timeout': a check that has not answered when its timeout has run
    out counts as failed. The runtime acts only at the instants the case reaches (0 and after every `adv`): at the first
    such instant at or after start + timeout, a check whose answer is not due yet (latency not elapsed, or it never answers)
    must be cut off there and then — for timeout 0: a check that is not ready at its first poll. It must not be waited
    for and counted with its own result, and it must not stay in flight."""
    to = _eff(case["header"])["to"]
    visited, t = [0], 0
    for op in case["ops"]:
        w = op.split()
        if len(w) >= 2 and w[0] == "adv" and w[1].isdigit():
            t += int(w[1])
            visited.append(t)
    started, fate = _checks(lines)
    for k, (r, t0, sym, lat) in started.items():
        due = next((v for v in visited if v >= t0 and v >= t0 + to), None)
        if due is None:
            continue
        if sym != "s" and t0 + lat <= due:
            continue                      # its own answer is there when the deadline is looked at: not a slow check
        what = "never answers" if sym == "s" else "answers after %d ms" % lat
        f = fate.get(k)
        if f is None:
            return ("resource %s: check %s started at t=%d (%s) had not answered when its timeout of %d ms ran out "
                    "(first instant reached: t=%d) but was not counted as failed: it is still in flight at the end of the case" % (r, k, t0, what, to, due))
        if f[0] == "done":
            return ("resource %s: check %s started at t=%d (%s) had not answered when its timeout of %d ms ran out "
                    "(first instant reached: t=%d) but was waited for and counted with its own result at t=%d" % (r, k, t0, what, to, due, f[1]))
        if f[1] > due:
            return ("resource %s: check %s started at t=%d (%s) was cut off only at t=%d although its timeout of %d ms had run out "
                    "at t=%d" % (r, k, t0, what, f[1], to, due))
    return None


def mon_selection(case, lines, meta):
    """second sentence: soundness of get_healthy / get_usable, none iff none qualifies (built-in
    strategies, Random included; a custom selector may decline), round-robin evenness: over consecutive selections
    whose eligible sets coincide — of either method, and also when checks completed and statuses changed in between
    (fairness across status changes: TR.Props.C18.round_robin_fair_across_changes) — every k of them (k = size of
    the set) return k different resources"""
    n, _, _, strat = _cfg(case)
    cur = None          # statuses from the last `probe all`, valid while no check completes
    window = []         # consecutive round-robin selections: (eligible tuple, result); emptied by a selection whose
                        # eligible set is not known (no `probe all` since the last completed check)
    for e in _events(lines):
        if e[0] == "out":
            cur = None
        elif e[0] == "all":
            cur = e[1]
        elif e[0] == "get" and cur is None:
            window = []
        elif e[0] == "get" and cur is not None:
            which, res = e[1], e[2]
            ok = ("healthy",) if which == "get_healthy" else ("healthy", "degraded")
            elig = tuple(i for i, X in enumerate(cur) if X in ok)
            if res is not None and (res >= len(cur) or cur[res] not in ok):
                return "%s returned resource %s whose published status is %s" % (which, res, cur[res] if res < len(cur) else "?")
            if not elig and res is not None:
                return "%s returned %s although no resource qualifies (%s)" % (which, res, cur)
            if elig and res is None and strat in BUILTIN:
                return "%s returned nothing although %s qualify (strategy %s)" % (which, list(elig), strat)
            if strat == "rr":
                window.append((elig, res))
                k = len(elig)
                if k > 0 and len(window) >= k and all(w[0] == elig for w in window[-k:]):
                    got = sorted(w[1] for w in window[-k:])
                    if got != sorted(elig):
                        return "round-robin: %d consecutive selections over the eligible set %s returned %s" % (k, list(elig), [w[1] for w in window[-k:]])
    return None


def _group_wrappers(lines):
    """the tasks of different wrappers are independent tasks of one runtime: what the lines of one instant say is
    compared wrapper by wrapper (stable: the order of each wrapper's own lines is kept)"""
    if not any(_wrapper_of(l)[0] for l in lines):
        return lines
    out, run, t0 = [], [], None
    for l in lines + [None]:
        t = tparse(l)[0] if l is not None else None
        if l is None or t != t0:
            out.extend(x for _, _, x in sorted(run, key=lambda e: (e[0], e[1])))
            run, t0 = [], t
        if l is not None:
            run.append((_wrapper_of(l)[0], len(run), l))
    return out


def canon(lines):
    """completions of one round that fall on the same instant are independent tasks woken by the
    timer wheel in its own order: compare adjacent completion lines of one instant as a set"""
    out = []
    run = []
    for l in _group_wrappers(lines):
        t, w = tparse(_wrapper_of(l)[1])
        is_c = bool(w) and w[0] in ("check_done", "check_drop")
        if is_c and run and _wrapper_of(run[0])[0] != _wrapper_of(l)[0]:
            out.extend(sorted(run))
            run = []
        if is_c and run and tparse(run[0])[0] == t:
            run.append(l)
            continue
        out.extend(sorted(run))
        run = [l] if is_c else []
        if not is_c:
            out.append(l)
    out.extend(sorted(run))
    return out


def transitions(case, lines, meta=None):
    nw = _nwrappers(case)
    if nw == 1:
        return _transitions1(case, lines, meta)
    hk = kvs(case["header"])
    tags = ["several-wrappers", "wrappers-of-one-config" if hk.get("via") == "cfg" and hk.get("share") != "0" else "wrappers-configured-separately"]
    for j, ls in sorted(_by_wrapper(case, lines).items()):
        tags += _transitions1(case, ls, meta)
    prev = None
    for l in lines:
        j, l0 = _wrapper_of(l)
        w = tparse(l0)[1]
        if len(w) >= 4 and w[0] == "probe" and w[1] in ("get_healthy", "get_usable") and w[3] != "none":
            if prev is not None and prev != j:
                tags.append("selections-of-wrappers-interleaved")
                if _cfg(case)[3] == "rr":
                    tags.append("rr-selections-of-wrappers-interleaved")
            prev = j
    return tags


def _transitions1(case, lines, meta=None):
    n, sth, fth, strat = _cfg(case)
    e = _eff(case["header"])
    hk = kvs(case["header"])
    tags = []
    if e["via"]:
        tags.append("via-cfg")
        if any(k not in hk for k in ("iv", "delay", "to", "sth", "fth")):
            tags.append("crate-default-used")
        if "post" in hk:
            tags.append("setter-after-with_config")
        if "pre" in hk:
            tags.append("setter-before-with_config")
    if hk.get("chk") == "fn":
        tags.append("closure-checker")
    last = {}
    started_at = {}
    inflight = {}       # serial -> resource
    stopped = hk.get("start", "1") == "0"
    done_at = {}        # resource -> instant of the latest completion of a check of it that had been in flight
    begun = {}          # serial -> instant of check_start
    cur_all = None      # statuses of the last `probe all`, None once a check completed after it
    prev_get = None     # (eligible tuple of the previous selection, a check completed since)
    for l in lines:
        t, w = tparse(l)
        if not w:
            continue
        if w[0] in ("check_done", "check_drop"):
            r, k = w[1], w[-1]
            tags.append("done-" + w[2] if w[0] == "check_done" else "timeout")
            cur_all = None
            if prev_get is not None:
                prev_get = (prev_get[0], True)
            if w[0] == "check_drop" and e["to"] == 0:
                tags.append("timeout-0-cut-off-at-first-poll")
            inflight.pop(k, None)
            if begun.get(k, t) < t:
                # a check that was in flight across instants (not one answered at its first poll)
                if done_at.get(r) == t:
                    tags.append("two-completions-one-resource-one-instant")
                done_at[r] = t
            if stopped:
                tags.append("completes-after-stop")
        elif w[0] == "check_start":
            if started_at.get(w[1]) == t:
                tags.append("two-rounds-one-instant")
            started_at[w[1]] = t
            if w[1] in inflight.values():
                tags.append("two-checks-of-one-resource-in-flight")
            inflight[w[-1]] = w[1]
            begun[w[-1]] = t
        elif w[0] == "started":
            tags.append("start-after-stop" if stopped else "start-again")
            if inflight:
                tags.append("restart-with-checks-in-flight")
            stopped = False
        elif w[0] == "stopped":
            tags.append("stop")
            if inflight:
                tags.append("stop-with-checks-in-flight")
            stopped = True
        elif w[0] == "cb_change":
            tags.append("cb-change")
        elif w[0] == "cb_failed":
            tags.append("cb-failed")
        elif w[0] == "noop":
            tags.append("noop")
        elif w[0] == "probe" and w[1] in ("config", "u8", "fresh"):
            tags.append("probe-" + w[1])
        elif w[0] == "probe" and w[1] == "details" and w[4] != "none":
            X, f, s = w[4], int(w[5][2:]), int(w[6][2:])
            if X in ("healthy", "degraded") and f > 0:
                tags.append("usable-with-failures-below-threshold")
            if X == "unhealthy" and s > 0:
                tags.append("unhealthy-with-successes-below-threshold")
        elif w[0] == "probe" and w[1] == "all" and w[3] != "-":
            cur_all = w[3].split(",")
            for r, x in enumerate(w[3].split(",")):
                p = last.get(r, "k")
                if p != x:
                    tags.append("flip-%s-%s" % (p, x))
                last[r] = x
        elif w[0] == "probe" and w[1] in ("get_healthy", "get_usable"):
            tags.append("%s-%s" % (w[1], "none" if w[3] == "none" else "some"))
            if strat == "rr" and w[3] != "none":
                tags.append("rr-select")
            if strat == "random":
                tags.append("random-select" if w[3] != "none" else "random-none")
            if cur_all is None:
                prev_get = None
            else:
                ok = ("h",) if w[1] == "get_healthy" else ("h", "d")
                elig = tuple(i for i, x in enumerate(cur_all) if x in ok)
                if strat == "rr" and prev_get is not None and elig:
                    if prev_get[1] and prev_get[0] == elig:
                        tags.append("rr-same-set-across-completed-checks")
                    if prev_get[0] != elig and prev_get[0]:
                        tags.append("rr-eligible-set-changed")
                prev_get = (elig, False)
    return tags


ALL_TRANSITIONS = ["done-h", "done-d", "done-u", "done-k", "timeout", "two-rounds-one-instant", "noop",
                   "usable-with-failures-below-threshold", "unhealthy-with-successes-below-threshold",
                   "flip-k-h", "flip-k-d", "flip-k-u", "flip-h-d", "flip-h-u", "flip-d-h", "flip-d-u", "flip-u-h", "flip-u-d",
                   "get_healthy-some", "get_healthy-none", "get_usable-some", "get_usable-none", "rr-select",
                   "rr-same-set-across-completed-checks", "rr-eligible-set-changed", "random-select", "random-none",
                   "via-cfg", "crate-default-used", "setter-after-with_config", "setter-before-with_config", "closure-checker",
                   "timeout-0-cut-off-at-first-poll", "two-completions-one-resource-one-instant", "completes-after-stop",
                   "two-checks-of-one-resource-in-flight", "start-after-stop", "start-again", "restart-with-checks-in-flight",
                   "stop", "stop-with-checks-in-flight", "cb-change", "cb-failed", "probe-config", "probe-u8", "probe-fresh",
                   "several-wrappers", "wrappers-of-one-config", "wrappers-configured-separately", "selections-of-wrappers-interleaved",
                   "rr-selections-of-wrappers-interleaved"]


def nontrivial(case, lines, tags):
    return any(t in ("timeout", "flip-h-u", "flip-d-u", "flip-u-h", "usable-with-failures-below-threshold",
                     "unhealthy-with-successes-below-threshold") for t in tags)


LEVEL_NOTE = ("Trusted: Lean kernel; the transcription of tokio's interval (MissedTickBehavior::Skip, 5 ms lateness tolerance), "
              "time::timeout (check polled before the deadline), spawn/JoinHandle on a current-thread runtime in TR.Model.Health, validated "
              "only by the sampled correspondence check; the harness (virtual clock, scripted checker) and the python diff/monitors. "
              "The theorems are about the per-resource fold of completed checks and the selection functions; Lemmas.Health proves that every "
              "reachable state of the timed model is that fold of its own history. Not verified: counter wrap at 2^64 / usize; a status change "
              "between the filter and the re-read inside select (possible only on a multi-thread runtime). "
              "SelectionStrategy::Random (cargo feature `random`, on in the harness build): the result of every selection is an observed choice "
              "(@pick=), the model recovers the draw that explains it and accepts exactly the eligible resources (TR.Props.C18.random_observed_choice); "
              "the distribution of the draws is not examined. The fuel of the model's `quiesce` is proved adequate for every configuration "
              "(quiesce_fuel_suffices, fuel_is_irrelevant). Lemmas.HealthLog proves that the ghost history of each resource is the check_done / check_drop "
              "lines of the event log and that every probe line of the log reports the fold of the check lines before it (every prefix). "
              "Finding (not a failure of the theorems as designed): get_healthy and get_usable share one round-robin cursor, so interleaved "
              "calls over different eligible sets are not even per method (witness corpus/health/rr_shared_cursor.ops, "
              "TR.Props.C18.shared_cursor_starves). "
              "Entry points: configuration through the stand-alone HealthCheckConfig builder + with_config (crate defaults for setters not called, "
              "setters before/after with_config), closure checker, start() again / stop() with checks in flight (the spawned checks are not aborted "
              "and still complete: the model keeps them), observer callbacks (recorded always, hidden when not registered: not an input of the "
              "model's transition function). The order in which checks that complete at one instant are processed is taken from the implementation "
              "(@o= words, any order of the due checks is allowed): with two checks of one resource in flight after a restart it decides the outcome. "
              "Several wrappers in one case (wrappers=<k>, with via=cfg built from clones of ONE HealthCheckConfig value): the model is the family of k "
              "single-wrapper models (own statuses, counters, periodic task, round-robin cursor); the logs are compared wrapper by wrapper within one instant "
              "(the tasks of different wrappers are independent tasks of one runtime), every monitor runs over each wrapper's own lines.")

SPECS = {
    "C18": {
        "group": "health",
        "module": "TR.Props.C18",
        "gen": gen,
        "canon": canon,
        "monitors": [("c18-status-flips-only-at-thresholds", per_wrapper(mon_thresholds)), ("c18-selection-sound-and-even", per_wrapper(mon_selection)),
                     ("c18-timed-out-means-timeout-elapsed", per_wrapper(mon_timeout_due)), ("c18-slow-check-counts-as-failed", per_wrapper(mon_slow_is_failed))],
        "transitions": transitions,
        "nontrivial": nontrivial,
        "all_transitions": ALL_TRANSITIONS,
        "model_modules": ["TR.Model.Health", "TR.Lemmas.Health", "TR.Lemmas.HealthSelect", "TR.Lemmas.HealthLog", "TR.Lemmas.HealthFuel"],
        "lean_files": ["TR.Model.Health", "TR.Lemmas.Health", "TR.Lemmas.HealthSelect", "TR.Lemmas.HealthLog", "TR.Lemmas.HealthFuel"],
        "sizes": (500, 30000),
        "rule": "seeded random cases: 0..5 resources, thresholds 0..4, interval 0..20 ms, check timeout 0..25 ms (also longer than the "
                "interval), initial delay, all strategies incl. Random (observed choices) and four custom selectors; per-resource regime-based result scripts "
                "(runs of passing / failing / alternating / unknown results, never-completing checks, latencies at timeout-1/timeout/timeout+1); "
                "advances of interval-1/interval/interval+1, timeout+-1, multiples (missed ticks) and long jumps; after each advance all "
                "statuses, details and bursts of get_healthy/get_usable; a stream of invalid operations; 35 % of the cases built through HealthCheckConfig::builder() + "
                "with_config (setters omitted -> crate defaults 5 s / 500 ms / 2 s, wrapper-builder setters before/after with_config, callbacks registered), 25 % with a "
                "closure checker, 30 % with start() again / stop() / start() after stop() between rounds, 8 % started late; 22 % with 2-3 wrappers in one case "
                "(60 % of them built from clones of ONE HealthCheckConfig value, a quarter of those from a value each; half round-robin), every op addressed to one of "
                "them, selections interleaved alternately / in runs / at random; probes of the config getters, "
                "HealthStatus<->u8, fresh contexts + Selector closure + extensions; timeout 0 in 2 of 11 cases with checks of every latency. distinct = distinct implementation "
                "event log; non-trivial = a timed-out check, a flip to/from unhealthy, or a status held against counters below threshold",
        "trusted": ["tokio interval/timeout/spawn semantics as transcribed in TR.Model.Health (sampled by the correspondence check)",
                    "harness: clock_gettime interposition, scripted checker, one poll of each accessor future", "python diff/monitors/canon (adjacent same-instant completion lines compared as a set)",
                    "order of same-instant completions: observed from the implementation (@o=), every order of the due checks accepted by the model"],
        "assumptions": ["current-thread runtime: no status change between get_with_filter's filter and select's re-read",
                        "u64/usize counters modelled as unbounded Nat", "virtual time visits only the instants reached by adv"],
        "level_text": "Theorems TR.Props.C18.{unhealthy_only_after_threshold, healthy_only_after_run, degraded_at_once, unknown_changes_nothing, "
                      "get_healthy_sound, get_usable_sound, none_iff_none, none_when_none_any_strategy, round_robin_even, reachable_is_fold, "
                      "slow_check_counts_as_failed, timeout_zero_first_poll, timed_out_only_when_due, restart_and_stop_keep_state, stopped_freezes, "
                      "health_change_calls_are_the_transitions, callbacks_per_check, callbacks_only_observe, crate_default_ok, u8_roundtrip; "
                      "over the event log: hist_is_log, status_is_fold_of_log, every_probe_reports_the_log_before_it, unhealthy_after_failed_run_log, "
                      "healthy_after_ok_run_log, degraded_at_once_log, flip_to_unhealthy_between_observations, flip_to_healthy_between_observations, "
                      "unknown_changes_nothing_log, got_sound_log, got_none_log; round-robin: round_robin_rounds, round_robin_balanced, "
                      "round_robin_pick_formula, round_robin_fair_across_changes, shared_cursor_one_rotation, shared_cursor_counts_both_methods, "
                      "rr_selection_line_is_the_rotation, clamped_cursor_is_not_round_robin; Random: random_pick_is_eligible, "
                      "random_every_eligible_possible, random_observed_choice; fuel: quiesce_fuel_suffices, fuel_is_irrelevant; several wrappers: "
                      "wrappers_independent, other_wrappers_do_not_matter, cursor_moves_only_by_own_selection, selection_elsewhere_keeps_cursor, "
                      "line_for_another_wrapper_is_idle, wrapper_is_single_run, per_wrapper_reachable_is_fold, round_robin_per_wrapper}: "
                      "for all sequences of completed checks (healthy/degraded/unhealthy/unknown/timed-out), all thresholds, any number of "
                      "resources and all strategies (custom = any function), every timeout (0 included), every sequence of operations incl. start()/stop(). "
                      "The model is tied to the real HealthCheckWrapper by agreement of "
                      "event logs over many intervals of virtual time.",
        "level_note": LEVEL_NOTE,
    },
}
