"""C18 — health check thresholds and selection: generator, implementation-side monitors"""
from gen.util import kvs, tparse

STRATS = ["first", "rr", "rr", "rr", "prefer", "prefer", "last", "oob", "none", "second"]
BUILTIN = ("first", "rr", "prefer")


def _lat(rng, to, iv):
    r = rng.random()
    if r < 0.55:
        return 0
    if r < 0.85:
        return max(0, to + rng.choice([-1, 0, 0, 1]))
    if r < 0.93:
        return max(0, iv + rng.choice([-1, 0, 1]))
    return rng.randint(0, 30)


def _seq(rng, length, to, iv):
    """regime-based result sequence: runs of passing / failing results, alternation, noise"""
    out = []
    while len(out) < length:
        regime = rng.choice(["pass", "fail", "alt", "mix", "unk"])
        run = rng.randint(1, 6)
        for i in range(run):
            if regime == "pass":
                sym = rng.choice("hhhd")
            elif regime == "fail":
                sym = rng.choice("uuus")
            elif regime == "alt":
                sym = "hu"[i % 2] if rng.random() < 0.8 else rng.choice("dk")
            elif regime == "unk":
                sym = rng.choice("kkkh")
            else:
                sym = rng.choice("hdukss")
            if rng.random() < 0.12:
                sym = "k"
            out.append(sym if sym == "s" else "%s%d" % (sym, _lat(rng, to, iv)) if rng.random() < 0.6 else sym)
    return out[:length]


def gen(rng, tier):
    n = rng.choice([1, 2, 2, 3, 3, 3, 4, 5]) if rng.random() < 0.97 else 0
    sth = rng.choice([1, 1, 2, 2, 3, 4]) if rng.random() < 0.96 else 0
    fth = rng.choice([1, 2, 2, 3, 3, 4]) if rng.random() < 0.96 else 0
    iv = rng.choice([1, 2, 3, 5, 10, 10, 10, 20]) if rng.random() < 0.98 else 0
    to = rng.choice([0, 1, 3, 5, 5, 5, 8, 10, 15, 25])
    delay = rng.choice([0, 0, 0, 1, 3, 10])
    strat = rng.choice(STRATS)
    dflt = rng.choice(["h", "h", "d", "u", "k", "k", "s", "h%d" % max(0, to + rng.choice([-1, 0, 1])), "u2"])
    header = "health n=%d sth=%d fth=%d iv=%d to=%d delay=%d strat=%s dflt=%s" % (n, sth, fth, iv, to, delay, strat, dflt)
    ops = []
    if rng.random() < 0.3:
        ops.append("probe all")
    for r in range(n):
        if rng.random() < 0.9:
            ops.append("manual script r=%d seq=%s" % (r, ",".join(_seq(rng, rng.randint(3, 30), to, iv))))

    def observe():
        ops.append("probe all")
        for r in range(n):
            if rng.random() < 0.6:
                ops.append("probe details r=%d" % r)
            elif rng.random() < 0.3:
                ops.append("probe status r=%d" % r)
        k = rng.random()
        if k < 0.45:
            burst = rng.choice([1, 2, n, n + 1, 2 * n + 1]) if strat == "rr" else rng.choice([1, 1, 2])
            which = rng.choice(["get_healthy", "get_usable", "mixed"])
            for _ in range(max(1, burst)):
                ops.append("probe " + (which if which != "mixed" else rng.choice(["get_healthy", "get_usable"])))

    rounds = rng.randint(4, 28)
    for _ in range(rounds):
        r = rng.random()
        ivx = max(iv, 1)
        if r < 0.45:
            d = ivx
        elif r < 0.60:
            d = max(0, ivx + rng.choice([-1, 1]))
        elif r < 0.72:
            d = max(0, to + rng.choice([-1, 0, 0, 1]))
        elif r < 0.80:
            d = rng.choice([0, 1, 1, 2])
        elif r < 0.88:
            d = ivx * rng.randint(2, 4) + rng.choice([0, 0, 1, 5, 6])
        elif r < 0.95:
            d = rng.randint(0, 30)
        else:
            d = rng.randint(50, 200)
        ops.append("adv %d" % d)
        if rng.random() < 0.85:
            observe()
        x = rng.random()
        if x < 0.10 and n > 0:
            ops.append("manual script r=%d seq=%s" % (rng.randrange(n), ",".join(_seq(rng, rng.randint(1, 8), to, iv))))
        elif x < 0.14:
            ops.append(rng.choice(["probe status r=%d" % (n + rng.randint(0, 3)), "manual script r=%d seq=h" % (n + 1),
                                   "manual script r=0 seq=h,zz", "manual script r=0", "probe frobnicate", "manual reset",
                                   "probe details r=%d" % (n + 2), "probe status"]))
    observe()
    return {"header": header, "ops": ops}


# ------------------------------------------------------------------------- log walking

def _cfg(case):
    c = kvs(case["header"])
    return (int(c.get("n", "1")), int(c.get("sth", "1")), int(c.get("fth", "2")), c.get("strat", "first"))


FULL = {"h": "healthy", "d": "degraded", "u": "unhealthy", "k": "unknown"}


def _events(lines):
    """-> list of ('out', r, o) with o in h,d,u,k,t | ('status', r, X) | ('details', r, X, f, s) | ('all', [X..]) | ('get', which, res)"""
    ev = []
    for l in lines:
        _, w = tparse(l)
        if not w:
            continue
        if w[0] == "check_done":
            ev.append(("out", int(w[1]), w[2]))
        elif w[0] == "check_drop":
            ev.append(("out", int(w[1]), "t"))
        elif w[0] == "probe" and len(w) >= 4:
            if w[1] == "status" and w[-1] != "none":
                ev.append(("status", int(w[2][2:]), w[-1]))
            elif w[1] == "details" and w[4] != "none":
                ev.append(("details", int(w[2][2:]), w[4], int(w[5][2:]), int(w[6][2:])))
            elif w[1] == "all":
                ev.append(("all", [] if w[3] == "-" else [FULL[x] for x in w[3].split(",")]))
            elif w[1] in ("get_healthy", "get_usable"):
                ev.append(("get", w[1], None if w[3] == "none" else int(w[3])))
    return ev


def _trailing(seq, pred):
    k = 0
    for o in reversed(seq):
        if pred(o):
            k += 1
        else:
            break
    return k


FAILING = ("u", "t")
PASSING = ("h", "d")


def mon_thresholds(case, lines, meta):
    """the property's first sentence, over the implementation's log: between two observations of a
    resource's published status, a flip must be justified by the completed checks in between"""
    n, sth, fth, _ = _cfg(case)
    outs = {}
    seen = {}      # r -> (status, position in outs[r])
    seen_d = {}    # r -> (f, s, position)

    def observe(r, X, what):
        O = outs.setdefault(r, [])
        Xp, qp = seen.get(r, ("unknown", 0))
        q = len(O)
        win = O[qp:q]
        if all(o == "k" for o in win):
            if X != Xp:
                return "resource %d: status %s -> %s although no check with a known result completed in between (%s, window %s)" % (r, Xp, X, what, win)
        elif X != Xp:
            ok = False
            for j in range(qp + 1, q + 1):
                known = [o for o in O[:j] if o != "k"]
                last = O[j - 1]
                if X == "unhealthy" and last in FAILING and _trailing(known, lambda o: o in FAILING) >= fth:
                    ok = True
                if X == "healthy" and last == "h" and _trailing(known, lambda o: o in PASSING) >= sth:
                    ok = True
                if X == "degraded" and last == "d":
                    ok = True
            if not ok:
                why = {"unhealthy": "%d consecutive failed/timed-out checks" % fth,
                       "healthy": "a healthy check completing a run of %d non-failing checks" % sth,
                       "degraded": "a degraded check", "unknown": "anything"}[X]
                return "resource %d: status %s -> %s without %s (results so far %s, since last observation %s)" % (r, Xp, X, why, "".join(O), "".join(win))
        kn = [o for o in win if o != "k"]
        if kn and kn[-1] == "d" and X != "degraded":
            return "resource %d: last completed check was degraded but published status is %s" % (r, X)
        seen[r] = (X, q)
        return None

    for e in _events(lines):
        msg = None
        if e[0] == "out":
            outs.setdefault(e[1], []).append(e[2])
        elif e[0] == "status":
            msg = observe(e[1], e[2], "probe status")
        elif e[0] == "details":
            r, X, f, s = e[1], e[2], e[3], e[4]
            msg = observe(r, X, "probe details")
            O = outs.setdefault(r, [])
            if msg is None and r in seen_d:
                fp, sp, qp = seen_d[r]
                if all(o == "k" for o in O[qp:]) and (f, s) != (fp, sp):
                    msg = "resource %d: counters changed (f=%d s=%d -> f=%d s=%d) although only unknown results completed" % (r, fp, sp, f, s)
            seen_d[r] = (f, s, len(O))
        elif e[0] == "all":
            for r, X in enumerate(e[1]):
                msg = observe(r, X, "probe all")
                if msg:
                    break
        if msg:
            return msg
    return None


def mon_timeout_due(case, lines, meta):
    """'failed or TIMED-OUT checks': a check is cut off (counted as timed out) only when it has run for the configured
    timeout, and a check that answers within the timeout is never cut off — whatever earlier rounds did"""
    c = kvs(case["header"])
    to = int(c.get("to", "0") or 0)
    start = {}
    for l in lines:
        t, w = tparse(l)
        if not w:
            continue
        if w[0] == "check_start":
            start[w[1]] = t
        elif w[0] == "check_done":
            start.pop(w[1], None)
        elif w[0] == "check_drop":
            t0 = start.pop(w[1], None)
            if t0 is not None and to > 0 and t - t0 < to:
                return "resource %s: check started at t=%d was cut off as timed out at t=%d, after %d < timeout %d" % (w[1], t0, t, t - t0, to)
    return None


def mon_selection(case, lines, meta):
    """second sentence: soundness of get_healthy / get_usable, none iff none qualifies (built-in
    strategies; a custom selector may decline), round-robin evenness over a fixed eligible set"""
    n, _, _, strat = _cfg(case)
    cur = None          # statuses from the last `probe all`, valid while no check completes
    window = []         # consecutive round-robin selections: (eligible tuple, result)
    for e in _events(lines):
        if e[0] == "out":
            cur = None
            window = []
        elif e[0] == "all":
            cur = e[1]
        elif e[0] == "get" and cur is not None:
            which, res = e[1], e[2]
            ok = ("healthy",) if which == "get_healthy" else ("healthy", "degraded")
            elig = tuple(i for i, X in enumerate(cur) if X in ok)
            if res is not None and (res >= len(cur) or cur[res] not in ok):
                return "%s returned resource %s whose published status is %s" % (which, res, cur[res] if res < len(cur) else "?")
            if not elig and res is not None:
                return "%s returned %s although no resource qualifies (%s)" % (which, res, cur)
            if elig and res is None and strat in BUILTIN:
                return "%s returned nothing although %s qualify (strategy %s)" % (which, list(elig), strat)
            if strat == "rr":
                window.append((elig, res))
                k = len(elig)
                if k > 0 and len(window) >= k and all(w[0] == elig for w in window[-k:]):
                    got = sorted(w[1] for w in window[-k:])
                    if got != sorted(elig):
                        return "round-robin: %d consecutive selections over the eligible set %s returned %s" % (k, list(elig), [w[1] for w in window[-k:]])
    return None


def canon(lines):
    """completions of one round that fall on the same instant are independent tasks woken by the
    timer wheel in its own order: compare adjacent completion lines of one instant as a set"""
    out = []
    run = []
    for l in lines:
        t, w = tparse(l)
        is_c = bool(w) and w[0] in ("check_done", "check_drop")
        if is_c and run and tparse(run[0])[0] == t:
            run.append(l)
            continue
        out.extend(sorted(run))
        run = [l] if is_c else []
        if not is_c:
            out.append(l)
    out.extend(sorted(run))
    return out


def transitions(case, lines, meta=None):
    n, sth, fth, strat = _cfg(case)
    tags = []
    last = {}
    started_at = {}
    for l in lines:
        t, w = tparse(l)
        if not w:
            continue
        if w[0] == "check_done":
            tags.append("done-" + w[2])
        elif w[0] == "check_drop":
            tags.append("timeout")
        elif w[0] == "check_start":
            if started_at.get(w[1]) == t:
                tags.append("two-rounds-one-instant")
            started_at[w[1]] = t
        elif w[0] == "noop":
            tags.append("noop")
        elif w[0] == "probe" and w[1] == "details" and w[4] != "none":
            X, f, s = w[4], int(w[5][2:]), int(w[6][2:])
            if X in ("healthy", "degraded") and f > 0:
                tags.append("usable-with-failures-below-threshold")
            if X == "unhealthy" and s > 0:
                tags.append("unhealthy-with-successes-below-threshold")
        elif w[0] == "probe" and w[1] == "all" and w[3] != "-":
            for r, x in enumerate(w[3].split(",")):
                p = last.get(r, "k")
                if p != x:
                    tags.append("flip-%s-%s" % (p, x))
                last[r] = x
        elif w[0] == "probe" and w[1] in ("get_healthy", "get_usable"):
            tags.append("%s-%s" % (w[1], "none" if w[3] == "none" else "some"))
            if strat == "rr" and w[3] != "none":
                tags.append("rr-select")
    return tags


ALL_TRANSITIONS = ["done-h", "done-d", "done-u", "done-k", "timeout", "two-rounds-one-instant", "noop",
                   "usable-with-failures-below-threshold", "unhealthy-with-successes-below-threshold",
                   "flip-k-h", "flip-k-d", "flip-k-u", "flip-h-d", "flip-h-u", "flip-d-h", "flip-d-u", "flip-u-h", "flip-u-d",
                   "get_healthy-some", "get_healthy-none", "get_usable-some", "get_usable-none", "rr-select"]


def nontrivial(case, lines, tags):
    return any(t in ("timeout", "flip-h-u", "flip-d-u", "flip-u-h", "usable-with-failures-below-threshold",
                     "unhealthy-with-successes-below-threshold") for t in tags)


LEVEL_NOTE = ("Trusted: Lean kernel; the transcription of tokio's interval (MissedTickBehavior::Skip, 5 ms lateness tolerance), "
              "time::timeout (check polled before the deadline), spawn/JoinHandle on a current-thread runtime in TR.Model.Health, validated "
              "only by the sampled correspondence check; the harness (virtual clock, scripted checker) and the python diff/monitors. "
              "The theorems are about the per-resource fold of completed checks and the selection functions; Lemmas.Health proves that every "
              "reachable state of the timed model is that fold of its own history. Not verified: counter wrap at 2^64 / usize; a status change "
              "between the filter and the re-read inside select (possible only on a multi-thread runtime); the Random strategy (feature off). "
              "Finding (not a failure of the theorems as designed): get_healthy and get_usable share one round-robin cursor, so interleaved "
              "calls over different eligible sets are not even per method (witness corpus/health/rr_shared_cursor.ops, "
              "TR.Props.C18.shared_cursor_starves).")

SPECS = {
    "C18": {
        "group": "health",
        "module": "TR.Props.C18",
        "gen": gen,
        "canon": canon,
        "monitors": [("c18-status-flips-only-at-thresholds", mon_thresholds), ("c18-selection-sound-and-even", mon_selection), ("c18-timed-out-means-timeout-elapsed", mon_timeout_due)],
        "transitions": transitions,
        "nontrivial": nontrivial,
        "all_transitions": ALL_TRANSITIONS,
        "model_modules": ["TR.Model.Health", "TR.Lemmas.Health"],
        "lean_files": ["TR.Model.Health", "TR.Lemmas.Health"],
        "sizes": (500, 30000),
        "rule": "seeded random cases: 0..5 resources, thresholds 0..4, interval 0..20 ms, check timeout 0..25 ms (also longer than the "
                "interval), initial delay, all strategies incl. four custom selectors; per-resource regime-based result scripts "
                "(runs of passing / failing / alternating / unknown results, never-completing checks, latencies at timeout-1/timeout/timeout+1); "
                "advances of interval-1/interval/interval+1, timeout+-1, multiples (missed ticks) and long jumps; after each advance all "
                "statuses, details and bursts of get_healthy/get_usable; a stream of invalid operations. distinct = distinct implementation "
                "event log; non-trivial = a timed-out check, a flip to/from unhealthy, or a status held against counters below threshold",
        "trusted": ["tokio interval/timeout/spawn semantics as transcribed in TR.Model.Health (sampled by the correspondence check)",
                    "harness: clock_gettime interposition, scripted checker, one poll of each accessor future", "python diff/monitors/canon (adjacent same-instant completion lines compared as a set)"],
        "assumptions": ["current-thread runtime: no status change between get_with_filter's filter and select's re-read",
                        "u64/usize counters modelled as unbounded Nat", "virtual time visits only the instants reached by adv"],
        "level_text": "Theorems TR.Props.C18.{unhealthy_only_after_threshold, healthy_only_after_run, degraded_at_once, unknown_changes_nothing, "
                      "get_healthy_sound, get_usable_sound, none_iff_none, none_when_none_any_strategy, round_robin_even, reachable_is_fold}: "
                      "for all sequences of completed checks (healthy/degraded/unhealthy/unknown/timed-out), all thresholds, any number of "
                      "resources and all strategies (custom = any function). The model is tied to the real HealthCheckWrapper by agreement of "
                      "event logs over many intervals of virtual time.",
        "level_note": LEVEL_NOTE,
    },
}
