"""C01 / C07 — bulkhead: generator, implementation-side monitors"""
from gen.util import kvs, tparse, pick_outcome


VIAS = [" via=readyclone", " via=swap", " via=template", " via=clone"]
PRESETS = {"small": 10, "medium": 50, "large": 200}      # BulkheadLayer::small()/medium()/large(): max; all reject when full
RDY_FAIL = ["e", "e", "pe", "p", "pp"]                     # readiness scripts after which the handle is not called
RDY_OK = ["r", "pr", "ppr"]                                # … after which it is


def rdy_outcome(script):
    """what a readiness script (answers of the inner service to successive poll_ready calls) comes to for the caller:
    'ready' / 'error' / 'notready' (the caller polls until an answer other than pending, or until the script ends)"""
    if script is None:
        return "ready"
    rest = script.lstrip("p")
    if not rest:
        return "notready"
    return "error" if rest[0] == "e" else "ready"


class Dims:
    """the dimensions of one generated case that concern how handles, services and the layer are obtained"""
    def __init__(self, rng, nsvc=None):
        self.nsvc = nsvc if nsvc is not None else rng.choice([1, 1, 1, 2, 2, 3])
        self.svc_p = rng.choice([0.3, 0.5, 0.7])          # how many arrivals go to a service other than 0
        self.rdy_p = rng.choice([0, 0, 0.08, 0.2])         # arrivals whose handle does not become ready (inner readiness fails / stays pending)
        self.rdyok_p = rng.choice([0, 0, 0.2])             # arrivals whose handle is pending first, then ready
        self.pool_p = rng.choice([0, 0, 0.3, 0.7])         # arrivals that re-use a kept handle (h.call(); h.call(); clones of used handles)
        self.via_p = rng.choice([0, 0.3, 0.7, 1.0])        # how callers obtain the handle they call (clone / clone of a ready handle / swap idiom / the template)
        self.burn_p = rng.choice([0, 0, 0.15, 0.5])        # callers whose task has used up its cooperative budget before the first poll

    def svc(self, rng):
        if self.nsvc > 1 and rng.random() < self.svc_p:
            return rng.randint(1, self.nsvc - 1)
        return 0

    def words(self, rng, svc=None, may_fail=True):
        """the handle-related words of one `arrive`"""
        w = ""
        k = self.svc(rng) if svc is None else svc
        if k:
            w += " svc=%d" % k
        if rng.random() < self.pool_p:
            w += " via=pool h=%d" % rng.randint(0, 2)
            if rng.random() < 0.3:
                w += " from=%d" % rng.randint(0, 2)
        elif rng.random() < self.via_p:
            w += rng.choice(VIAS)
        if may_fail and rng.random() < self.rdy_p:
            w += " rdy=" + rng.choice(RDY_FAIL)
        elif rng.random() < self.rdyok_p:
            w += " rdy=" + rng.choice(RDY_OK)
        if rng.random() < self.burn_p:
            w += " burn=1"
        return w


def gen_preset(rng, tier):
    """the layer built through a preset constructor and used as it comes: fill it to its documented capacity (10 / 50 /
    200 calls inside), one more is rejected at once (the presets reject when full), free some slots, fill again"""
    name = rng.choice(["small", "small", "small", "medium", "medium", "large"])
    mx = PRESETS[name]
    header = "bulkhead preset=%s" % name + (" name=p%d" % rng.randint(0, 9) if rng.random() < 0.5 else "")
    d = Dims(rng, nsvc=rng.choice([1, 1, 2]))
    d.rdy_p, d.rdyok_p, d.burn_p = rng.choice([0, 0.03]), 0, 0
    ops = []
    nxt = [1]
    inside = {k: [] for k in range(d.nsvc)}

    def arrive(k, lat, out):
        c = nxt[0]
        nxt[0] += 1
        w = d.words(rng, svc=k)
        ops.append("arrive %d inner=%d:%s%s" % (c, lat, out, w))
        ops.append("poll %d" % c)
        if rdy_outcome(w.split("rdy=")[1].split()[0] if "rdy=" in w else None) == "ready":
            inside[k].append(c)
        return c
    k0 = rng.randint(0, d.nsvc - 1)
    for _ in range(mx + rng.randint(0, 2)):
        arrive(k0, rng.choice([1000, 1000, 5]), rng.choice(["never", "ok", "ok"]))
    for _ in range(rng.randint(0, 4)):
        r = rng.random()
        if r < 0.4 and inside[k0]:
            c = inside[k0].pop(rng.randrange(len(inside[k0])))
            ops.append("drop %d" % c)
        elif r < 0.6:
            ops.append("adv %d" % rng.choice([5, 1000]))
            ops.append("settle")
        else:
            arrive(rng.randint(0, d.nsvc - 1), rng.choice([0, 5, 1000]), pick_outcome(rng))
    if d.nsvc > 1:
        # the other service, built from the same layer value, has its own full capacity
        for _ in range(rng.randint(1, mx + 1)):
            arrive(1 - k0 if d.nsvc == 2 else rng.randint(0, d.nsvc - 1), 1000, "never")
    ops.append("settle")
    return {"header": header, "ops": ops}



SUBMS = [500, 1500, 2500, 300, 999, 1001, 1999, 33300]   # waits (us) that are not whole milliseconds


def wait_us(rng):
    """a max_wait in microseconds with a sub-millisecond part"""
    return rng.choice(SUBMS + [1000 * rng.randint(0, 20) + rng.randint(1, 999)])


def gen_subms(rng, tier):
    """`unit=us`: a max_wait that is not a whole number of milliseconds (1.5 ms, 500 us, 33.3 ms, …). The bulkhead is
    filled, further callers queue; the clock visits the last millisecond boundary BEFORE arrival + max_wait (where a
    wait truncated to whole milliseconds would already be over) and the first one at/after it (where tokio's timer
    fires); in between waiters are polled, holders finish / are cancelled, slots are handed over."""
    mx = rng.choice([1, 1, 2, 3]) if rng.random() >= 0.08 else 0
    us = wait_us(rng)
    lo, hi = us // 1000, (us + 999) // 1000
    header = "bulkhead max=%d wait=%d unit=us" % (mx, us)
    if rng.random() < 0.15:
        header = "bulkhead max=%d pre=reject wait=%d unit=us" % (mx, us)
    d = Dims(rng, nsvc=rng.choice([1, 1, 1, 2]))
    d.rdy_p, d.burn_p = 0, 0
    ops = []
    holders, waiters = [], []
    t0 = rng.choice([0, 0, 3])
    if t0:
        ops.append("adv %d" % t0)
    for c in range(1, mx + 1):
        # holders that stay, that finish in the truncated tail, at the deadline, or later
        lat = rng.choice([1000, 1000, lo, lo, hi, hi + 1, max(lo - 1, 0)])
        ops.append("arrive %d inner=%d:%s%s" % (c, lat, rng.choice(["ok", "ok", "never", "err1"]), d.words(rng, svc=0)))
        ops.append("poll %d" % c)
        holders.append(c)
    for c in range(mx + 1, mx + 1 + rng.randint(1, 3)):
        ops.append("arrive %d inner=%d:%s%s" % (c, rng.choice([0, 0, 5, 1000]), pick_outcome(rng), d.words(rng, svc=0)))
        ops.append("poll %d" % c)
        waiters.append(c)
    now = 0
    for stop in ([lo, hi] if rng.random() < 0.8 else [max(lo - 1, 0), lo, hi, hi + 1]):
        if stop > now:
            ops.append("adv %d" % (stop - now))
            now = stop
        for _ in range(rng.randint(0, 4)):
            r = rng.random()
            if r < 0.45:
                ops.append("poll %d" % rng.choice(waiters))
            elif r < 0.65 and holders:
                ops.append("drop %d" % holders.pop(rng.randrange(len(holders))))
            elif r < 0.85 and holders:
                ops.append("poll %d" % rng.choice(holders))
            else:
                ops.append("settle")
    ops.append("adv %d" % rng.choice([0, 1, 1, 7]))
    ops.append("settle")
    return {"header": header, "ops": ops}


def gen_nested(rng, tier):
    """the wrapped service fans out through a clone of the bulkhead it sits behind: while an admitted call (the parent) is
    being polled, its inner future makes further requests through the same bulkhead and polls them, right there, inside
    the parent's poll (`manual onpoll c=<parent> by=<child> …`). A nested request is a request like any other: it needs a
    slot of its own — with every slot taken by its ancestors it queues (and times out, or waits for ever)."""
    mx = rng.choice([1, 1, 2, 2, 3])
    wait = rng.choice([None, 0, 5, 20, rng.randint(1, 30)])
    header = "bulkhead max=%d" % mx + ("" if wait is None else " wait=%d" % wait)
    if wait and rng.random() < 0.2:
        us = 1000 * (wait - 1) + rng.randint(1, 999)
        header = "bulkhead max=%d wait=%d unit=us" % (mx, us)
    d = Dims(rng, nsvc=rng.choice([1, 1, 2]))
    d.burn_p = 0
    d.rdy_p = rng.choice([0, 0, 0.1])
    ops = []
    nxt = [1]
    allc = []

    def fresh():
        c = nxt[0]
        nxt[0] += 1
        allc.append(c)
        return c

    def plan(parent):
        return "inner=%d:%s" % ((rng.choice([5, 10, 1000]), rng.choice(["ok", "never", "ok", "err1", "panic"])) if parent
                                else (rng.choice([0, 0, 5, 10, 1000]), pick_outcome(rng)))
    nparents = rng.randint(1, mx + 1)
    for _ in range(nparents):
        p = fresh()
        ops.append("arrive %d %s%s" % (p, plan(True), d.words(rng, svc=0)))
        kids = []
        for _ in range(rng.randint(1, mx + 2)):
            k = fresh()
            parent_too = rng.random() < 0.3
            ops.append("manual onpoll c=%d by=%d %s%s%s" % (p, k, plan(parent_too), d.words(rng, svc=0 if rng.random() < 0.8 else None),
                                                             " keep=1" if rng.random() < 0.1 else ""))
            kids.append(k)
            if parent_too:
                # grandchildren: requests nested in the poll of a nested request
                for _ in range(rng.randint(1, 2)):
                    g = fresh()
                    ops.append("manual onpoll c=%d by=%d %s%s" % (k, g, plan(False), d.words(rng, svc=0)))
        if rng.random() < 0.85:
            ops.append("poll %d" % p)
        if rng.random() < 0.3:
            ops.append("adv %d" % rng.choice([0, 1, 5]))
    now_marks = [5, 10, wait or 3, (wait or 3) + 5]
    for _ in range(rng.randint(2, 10)):
        r = rng.random()
        if r < 0.4:
            ops.append("poll %d" % rng.choice(allc))
        elif r < 0.55:
            ops.append("drop %d" % rng.choice(allc))
        elif r < 0.8:
            ops.append("adv %d" % rng.choice(now_marks))
        elif r < 0.9 and nxt[0] < 40:
            # a late fan-out: armed while the parent is already running, fires at its next pending poll
            p = rng.choice(allc)
            k = fresh()
            ops.append("manual onpoll c=%d by=%d %s%s" % (p, k, plan(False), d.words(rng, svc=0)))
            ops.append("poll %d" % p)
        else:
            ops.append("settle")
    ops.append("settle")
    if rng.random() < 0.5:
        ops.append("adv %d" % rng.choice([5, 20, 1000]))
        ops.append("settle")
    return {"header": header, "ops": ops}


def gen_fanout(rng, tier):
    """a helper creates the response futures and returns only them: every handle is gone before any future is
    polled (or after some have been); the futures still go through ONE bulkhead"""
    mx = rng.choice([1, 1, 2, 3]) if rng.random() >= 0.08 else 0
    wait = rng.choice([None, None, 0, 5, 20])
    header = "bulkhead max=%d" % mx + ("" if wait is None else " wait=%d" % wait)
    n = mx + rng.randint(1, 3)
    ops = []
    ids = list(range(1, n + 1))
    early = rng.randint(0, mx) if rng.random() < 0.4 else 0    # polled (admitted) before the handles go
    d = Dims(rng)                                              # (several services from the layer: ALL their handles and the layer go)
    d.burn_p = 0
    for c in ids:
        ops.append("arrive %d inner=%d:%s%s" % (c, rng.choice([5, 10, 1000]), pick_outcome(rng), d.words(rng)))
    for c in ids[:early]:
        ops.append("poll %d" % c)
    ops.append("manual dropsvc")
    order = ids[:]
    rng.shuffle(order)
    for c in order:
        ops.append("poll %d" % c)
    for _ in range(rng.randint(0, 4)):
        ops.append(rng.choice(["adv 5", "adv 10", "settle", "drop %d" % rng.choice(ids), "adv %d" % (wait or 3)]))
    ops.append("settle")
    return {"header": header, "ops": ops}


FAR = 30 * 365 * 24 * 60 * 60 * 1000      # tokio's far-future horizon in ms: `Sleep::far_future()` = now + 30 years of 365 days —
#                                            what `timeout(Duration::MAX, ..)` (an unrepresentable deadline) is armed with
WHEEL = 1 << 36                           # the span of tokio's timer wheel in ms (about 2.2 years): later deadlines are re-armed
YEAR = 365 * 24 * 60 * 60 * 1000
#   The harness clock is u64 nanoseconds, cumulative over the cases of one process; `world::begin_case` rewinds it between
#   cases once a quarter of the range (146 years) is used, so ONE case may span up to about 430 years. Cases below stay
#   under 100 years.


def gen_zero(rng, tier):
    """`max_concurrent_calls(0)` — a bulkhead used as a kill switch: nobody is ever admitted, and the rejection rule is the
    ordinary one. Callers arrive at different instants, with every kind of handle, on one or several services; the clock
    visits deadline-1 / deadline / deadline+1 of the waiters (none / zero / finite / sub-millisecond / Duration::MAX wait);
    waiters are polled in between, cancelled, the services dropped."""
    how = rng.random()
    wait, wait_lo, hdr = None, None, "bulkhead max=0"
    if how < 0.50:
        wait = wait_lo = rng.choice([50, 50, 5, 10, 20, 1, rng.randint(1, 60)])
        hdr += " wait=%d" % wait
    elif how < 0.62:
        us = wait_us(rng)
        wait, wait_lo = (us + 999) // 1000, us // 1000
        hdr += " wait=%d unit=us" % us
    elif how < 0.74:
        wait = wait_lo = 0
        hdr += rng.choice([" wait=0", " post=reject", " pre=reject", " preset=small", " wait=7 post=reject"])
    elif how < 0.80:
        hdr += " wait=max"
    elif how < 0.86:
        wait = wait_lo = rng.choice([5, 50])
        hdr += " pre=reject wait=%d" % wait       # the wait set after reject_when_full() wins
    if rng.random() < 0.15:
        hdr += " ctor=%s" % rng.choice(["new", "default"])
    d = Dims(rng)
    d.burn_p = rng.choice([0, 0, 0.2])
    ops = []
    now = 0
    marks = []
    live = []
    nxt = 1
    for _ in range(rng.randint(4, 30)):
        r = rng.random()
        if (r < 0.30 or not live) and nxt <= 8:
            c, nxt = nxt, nxt + 1
            ops.append("arrive %d inner=%d:%s%s" % (c, rng.choice([0, 0, 5, 1000]), pick_outcome(rng), d.words(rng)))
            live.append(c)
            if rng.random() < 0.8:
                ops.append("poll %d" % c)
                if wait:
                    marks += [now + wait, now + wait_lo]
        elif r < 0.60 and live:
            ops.append("poll %d" % rng.choice(live))
            if wait:
                marks += [now + wait, now + wait_lo]
        elif r < 0.66 and live:
            ops.append("drop %d" % live.pop(rng.randrange(len(live))))
        elif r < 0.68:
            ops.append(rng.choice(["manual dropsvc", "manual readyidle", "manual clonelayer"]))
        elif r < 0.92:
            fut = [m for m in marks if m > now]
            if fut and rng.random() < 0.8:
                dd = max(0, min(fut) - now + rng.choice([-1, 0, 0, 0, 1])) if rng.random() < 0.7 else max(0, rng.choice(fut) - now)
            else:
                dd = rng.choice([0, 1, 2, 5, 10, rng.randint(0, 30)])
            ops.append("adv %d" % dd)
            now += dd
        else:
            ops.append("settle")
    ops.append("settle")
    if rng.random() < 0.5:
        ops.append("adv %d" % ((wait or 7) + rng.choice([0, 1])))
        ops.append("settle")
    return {"header": hdr, "ops": ops}


def gen_far(rng, tier):
    """very long waits. A bulkhead that stays full (a call that never completes, or capacity 0) with queued callers, and
    the clock moved by years: across the span of tokio's timer wheel (2^36 ms) and across its far-future horizon (30
    years, where a timer for an unrepresentable deadline fires). No max_wait = no limit: still waiting at 30 years - 1 ms,
    30 years, 30 years + 1 ms after ITS arrival; a finite wait (2^36 ms, 10 / 30 / 40 years, +-1 ms) is honoured to the
    millisecond. Afterwards the holder goes away and the waiters are served."""
    mx = rng.choice([0, 1, 1, 1, 2])
    r = rng.random()
    if r < 0.6:
        wait = None
    else:
        wait = rng.choice([WHEEL, WHEEL + 1, WHEEL - 1, 10 * YEAR, FAR, FAR - 1, FAR + 1, 40 * YEAR, YEAR + 500])
    hdr = "bulkhead max=%d" % mx + ("" if wait is None else " wait=%d" % wait)
    if rng.random() < 0.15:
        hdr += " ctor=%s" % rng.choice(["new", "default"])
    d = Dims(rng, nsvc=rng.choice([1, 1, 1, 2]))
    d.rdy_p, d.burn_p = 0, rng.choice([0, 0, 0.2])
    ops = []
    now = 0
    t0 = rng.choice([0, 0, 3, 1000])
    if t0:
        ops.append("adv %d" % t0)
        now = t0
    holders, waiters, arrival = [], [], {}
    for c in range(1, mx + 1):
        # holders: never done, (rarely) done soon. No far-future inner latencies: timers with DIFFERENT deadlines beyond the
        # span of the timer wheel make this tokio version's wheel crash (SIGSEGV in `Wheel::poll`, seen with sleeps of 3 and
        # 5 years and an advance of 4) — the only far timers of a case are the bulkhead's own, all for the same wait
        lat = rng.choice([0, 0, 0, 5])
        out = "never" if lat == 0 else rng.choice(["ok", "ok", "err1", "never"])
        ops.append("arrive %d inner=%d:%s%s" % (c, lat, out, d.words(rng, svc=0)))
        ops.append("poll %d" % c)
        holders.append(c)
    for c in range(mx + 1, mx + 1 + rng.randint(1, 3)):
        if waiters and rng.random() < 0.5:
            dd = rng.choice([1, 7, 1000])
            ops.append("adv %d" % dd)
            now += dd
        ops.append("arrive %d inner=%d:%s%s" % (c, rng.choice([0, 0, 5]), pick_outcome(rng), d.words(rng, svc=0)))
        ops.append("poll %d" % c)
        waiters.append(c)
        arrival[c] = now
    # stops: per waiter the horizon (and its own deadline) -1 / 0 / +1, with a few stations on the way
    stops = set()
    for c in waiters:
        for base in [FAR] + ([wait] if wait else []):
            for e in ([-1, 0, 1] if rng.random() < 0.7 else [0]):
                stops.add(arrival[c] + base + e)
    for x in [WHEEL, YEAR, 10 * YEAR, 29 * YEAR]:
        if rng.random() < 0.3:
            stops.add(now + x + rng.choice([-1, 0, 1]))
    if rng.random() < 0.3:
        stops.add(max(stops) + rng.choice([1, 86400000, YEAR]))
    for stop in sorted(x for x in stops if x > now and x - t0 < 90 * YEAR):
        ops.append("adv %d" % (stop - now))
        now = stop
        for _ in range(rng.randint(1, 3)):
            q = rng.random()
            if q < 0.7 and waiters:
                ops.append("poll %d" % rng.choice(waiters))
            elif q < 0.8 and holders:
                ops.append("poll %d" % rng.choice(holders))
            elif q < 0.85 and holders and now - t0 > FAR:
                ops.append("drop %d" % holders.pop(rng.randrange(len(holders))))
            else:
                ops.append("settle")
    for c in holders:
        if rng.random() < 0.7:
            ops.append("drop %d" % c)
    ops.append("settle")
    return {"header": hdr, "ops": ops}


def gen(rng, tier):
    r = rng.random()
    if r < 0.08:
        return gen_fanout(rng, tier)
    if r < 0.13:
        return gen_preset(rng, tier)
    if r < 0.20:
        return gen_subms(rng, tier)
    if r < 0.28:
        return gen_nested(rng, tier)
    if r < 0.33:
        return gen_zero(rng, tier)
    if r < 0.35:
        return gen_far(rng, tier)
    mx = rng.choice([1, 1, 2, 2, 3, 4]) if rng.random() >= 0.05 else 0      # 0: nobody is ever admitted
    wait = rng.choice([None, None, 0, rng.randint(1, 50), rng.randint(1, 50), rng.choice([5, 10, 20])])
    header = "bulkhead max=%d" % mx + ("" if wait is None else " wait=%d" % wait)
    wait_lo = wait
    if wait and rng.random() < 0.15:
        # the same wait with a sub-millisecond part: the timer fires at the first millisecond boundary at/after it
        us = 1000 * (wait - 1) + rng.randint(1, 999)
        wait_lo = wait - 1
        header = "bulkhead max=%d wait=%d unit=us" % (mx, us)
    if rng.random() < 0.06:
        wait = None                       # an unrepresentable deadline (Duration::MAX) behaves like no deadline
        header = "bulkhead max=%d wait=max" % mx
    r0 = rng.random()
    if r0 < 0.10:
        header += " pre=reject"           # reject_when_full() first, then the wait (if any) is set: the wait wins
        if wait is None and "wait=max" not in header:
            wait = 0
    elif r0 < 0.18:
        header += " post=reject"          # … set last: zero wait wins
        wait = 0
    r1 = rng.random()
    if r1 < 0.15:
        # a preset constructor customised afterwards: the preset's "reject when full" stays unless a wait is set
        header += " preset=%s" % rng.choice(sorted(PRESETS))
        if wait is None and "wait=max" not in header:
            wait = 0
    elif r1 < 0.25:
        header += " ctor=%s" % rng.choice(["new", "default"])
    if rng.random() < 0.15:
        header += " name=b%d" % rng.randint(0, 9)
    d = Dims(rng)
    idle_p = rng.choice([0, 0, 0.1, 0.3])
    onpoll_p = rng.choice([0, 0, 0.1, 0.3])
    ondrop_p = rng.choice([0, 0.3, 0.8])
    dropsvc_p = rng.choice([0, 0, 0.5])
    ncall = rng.randint(1, 10) if rng.random() < 0.8 else rng.randint(mx, mx + 2)
    ops = []
    now = 0
    marks = []
    arrived = []
    pending = list(range(1, ncall + 1))
    nsteps = rng.randint(8, 45)
    for _ in range(nsteps):
        r = rng.random()
        if pending and (r < 0.25 or not arrived):
            c = pending.pop(0)
            lat = rng.choice([0, 0, 1, 5, 10, rng.randint(0, 60)])
            out = pick_outcome(rng)
            ops.append("arrive %d inner=%d:%s%s" % (c, lat, out, d.words(rng)))
            arrived.append(c)
            if rng.random() < idle_p:
                # a handle polled ready and then kept, never called; sometimes its readiness fails and it is discarded
                ops.append("manual readyidle" + (" svc=%d" % d.svc(rng) if d.nsvc > 1 else "") +
                           (" rdy=" + rng.choice(RDY_FAIL + RDY_OK) if rng.random() < 0.3 else ""))
            if d.nsvc > 1 and rng.random() < 0.05:
                ops.append("manual clonelayer")  # services built from now on come from a clone of the layer value
            if rng.random() < 0.6:
                ops.append("poll %d" % c)
                marks.append(now + lat)
                if wait:
                    marks.append(now + wait)
                    marks.append(now + wait_lo)
        elif r < 0.60 and arrived:
            c = rng.choice(arrived)
            if pending and rng.random() < onpoll_p:
                # the wrapped service fans out: requests made (and first polled) from inside the poll of caller c's inner call
                for _ in range(rng.randint(1, 2)):
                    if pending:
                        c2 = pending.pop(0)
                        ops.append("manual onpoll c=%d by=%d inner=%d:%s%s" % (c, c2, rng.choice([0, 1, 5, 20]), pick_outcome(rng),
                                                                              d.words(rng).replace(" burn=1", "")))
                        arrived.append(c2)
            ops.append("poll %d" % c)
            if wait:
                marks.append(now + wait)
                marks.append(now + wait_lo)
        elif r < 0.68 and arrived:
            c = rng.choice(arrived)
            if pending and rng.random() < ondrop_p:
                # a request arriving from inside the destructor of the dropped caller's inner call (or from another
                # thread while it is being destroyed): the call is still in flight, its slot still taken
                c2 = pending.pop(0)
                ops.append("manual ondrop c=%d by=%d inner=%d:%s%s" % (c, c2, rng.choice([0, 1, 5, 20]), pick_outcome(rng),
                                                                      d.words(rng).replace(" burn=1", "")))
                arrived.append(c2)
            ops.append("drop %d" % c)
        elif r < 0.70 and rng.random() < dropsvc_p:
            ops.append("manual dropsvc")      # every handle dropped while calls are in flight or not yet polled
        elif r < 0.90:
            fut = [m for m in marks if m >= now]
            if fut and rng.random() < 0.7:
                dd = max(0, rng.choice(fut) - now + rng.choice([-1, 0, 0, 0, 1]))
            else:
                dd = rng.choice([0, 1, 2, 5, 10, rng.randint(0, 30)])
            ops.append("adv %d" % dd)
            now += dd
        else:
            ops.append("settle")
    if "wait=max" not in header and rng.random() < 0.02:
        # whoever is still waiting (no max_wait; a never-ending holder) is looked at again decades later
        ops.append("adv %d" % (FAR + rng.choice([0, 0, 1, wait or 0, YEAR]) - (now if rng.random() < 0.5 else 0)))
        ops.append("settle")
    # C07: quiescence, then a probe burst of `max` gated calls (+1 that must wait / be rejected) on every service —
    # sometimes without quiescence of the OTHER services: a service is probed while its siblings are still busy
    ops.append("settle")
    if rng.random() < 0.8:
        quiesce = d.nsvc == 1 or rng.random() < 0.6
        if quiesce:
            ops.append("dropall")
        ops.append("adv %d" % rng.choice([0, 1, 100]))
        allids = []
        for k in (range(d.nsvc) if quiesce else [rng.randint(1, d.nsvc - 1)]):
            ids = [100 * (k + 1) + i for i in range(mx + (1 if rng.random() < 0.5 else 0))]
            for c in ids:
                ops.append("arrive %d inner=1000:ok%s" % (c, d.words(rng, svc=k, may_fail=False)))
            allids += ids
        order = allids[:]
        rng.shuffle(order)
        for c in order:
            ops.append("poll %d" % c)
        if rng.random() < 0.5:
            ops.append("adv %d" % (wait if wait else 7))
            ops.append("settle")
    return {"header": header, "ops": ops}


def _scan(case, lines, meta):
    """the configuration the header describes: (max_concurrent_calls, max_wait in ms or None)"""
    cfg = kvs(case["header"])
    preset = cfg.get("preset") if cfg.get("preset") in PRESETS else None
    mx = int(cfg["max"]) if "max" in cfg else (PRESETS[preset] if preset else 1)
    wait = int(cfg["wait"]) if "wait" in cfg and cfg["wait"] != "max" else None   # "max": Duration::MAX, never due
    if wait is not None and cfg.get("unit") == "us":
        wait = (wait + 999) // 1000       # microseconds: the timer fires at the first millisecond boundary at/after the deadline
    # builder setter order: the last of reject_when_full() (the presets call it too) / max_wait_duration(..) decides
    if cfg.get("post") == "reject" or ((cfg.get("pre") == "reject" or preset) and "wait" not in cfg):
        wait = 0
    return mx, wait


def _wait_us(case):
    """the configured max_wait itself, in microseconds (None: unbounded), not rounded to the timer's grid"""
    cfg = kvs(case["header"])
    _, wait = _scan(case, None, None)
    if wait and cfg.get("unit") == "us" and "wait" in cfg and cfg.get("post") != "reject":
        return int(cfg["wait"])
    return None if wait is None else wait * 1000


def _fmt_us(us):
    return "%dms" % (us // 1000) if us % 1000 == 0 else "%sms" % (us / 1000.0)


def _callers(case):
    """from the op file alone: caller -> service it goes through (`svc=`, default 0), and what its handle's readiness
    script comes to ('ready' / 'error' / 'notready')"""
    owner, rdy = {}, {}
    for o in case["ops"]:
        w = o.split()
        if not w:
            continue
        c = None
        if w[0] == "arrive" and len(w) > 1:
            c, kv = w[1], kvs(" ".join(w[2:]))
        elif w[:2] in (["manual", "ondrop"], ["manual", "onpoll"]):
            kv = kvs(" ".join(w[2:]))
            c = kv.get("by")
        if c is not None and c not in owner:
            owner[c] = kv.get("svc", "0")
            rdy[c] = rdy_outcome(kv.get("rdy"))
    return owner, rdy


def mon_c01(case, lines, meta):
    """at most max_concurrent_calls requests are inside the wrapped service of ONE bulkhead (= one service built from
    the layer, all its handles counted), whatever else happened — including inner readiness failures on some handle"""
    mx, _ = _scan(case, lines, meta)
    owner, _ = _callers(case)
    inflight = {}
    where = {}
    for i, l in enumerate(lines):
        t, w = tparse(l)
        if not w:
            continue
        if w[0] == "inner_call":
            k = owner.get(w[1], "0")
            inflight.setdefault(k, set()).add(w[2])
            where[w[2]] = k
            if len(inflight[k]) > mx:
                return "line %d: %d calls inside the inner service%s, max_concurrent_calls=%d (%s)" % (
                    i, len(inflight[k]), "" if len(set(owner.values())) <= 1 else " of service %s" % k, mx, l)
        elif w[0] in ("inner_done", "inner_drop"):
            inflight.get(where.get(w[2], "0"), set()).discard(w[2])
    return None


def _timeline(lines, meta):
    """merge meta (#fp/#drop) into the line stream: list of (pos, kind, words, t)"""
    ev = []
    mi = 0
    meta = [m for m in meta if m[0] >= 0]
    for i, l in enumerate(lines + [None]):
        while mi < len(meta) and meta[mi][0] == i:
            ws = meta[mi][1].split()
            ev.append(("meta", ws, int(ws[2]) if len(ws) > 2 and ws[2].isdigit() else None))
            mi += 1
        if l is not None:
            t, w = tparse(l)
            ev.append(("line", w, t))
    return ev


def first_visited_at_or_after(case, instant):
    """virtual time only visits the instants reached by `adv` operations"""
    now = 0
    if now >= instant:
        return now
    for o in case["ops"]:
        w = o.split()
        if w and w[0] == "adv":
            now += int(w[1])
            if now >= instant:
                return now
    return None


def mon_c07(case, lines, meta):
    """per service built from the layer (services share nothing): admitted at once while the service has a free slot
    and no waiter — however busy its siblings are —, rejected only by the wait timeout, at the deadline, never after
    reaching the inner service; a request whose handle did not become ready never reaches the inner service"""
    mx, wait = _scan(case, lines, meta)
    wus = _wait_us(case)
    owner, rdy = _callers(case)
    ev = _timeline(lines, meta)
    fp = {}
    inflight = {}          # service -> serials inside inner
    where = {}
    waiting = {}           # service -> callers first-polled, neither admitted nor resolved nor dropped
    called = set()
    wakes = {}
    multi = len(set(owner.values())) > 1
    for i, (kind, w, t) in enumerate(ev):
        if not w:
            continue
        if kind == "meta" and w[0] == "#fp":
            c = w[1]
            k = owner.get(c, "0")
            fp[c] = t
            # admitted at once if fewer than max in flight and nobody queued (in the caller's own service)
            if len(inflight.get(k, ())) < mx and not waiting.get(k):
                nxt = ev[i + 1] if i + 1 < len(ev) else None
                if not (nxt and nxt[0] == "line" and nxt[1][:2] == ["inner_call", c]):
                    busy = sum(len(v) for kk, v in inflight.items() if kk != k)
                    return "caller %s first polled at t=%s with %d/%d in flight%s and nobody queued, but not admitted at once%s" % (
                        c, t, len(inflight.get(k, ())), mx, " in its service %s" % k if multi else "",
                        " (%d calls are in flight in OTHER services built from the same layer)" % busy if busy else "")
            waiting.setdefault(k, set()).add(c)
        elif kind == "meta" and w[0] == "#wake":
            wakes[w[1]] = [int(x) for x in w[2].split(",")]
        elif kind == "meta" and w[0] == "#drop":
            waiting.get(owner.get(w[1], "0"), set()).discard(w[1])
        elif kind == "meta" and w[0] == "#pollend":
            c = w[1]
            if c in waiting.get(owner.get(c, "0"), ()) and c in fp and wait is not None and t is not None and t >= fp[c] + wait:
                return "caller %s (arrived t=%s, max_wait=%s) was polled at t=%s, had no slot, and was neither admitted nor rejected: it waits beyond its deadline" % (c, fp[c], wait, t)
        elif kind == "line" and w[0] == "inner_call":
            k = owner.get(w[1], "0")
            if len(inflight.get(k, ())) >= mx:
                return "caller %s was let into the inner service at t=%s while all %d slots%s were taken: a caller that cannot get a slot waits or is rejected by the wait timeout" % (
                    w[1], t, mx, " of its service %s" % k if multi else "")
            inflight.setdefault(k, set()).add(w[2])
            where[w[2]] = k
            called.add(w[1])
            waiting.get(k, set()).discard(w[1])
            if rdy.get(w[1], "ready") != "ready":
                return "caller %s reached the inner service although its handle never became ready (readiness: %s)" % (w[1], rdy[w[1]])
        elif kind == "line" and w[0] in ("inner_done", "inner_drop"):
            inflight.get(where.get(w[2], "0"), set()).discard(w[2])
        elif kind == "line" and w[0] == "result":
            c = w[1]
            waiting.get(owner.get(c, "0"), set()).discard(c)
            if w[2] == "err:timeout":
                if wait is None:
                    return "caller %s rejected with timeout although max_wait is unbounded" % c
                if c in called:
                    return "caller %s was rejected after reaching the inner service" % c
                if c in fp and t * 1000 < fp[c] * 1000 + wus:
                    return "caller %s rejected at t=%s, before arrival (first poll, t=%s) + max_wait=%s" % (
                        c, t, fp[c], wait if wus == wait * 1000 else _fmt_us(wus))
                due = first_visited_at_or_after(case, fp[c] + wait) if c in fp else None
                # (the wake-up may be stamped between the deadline and the first visited instant: the harness makes an
                # advance of years in stretches, and the timer fires at the end of the stretch that contains the deadline)
                if c in fp and due is not None and t > due and not any(fp[c] + wait <= x <= due for x in wakes.get(c, [])):
                    return "caller %s (arrived t=%s, max_wait=%s) was not woken at its deadline (wake-ups since its previous poll: %s); rejected only when polled at t=%s" % (c, fp[c], wait, wakes.get(c, []), t)
            elif w[2] == "err:full":
                return "caller %s rejected with BulkheadFull (semaphore closed?)" % c
            elif w[2].startswith("err:accessor-mismatch"):
                return "caller %s: the error's accessors / conversion disagree with its variant (%s)" % (c, w[2])
    return None


def transitions(case, lines, meta=None):
    tags = []
    hdr = kvs(case["header"])
    if hdr.get("preset") in PRESETS:
        tags.append("preset-" + hdr["preset"] + ("" if "max" not in hdr else "-customised"))
    owner, rdy = _callers(case)
    if len(set(owner.values())) > 1:
        tags.append("several-services")
    subms = hdr.get("unit") == "us" and hdr.get("wait", "0").isdigit() and int(hdr["wait"]) % 1000 != 0
    if subms:
        tags.append("submilli-wait")
    mx0, _ = _scan(case, lines, meta)
    if mx0 == 0:
        tags.append("zero-capacity")
    nested = set()
    fp0 = {}
    for m in (meta or []):
        mw = m[1].split()
        if mw and mw[0] == "#onpoll":
            nested.add(mw[2])
        elif mw and mw[0] == "#fp" and len(mw) > 2 and mw[2].isdigit():
            fp0[mw[1]] = int(mw[2])
        elif mw and mw[0] == "#pollend" and len(mw) > 3 and mw[3] == "pending" and mw[2].isdigit() and mw[1] in fp0 \
                and int(mw[2]) >= fp0[mw[1]] + FAR:
            tags.append("far-future-still-waiting")     # polled 30 years or more after its arrival, still pending
    for o in case["ops"]:
        if " via=pool" in o:
            tags.append("handle-reused")
            break
    for l in lines:
        _, w = tparse(l)
        if not w:
            continue
        if w[0] == "inner_call":
            tags.append("inner_call")
            if w[1] in nested:
                tags.append("nested-admitted")
        elif w[0] == "result" and w[2] == "err:timeout" and (subms or w[1] in nested or mx0 == 0):
            if mx0 == 0:
                tags.append("zero-capacity-timeout")
            if subms:
                tags.append("submilli-timeout")
            if w[1] in nested:
                tags.append("nested-timeout")
            tags.append("result-err-timeout")
        elif w[0] == "inner_drop":
            tags.append("dropped-running")
        elif w[0] == "result" and rdy.get(w[1], "ready") != "ready":
            tags.append("refused-" + rdy[w[1]])
        elif w[0] == "result":
            tags.append("result-" + w[2].split(":")[0] + ("-timeout" if w[2] == "err:timeout" else "") + ("-panic" if w[2] == "panic" else ""))
    return tags


def nontrivial(case, lines, tags):
    return any(t in ("result-err-timeout", "dropped-running", "result-panic-panic") for t in tags) or \
        sum(1 for t in tags if t == "inner_call") >= 3


COMMON = {
    "group": "bulkhead",
    "gen": gen,
    "transitions": transitions,
    "nontrivial": nontrivial,
    "all_transitions": ["inner_call", "dropped-running", "result-ok", "result-err", "result-err-timeout", "result-panic-panic",
                        "refused-error", "refused-notready", "several-services", "handle-reused",
                        "preset-small", "preset-medium", "preset-large", "preset-small-customised",
                        "submilli-wait", "submilli-timeout", "nested-admitted", "nested-timeout",
                        "zero-capacity", "zero-capacity-timeout", "far-future-still-waiting"],
    "model_modules": ["TR.Model.Bulkhead", "TR.Lemmas.Bulkhead", "TR.Lemmas.Bulkhead2", "TR.Lemmas.BulkheadMulti",
                      "TR.Lemmas.BulkheadLog", "TR.Lemmas.BulkheadWait"],
    "lean_files": ["TR.Model.Bulkhead", "TR.Lemmas.Bulkhead", "TR.Lemmas.Bulkhead2", "TR.Lemmas.BulkheadMulti",
                      "TR.Lemmas.BulkheadLog", "TR.Lemmas.BulkheadWait"],
    "sizes": (500, 30000),
    "rule": "seeded random op sequences (arrive/poll/drop/adv/settle) over 1..10 callers, max 1..4, max_wait none/0/1..50ms, "
            "advances biased to deadline-1/deadline/deadline+1, followed by a quiescence + probe burst; 1..3 services built from the one "
            "layer value (or clones of it), handles obtained by clone / clone-of-ready / swap / template / a kept handle called again, "
            "inner readiness failing or pending on the handle of some arrivals and idle handles, layers built through the presets "
            "(used as they come: filled to 10/50/200, or customised), `.name`, `BulkheadConfigBuilder::new/default`; waits with a "
            "sub-millisecond part (`unit=us`: 500 us, 1.5 ms, 33.3 ms, …) with polls / completions / cancellations at the last millisecond "
            "boundary before and the first one at/after the deadline; requests made by the wrapped service itself from inside the poll of an "
            "admitted call, through a clone of the same bulkhead (`manual onpoll`, nested to depth 2); capacity 0 (`max=0`: nobody is ever admitted) "
            "with every wait setting, deadlines visited -1/0/+1; very long waits: the clock moved by years across the span of tokio's timer "
            "wheel (2^36 ms) and its far-future horizon (30 years) with callers queued behind a call that never completes (no max_wait, or a "
            "finite wait of 2^36 ms / 10 / 30 / 40 years +-1 ms); distinct = distinct "
            "implementation event log; non-trivial = a wait timeout, a cancelled running call, a panic, or >= 3 admissions",
    "trusted": ["tokio Semaphore/timeout semantics as transcribed in TR.Model.Bulkhead (sampled by the correspondence check)",
                "harness: clock_gettime interposition, manual poller, scripted inner service", "python diff/monitors"],
    "assumptions": ["one poll of one call future is atomic (single-threaded runtime)",
                    "usize modelled as unbounded Nat"],
}

LEVEL_NOTE = ("Trusted: Lean kernel; the transcription of tokio's Semaphore (FIFO hand-off at release, assigned permit returned on drop) "
              "and time::timeout (future polled before the deadline) in TR.Model.Bulkhead, validated only by the sampled correspondence "
              "check; the harness (virtual clock by clock_gettime interposition, manual poller) and the python diff. Wake-ups are observed "
              "by the harness's waker monitor, not modelled.")

SPECS = {
    "C01": dict(COMMON, module="TR.Props.C01", monitors=[("c01-inflight-bound", mon_c01)],
                level_text="Theorems TR.Props.C01.{bound,trace_bound,trace_matches_state,permits_conserved}: for every configuration and every "
                           "operation sequence (all arrival/poll/cancel/advance orders, all inner scripts, inner readiness failures at any point) at "
                           "most max calls are inside the inner service, in every prefix of the event log; proved by an inductive counting invariant. "
                           "{readiness_failure_changes_nothing}: a handle whose readiness fails costs and frees nothing. "
                           "{services_bound,services_trace_bound,services_permits_conserved}: every service built from one layer value has the full "
                           "bound of its own, after any multi-service history; {preset_bounds}: the presets' documented numbers. "
                           "{log_wellformed,call_is_new,end_follows_own_call,at_most_one_call_and_end,count_is_inflight_set,inflight_is_running,"
                           "running_iff_log,running_nodup}: every reachable log is a well-formed call/end trace (each inner_done/inner_drop follows its own "
                           "inner_call, at most once; no caller or serial is used twice), so in every prefix calls - ended IS the number of open calls, and "
                           "the open calls of the log are exactly the model's running list. {inner_needs_permit,inner_call_origin}: an inner_call is "
                           "appended only by the poll that took a permit for that caller (a free one at its first poll, or the one a release handed it). "
                           "{nested_call_needs_own_permit,nested_call_bound}: a request made from inside the poll of an admitted call (the wrapped service "
                           "fanning out through a clone of its own bulkhead) is an ordinary request — with every permit taken it starts no inner call. "
                           "The model is tied to the real "
                           "BulkheadLayer by line-for-line agreement of event logs on generated schedules.",
                level_note=LEVEL_NOTE),
    "C07": dict(COMMON, module="TR.Props.C07", monitors=[("c07-capacity-and-rejection", mon_c07)],
                level_text="Theorems TR.Props.C07.{quiescent_full,no_waiter_while_free,admit_at_once,reject_only_by_timeout,one_phase,rejected_never_runs,cancelled_while_waiting_never_runs}: after any history all "
                           "permits return once nothing is in flight; a first poll with spare capacity reaches the inner service in that step; "
                           "err:timeout is emitted only for max_wait=0 with no free permit or for a queued, unassigned caller at/after its deadline. "
                           "{arrival_is_first_poll,first_poll_is_unique,deadline_is_arrival_plus_wait,rejected_not_before_deadline,rejection_instant,rejected_at_deadline,"
                           "waits_until_deadline,reject_when_full_never_queues}: the deadline of a waiting caller is the instant of its first poll plus max_wait; "
                           "err:timeout is answered only by a poll at an instant >= that, and a waiting caller without a permit polled at or after it IS "
                           "rejected (before it: nothing changes). {never_rejected_without_max_wait,waits_forever_without_max_wait}: max_wait = none never rejects. "
                           "{spare_capacity_admits,capacity_restored,probe_burst,probe_burst_simultaneous,probe_burst_overflow,admit_at_once_log}: after any history, once nothing is "
                           "in flight, max never-polled callers polled once each in any order all reach the inner service, are inside together if none "
                           "finishes at once, and the (max+1)-th queues (or is rejected when max_wait = 0). "
                           "{timerTicks_not_early,timerTicks_less_than_a_tick_late,timerTicks_whole,timerTicks_zero_iff,rejection_never_before_configured_wait,"
                           "waits_through_configured_wait,rejected_at_first_tick_after_configured_wait}: for a configured wait with a sub-millisecond part the "
                           "deadline is the first timer tick (ms) at/after arrival + wait: never rejected before the configured wait has elapsed, less than 1 ms after. "
                           "That the runtime wakes a waiter at its deadline (so that it is polled then) is observed by the harness's waker monitor, not proved. "
                           "{services_independent,service_admit_at_once,service_quiescent_full,service_rejected_never_runs}: services built from one layer "
                           "value share nothing — an idle service admits at once whatever its siblings hold; {refused_never_runs}: a request whose "
                           "handle did not become ready never reaches the inner service; {presets_reject_when_full}; {service_probe_burst,service_wait_exact}: "
                           "the burst and the exact deadline for every service of a multi-service history.",
                level_note=LEVEL_NOTE),
}
