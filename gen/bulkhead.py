"""C01 / C07 — bulkhead: generator, implementation-side monitors"""
from gen.util import kvs, tparse, pick_outcome


VIAS = [" via=readyclone", " via=swap", " via=template", " via=clone"]


def gen_fanout(rng, tier):
    """a helper creates the response futures and returns only them: every handle is gone before any future is
    polled (or after some have been); the futures still go through ONE bulkhead"""
    mx = rng.choice([1, 1, 2, 3])
    wait = rng.choice([None, None, 0, 5, 20])
    header = "bulkhead max=%d" % mx + ("" if wait is None else " wait=%d" % wait)
    n = mx + rng.randint(1, 3)
    ops = []
    ids = list(range(1, n + 1))
    early = rng.randint(0, mx) if rng.random() < 0.4 else 0    # polled (admitted) before the handles go
    for c in ids:
        ops.append("arrive %d inner=%d:%s%s" % (c, rng.choice([5, 10, 1000]), pick_outcome(rng), rng.choice(VIAS + ["", ""])))
    for c in ids[:early]:
        ops.append("poll %d" % c)
    ops.append("manual dropsvc")
    order = ids[:]
    rng.shuffle(order)
    for c in order:
        ops.append("poll %d" % c)
    for _ in range(rng.randint(0, 4)):
        ops.append(rng.choice(["adv 5", "adv 10", "settle", "drop %d" % rng.choice(ids), "adv %d" % (wait or 3)]))
    ops.append("settle")
    return {"header": header, "ops": ops}


def gen(rng, tier):
    if rng.random() < 0.08:
        return gen_fanout(rng, tier)
    mx = rng.choice([1, 1, 2, 2, 3, 4])
    wait = rng.choice([None, None, 0, rng.randint(1, 50), rng.randint(1, 50), rng.choice([5, 10, 20])])
    header = "bulkhead max=%d" % mx + ("" if wait is None else " wait=%d" % wait)
    if rng.random() < 0.06:
        wait = None                       # an unrepresentable deadline (Duration::MAX) behaves like no deadline
        header = "bulkhead max=%d wait=max" % mx
    r0 = rng.random()
    if r0 < 0.10:
        header += " pre=reject"           # reject_when_full() first, then the wait (if any) is set: the wait wins
        if wait is None and "wait=max" not in header:
            wait = 0
    elif r0 < 0.18:
        header += " post=reject"          # … set last: zero wait wins
        wait = 0
    burn_p = rng.choice([0, 0, 0.15, 0.5])  # callers whose task has used up its cooperative budget before the first poll
    via_p = rng.choice([0, 0.3, 0.7, 1.0])  # how callers obtain the handle they call (clone / clone of a ready handle / swap idiom / the template)
    idle_p = rng.choice([0, 0, 0.1, 0.3])
    ondrop_p = rng.choice([0, 0.3, 0.8])
    dropsvc_p = rng.choice([0, 0, 0.5])
    ncall = rng.randint(1, 10) if rng.random() < 0.8 else rng.randint(mx, mx + 2)
    ops = []
    now = 0
    marks = []
    arrived = []
    pending = list(range(1, ncall + 1))
    nsteps = rng.randint(8, 45)
    for _ in range(nsteps):
        r = rng.random()
        if pending and (r < 0.25 or not arrived):
            c = pending.pop(0)
            lat = rng.choice([0, 0, 1, 5, 10, rng.randint(0, 60)])
            out = pick_outcome(rng)
            via = rng.choice(VIAS) if rng.random() < via_p else ""
            ops.append("arrive %d inner=%d:%s%s%s" % (c, lat, out, " burn=1" if rng.random() < burn_p else "", via))
            arrived.append(c)
            if rng.random() < idle_p:
                ops.append("manual readyidle")   # a handle polled ready and then kept, never called
            if rng.random() < 0.6:
                ops.append("poll %d" % c)
                marks.append(now + lat)
                if wait:
                    marks.append(now + wait)
        elif r < 0.60 and arrived:
            c = rng.choice(arrived)
            ops.append("poll %d" % c)
            if wait:
                marks.append(now + wait)
        elif r < 0.68 and arrived:
            c = rng.choice(arrived)
            if pending and rng.random() < ondrop_p:
                # a request arriving from inside the destructor of the dropped caller's inner call (or from another
                # thread while it is being destroyed): the call is still in flight, its slot still taken
                c2 = pending.pop(0)
                ops.append("manual ondrop c=%d by=%d inner=%d:%s" % (c, c2, rng.choice([0, 1, 5, 20]), pick_outcome(rng)))
                arrived.append(c2)
            ops.append("drop %d" % c)
        elif r < 0.70 and rng.random() < dropsvc_p:
            ops.append("manual dropsvc")      # every handle dropped while calls are in flight or not yet polled
        elif r < 0.90:
            fut = [m for m in marks if m >= now]
            if fut and rng.random() < 0.7:
                d = max(0, rng.choice(fut) - now + rng.choice([-1, 0, 0, 0, 1]))
            else:
                d = rng.choice([0, 1, 2, 5, 10, rng.randint(0, 30)])
            ops.append("adv %d" % d)
            now += d
        else:
            ops.append("settle")
    # C07: quiescence, then a probe burst of `max` gated calls (+1 that must wait / be rejected)
    ops.append("settle")
    if rng.random() < 0.8:
        ops.append("dropall")
        ops.append("adv %d" % rng.choice([0, 1, 100]))
        ids = [100 + i for i in range(mx + (1 if rng.random() < 0.5 else 0))]
        for c in ids:
            ops.append("arrive %d inner=1000:ok%s%s" % (c, " burn=1" if rng.random() < burn_p else "", rng.choice(VIAS) if rng.random() < via_p else ""))
        order = ids[:]
        rng.shuffle(order)
        for c in order:
            ops.append("poll %d" % c)
        if rng.random() < 0.5:
            ops.append("adv %d" % (wait if wait else 7))
            ops.append("settle")
    return {"header": header, "ops": ops}


def _scan(case, lines, meta):
    """walk the implementation log; yields per-position state needed by the monitors"""
    cfg = kvs(case["header"])
    mx = int(cfg.get("max", "1"))
    wait = int(cfg["wait"]) if "wait" in cfg and cfg["wait"] != "max" else None   # "max": Duration::MAX, never due
    # builder setter order: the last of reject_when_full() / max_wait_duration(..) decides
    if cfg.get("post") == "reject" or (cfg.get("pre") == "reject" and "wait" not in cfg):
        wait = 0
    return mx, wait


def mon_c01(case, lines, meta):
    mx, _ = _scan(case, lines, meta)
    inflight = set()
    for i, l in enumerate(lines):
        t, w = tparse(l)
        if not w:
            continue
        if w[0] == "inner_call":
            inflight.add(w[2])
            if len(inflight) > mx:
                return "line %d: %d calls inside the inner service, max_concurrent_calls=%d (%s)" % (i, len(inflight), mx, l)
        elif w[0] in ("inner_done", "inner_drop"):
            inflight.discard(w[2])
    return None


def _timeline(lines, meta):
    """merge meta (#fp/#drop) into the line stream: list of (pos, kind, words, t)"""
    ev = []
    mi = 0
    meta = [m for m in meta if m[0] >= 0]
    for i, l in enumerate(lines + [None]):
        while mi < len(meta) and meta[mi][0] == i:
            ws = meta[mi][1].split()
            ev.append(("meta", ws, int(ws[2]) if len(ws) > 2 and ws[2].isdigit() else None))
            mi += 1
        if l is not None:
            t, w = tparse(l)
            ev.append(("line", w, t))
    return ev


def first_visited_at_or_after(case, instant):
    """virtual time only visits the instants reached by `adv` operations"""
    now = 0
    if now >= instant:
        return now
    for o in case["ops"]:
        w = o.split()
        if w and w[0] == "adv":
            now += int(w[1])
            if now >= instant:
                return now
    return None


def mon_c07(case, lines, meta):
    mx, wait = _scan(case, lines, meta)
    ev = _timeline(lines, meta)
    fp = {}
    inflight = set()       # serials inside inner
    waiting = set()        # callers first-polled, neither admitted nor resolved nor dropped
    called = set()
    wakes = {}
    for i, (kind, w, t) in enumerate(ev):
        if not w:
            continue
        if kind == "meta" and w[0] == "#fp":
            c = w[1]
            fp[c] = t
            # admitted at once if fewer than max in flight and nobody queued
            if len(inflight) < mx and not waiting:
                nxt = ev[i + 1] if i + 1 < len(ev) else None
                if not (nxt and nxt[0] == "line" and nxt[1][:2] == ["inner_call", c]):
                    return "caller %s first polled at t=%s with %d/%d in flight and nobody queued, but not admitted at once" % (c, t, len(inflight), mx)
            waiting.add(c)
        elif kind == "meta" and w[0] == "#wake":
            wakes[w[1]] = [int(x) for x in w[2].split(",")]
        elif kind == "meta" and w[0] == "#drop":
            waiting.discard(w[1])
        elif kind == "meta" and w[0] == "#pollend":
            c = w[1]
            if c in waiting and c in fp and wait is not None and t is not None and t >= fp[c] + wait:
                return "caller %s (arrived t=%s, max_wait=%s) was polled at t=%s, had no slot, and was neither admitted nor rejected: it waits beyond its deadline" % (c, fp[c], wait, t)
        elif kind == "line" and w[0] == "inner_call":
            inflight.add(w[2])
            called.add(w[1])
            waiting.discard(w[1])
        elif kind == "line" and w[0] in ("inner_done", "inner_drop"):
            inflight.discard(w[2])
        elif kind == "line" and w[0] == "result":
            c = w[1]
            waiting.discard(c)
            if w[2] == "err:timeout":
                if wait is None:
                    return "caller %s rejected with timeout although max_wait is unbounded" % c
                if c in called:
                    return "caller %s was rejected after reaching the inner service" % c
                if c in fp and t < fp[c] + wait:
                    return "caller %s rejected at t=%s, before arrival (first poll, t=%s) + max_wait=%s" % (c, t, fp[c], wait)
                due = first_visited_at_or_after(case, fp[c] + wait) if c in fp else None
                if c in fp and due is not None and t > due and due not in wakes.get(c, []):
                    return "caller %s (arrived t=%s, max_wait=%s) was not woken at its deadline (wake-ups since its previous poll: %s); rejected only when polled at t=%s" % (c, fp[c], wait, wakes.get(c, []), t)
            elif w[2] == "err:full":
                return "caller %s rejected with BulkheadFull (semaphore closed?)" % c
    return None


def transitions(case, lines, meta=None):
    tags = []
    for l in lines:
        _, w = tparse(l)
        if not w:
            continue
        if w[0] == "inner_call":
            tags.append("inner_call")
        elif w[0] == "inner_drop":
            tags.append("dropped-running")
        elif w[0] == "result":
            tags.append("result-" + w[2].split(":")[0] + ("-timeout" if w[2] == "err:timeout" else "") + ("-panic" if w[2] == "panic" else ""))
    return tags


def nontrivial(case, lines, tags):
    return any(t in ("result-err-timeout", "dropped-running", "result-panic-panic") for t in tags) or \
        sum(1 for t in tags if t == "inner_call") >= 3


COMMON = {
    "group": "bulkhead",
    "gen": gen,
    "transitions": transitions,
    "nontrivial": nontrivial,
    "all_transitions": ["inner_call", "dropped-running", "result-ok", "result-err", "result-err-timeout", "result-panic-panic"],
    "model_modules": ["TR.Model.Bulkhead", "TR.Lemmas.Bulkhead", "TR.Lemmas.Bulkhead2"],
    "lean_files": ["TR.Model.Bulkhead", "TR.Lemmas.Bulkhead", "TR.Lemmas.Bulkhead2"],
    "sizes": (500, 30000),
    "rule": "seeded random op sequences (arrive/poll/drop/adv/settle) over 1..10 callers, max 1..4, max_wait none/0/1..50ms, "
            "advances biased to deadline-1/deadline/deadline+1, followed by a quiescence + probe burst; distinct = distinct "
            "implementation event log; non-trivial = a wait timeout, a cancelled running call, a panic, or >= 3 admissions",
    "trusted": ["tokio Semaphore/timeout semantics as transcribed in TR.Model.Bulkhead (sampled by the correspondence check)",
                "harness: clock_gettime interposition, manual poller, scripted inner service", "python diff/monitors"],
    "assumptions": ["one poll of one call future is atomic (single-threaded runtime)",
                    "usize modelled as unbounded Nat"],
}

LEVEL_NOTE = ("Trusted: Lean kernel; the transcription of tokio's Semaphore (FIFO hand-off at release, assigned permit returned on drop) "
              "and time::timeout (future polled before the deadline) in TR.Model.Bulkhead, validated only by the sampled correspondence "
              "check; the harness (virtual clock by clock_gettime interposition, manual poller) and the python diff. Wake-ups are observed "
              "by the harness's waker monitor, not modelled.")

SPECS = {
    "C01": dict(COMMON, module="TR.Props.C01", monitors=[("c01-inflight-bound", mon_c01)],
                level_text="Theorems TR.Props.C01.{bound,trace_bound,trace_matches_state,permits_conserved}: for every configuration and every "
                           "operation sequence (all arrival/poll/cancel/advance orders, all inner scripts) at most max calls are inside the inner "
                           "service, in every prefix of the event log; proved by an inductive counting invariant. The model is tied to the real "
                           "BulkheadLayer by line-for-line agreement of event logs on generated schedules.",
                level_note=LEVEL_NOTE),
    "C07": dict(COMMON, module="TR.Props.C07", monitors=[("c07-capacity-and-rejection", mon_c07)],
                level_text="Theorems TR.Props.C07.{quiescent_full,no_waiter_while_free,admit_at_once,reject_only_by_timeout,one_phase,rejected_never_runs,cancelled_while_waiting_never_runs}: after any history all "
                           "permits return once nothing is in flight; a first poll with spare capacity reaches the inner service in that step; "
                           "err:timeout is emitted only for max_wait=0 with no free permit or for a queued, unassigned caller at/after its deadline. "
                           "Exactness of the rejection instant (timer wake-up at the deadline) is observed by the harness's waker monitor, not proved.",
                level_note=LEVEL_NOTE),
}
