"""C03 / C04 / C09 — circuit breaker: generators, implementation-side monitors"""
from gen.util import kvs, tparse

HUGE_WAIT = "max"     # Duration::MAX ("stay open until a manual reset")


def _w(d):
    """the wait used to choose time advances (a huge wait is never elapsed: advance by ordinary amounts)"""
    return d["wait"] if d["wait"] != "max" else 100


FRACS = ["0/1", "1/4", "1/2", "1/2", "3/4", "1/1", "1/10", "3/10", "3/5", "1/8", "5/8"]


def gen_cfg(rng, mode):
    time_based = rng.random() < (0.4 if mode != "seq" else 0.45)
    size = rng.choice([1, 2, 3, 4, 4, 5, 8])
    # now and then "stay open until a manual reset": the largest representable wait
    d = {"size": size, "fr": rng.choice(FRACS), "wait": rng.choice([10, 50, 100]) if rng.random() < 0.94 else HUGE_WAIT,
         "permitted": rng.choice([1, 1, 2, 2, 3, 4])}
    if time_based:
        d["wtype"] = "time"
        d["wdur"] = rng.choice([20, 50, 100, 400])
    r = rng.random()
    if r < 0.5:
        d["min"] = rng.choice([1, max(1, size - 1), size, size + 1, size + 3])
    if rng.random() < 0.4:
        d["slow"] = rng.choice([5, 10, 20])
        d["sr"] = rng.choice(FRACS)
    d["cls"] = rng.choice([0, 0, 0, 1, 2])
    if rng.random() < 0.35:
        d["fallback"] = 1
    return dims(rng, d)


def dims(rng, d):
    """dimensions of the way the breaker is built and operated (harness/src/mw_circuit.rs):
    `listen=0` — no event listener at all is registered (30 %): the log has no `transition` lines, the breaker is observed
    through results, probes and inner calls only;
    `early=k` (with a fallback, 50 %) — bit 0: manual overrides and probes go through a clone of the plain breaker taken BEFORE
    `with_fallback` (an operator's / health check's handle); bit 1: the fallback is attached when the first request arrives,
    overrides issued before that act on the plain breaker"""
    if rng.random() < 0.3:
        d["listen"] = 0
    if d.get("fallback") and rng.random() < 0.5:
        d["early"] = rng.choice([1, 2, 3])
    return d


def early_overrides(rng, case):
    """with `early` bit 1 the fallback is attached at the first arrival: now and then the operator acts before that"""
    k = kvs(case["header"])
    if int(k.get("early", "0")) & 2 and rng.random() < 0.4:
        pre = [rng.choice(["manual force_open", "manual force_open", "manual force_open", "manual reset", "manual force_closed"])]
        if rng.random() < 0.5:
            pre.append("probe views")
        case["ops"] = pre + case["ops"]
    return case


# ----------------------------------------------------------------------------- tick = 1 us
#
# The breaker is timed by std::time::Instant alone, with nanosecond resolution; the model is unit-free (whole ticks). In
# `tick=us` cases one tick is 1 us: wait / wdur / slow are microseconds that need not be whole milliseconds. Scripted latencies
# (`inner=L:`, `fb=L:`) stay in MILLISECONDS — they are tokio timers, which fire at the first millisecond boundary
# >= start + L ms (`TR.Circuit.due`); latency 0 completes in the poll that starts it.

US_OFF = [0, 1, 500, 900, 999, -1, -100]


def ceil_ms(t):
    return -(-t // 1000) * 1000


def scale_us(rng, case):
    """a case generated in milliseconds, replayed on the microsecond grid: configured durations become n*1000 + an offset that
    is (mostly) not a whole millisecond, advances n*1000 + jitter; advances aimed at the wait keep aiming at it (+-1 us)"""
    k = kvs(case["header"])
    if k.get("tick") == "us":
        return case
    new = {}
    for key in ("wait", "wdur", "slow"):
        if key in k and k[key] != "max":
            new[key] = max(1, int(k[key]) * 1000 + rng.choice(US_OFF))
    words = case["header"].split()
    hdr = [w if w.split("=")[0] not in new else "%s=%d" % (w.split("=")[0], new[w.split("=")[0]]) for w in words]
    hdr.append("tick=us")
    aims = {}
    for key in ("wait", "wdur"):
        if key in new:
            aims[int(k[key])] = new[key]
    ops = []
    for o in case["ops"]:
        w = o.split()
        if w[0] == "adv":
            n = int(w[1])
            r = rng.random()
            if n in aims and r < 0.7:
                m = aims[n] + rng.choice([-1, 0, 0, 1])
            elif n + 1 in aims and r < 0.5:
                m = aims[n + 1] - 1
            elif n - 1 in aims and r < 0.5:
                m = aims[n - 1] + 1
            else:
                m = n * 1000 + (0 if r < 0.6 else rng.choice([1, 100, 900, 999, rng.randint(0, 999)]))
            ops.append("adv %d" % max(0, m))
        else:
            ops.append(o)
    return dict(case, header=" ".join(hdr), ops=ops)


def gen_us(rng, tier):
    """sequential histories on the microsecond grid: waits, window durations and slow-call thresholds that are not whole
    milliseconds (below 1 ms, n ms + 900 us, …); calls arriving wait-1 / wait / wait+1 us after the opening and at the whole
    millisecond below the wait; calls lasting threshold-1 / threshold / threshold+1 us and the whole millisecond below the
    threshold; records aged wdur-1 / wdur / wdur+1; first polls that come late"""
    d = gen_cfg(rng, "seq")
    d["tick"] = "us"
    d["size"] = rng.choice([1, 2, 2, 3, 4])
    if "min" in d:
        d["min"] = rng.choice([1, d["size"]])
    W = d["wait"] = rng.choice([900, 999, 1, 1500, 20900, 10001, 2000, 12345, 100999, 3000])
    if d.get("wtype") == "time":
        d["wdur"] = rng.choice([900, 2500, 50001, 100000, 30999, 5000])
    S = None
    if "slow" in d or rng.random() < 0.3:
        S = d["slow"] = rng.choice([900, 1500, 20900, 5001, 3000, 2999, 1])
        d.setdefault("sr", rng.choice(FRACS))
    wd = d.get("wdur")
    ops = []
    c = 0
    now = 0
    pfail = rng.choice([0.1, 0.3, 0.5, 0.7, 0.9])
    late_p = rng.choice([0, 0, 0.3, 0.8])
    durs = [1000, 1001, 1999, 2000, 3500]
    if S:
        durs += [S - 1, S, S, S + 1, S // 1000 * 1000, S // 1000 * 1000 + 1, S + 1000]
    advs = [W - 1, W, W, W + 1, W // 1000 * 1000, W // 1000 * 1000 + 1, 1, 1, 500, 1000]
    if wd:
        advs += [wd - 1, wd, wd + 1, wd // 1000 * 1000]
    for i in range(rng.randint(10, 45)):
        r = rng.random()
        if r < 0.62:
            c += 1
            o = outcome(rng, pfail)
            tag = " tag=%d" % rng.randint(0, 9) if d["cls"] == 2 else ""
            late = []
            if rng.random() < late_p:
                # the future returned by `call()` is not polled right away: the inner call starts at the first poll
                x = max(0, rng.choice([S or 7, (S or 7) + 1, (S or 7) - 1, 1, W, 2 * (S or 7)]))
                late = ["adv %d" % x]
                now += x
            D = max(0, rng.choice(durs)) if rng.random() < 0.5 else 0
            L = D // 1000
            while L > 1 and ceil_ms(now + L * 1000) - now > D:
                L -= 1
            if L == 0:
                ops += ["arrive %d inner=0:%s%s" % (c, o, tag)] + late + ["poll %d" % c]
            else:
                D = max(D, ceil_ms(now + L * 1000) - now)
                ops += ["arrive %d inner=%d:%s%s" % (c, L, o, tag)] + late + ["poll %d" % c, "adv %d" % D, "poll %d" % c]
                now += D
        elif r < 0.84:
            x = max(0, rng.choice(advs))
            ops.append("adv %d" % x)
            now += x
        elif r < 0.90:
            ops.append("manual force_open")
        elif r < 0.93:
            ops.append("manual force_closed")
        elif r < 0.96:
            ops.append("manual reset")
        else:
            pfail = rng.choice([0.0, 0.2, 0.5, 0.8, 1.0])
        ops.append("probe views")
    check_f64(d, c)
    return {"header": header(d), "ops": ops}


def header(d):
    return "circuit " + " ".join("%s=%s" % (k, v) for k, v in d.items())


def fbscript(rng, d, p=0.5):
    """script of this caller's fallback future (only meaningful with a fallback configured): a fallback is a future of
    its own — a replica read, a remote cache — that need not finish on its first poll, may fail, panic or hang"""
    if not d.get("fallback") or rng.random() >= p:
        return ""
    lat = rng.choice([0, 1, 5, 5, 20, 50, 200])
    r = rng.random()
    out = "ok" if r < 0.7 else rng.choice(["err1", "err2"]) if r < 0.85 else "never" if r < 0.95 else "panic"
    return " fb=%d:%s" % (lat, out)


def ondrop(rng, d, x, c2, pfail=0.3):
    """`manual ondrop c=x by=c2 …`: when the unfinished inner call of x is destroyed (x is dropped while in flight),
    caller c2 arrives from inside that destructor and is polled once there: the cancelled call is still inside the
    wrapped service, so whatever it holds (a half-open trial slot) is still held"""
    tag = " tag=%d" % rng.randint(0, 9) if d.get("cls") == 2 else ""
    return "manual ondrop c=%d by=%d inner=%d:%s%s%s" % (x, c2, rng.choice([0, 0, 5, 50, 500]), outcome(rng, pfail), tag, fbscript(rng, d))


def outcome(rng, pfail):
    if rng.random() < pfail:
        return rng.choice(["err1", "err1", "err2"])
    return "ok"


# ----------------------------------------------------------------------------- thresholds: exact rationals vs f64
#
# The model (and the reference machine `Spec` below) compare rates exactly: `k/n >= num/den  <=>  k*den >= num*n`.
# The code computes `k as f64 / n as f64 >= threshold` with `threshold` = the double nearest to num/den (the harness
# builds it as `num as f64 / den as f64`, which is the same double as the decimal literal, e.g. 28/100 == 0.28).
# Both sides of the code's comparison are correctly rounded values of the exact rationals and rounding is monotone, so
# k/n >= num/den implies fl(k/n) >= fl(num/den); conversely two different rationals with n, den <= 2^20 differ by at
# least 1/(n*den) >= 2^-40, far more than one ulp (<= 2^-53 in [0,1]), so k/n < num/den implies fl(k/n) < fl(num/den).
# `f64_agrees` checks exactly this, with python floats (IEEE doubles, correctly rounded division: the same values as
# Rust's), for every (threshold, total, count) a generated case can evaluate; every generator below calls it.

_F64_OK = {}


def f64_agrees(fr, nmax):
    """for every total n <= nmax and count k <= n: (k as f64 / n as f64 >= num as f64 / den as f64) == (k*den >= num*n)"""
    num, den = frac(fr, "1/2")
    done = _F64_OK.get((num, den), 0)
    if nmax > done:
        th = num / den
        for n in range(max(done, 0) + 1, nmax + 1):
            lo = num * n // den
            for k in range(max(0, lo - 2), min(n, lo + 3) + 1):      # away from the boundary both comparisons are monotone in k
                if ((k / n) >= th) != (k * den >= num * n):
                    raise AssertionError("f64 comparison %d/%d >= %d/%d differs from the exact one: the model's thresholds do not "
                                         "represent the code on this configuration" % (k, n, num, den))
            if ((0 / n) >= th) != (0 >= num * n) or ((n / n) >= th) != (n * den >= num * n):
                raise AssertionError("f64 comparison differs from the exact one at 0/%d or %d/%d for %d/%d" % (n, n, n, num, den))
        _F64_OK[(num, den)] = nmax
    return True


def check_f64(d, ncalls):
    """every threshold of configuration d against every total it can be compared at (count-based: the full window;
    time-based: anything up to the number of calls of the case)"""
    nmax = int(d["size"]) if d.get("wtype") != "time" else max(int(d["size"]), ncalls)
    f64_agrees(d["fr"], max(nmax, 1))
    if "slow" in d:
        f64_agrees(d.get("sr", "1/1"), max(nmax, 1))


_BOUNDARIES = None


def boundaries():
    """exact-boundary triples (num, den, n, k) with k/n == num/den, thresholds with two or three decimals, n <= 100:
    `plain`, and `sensitive` = one list per algebraically equivalent f64 formulation of `k/n >= threshold`
    (cross-multiplied, divided the other way, complementary rate, percentages) of the triples where that formulation
    answers differently from the exact comparison — the places where a rewrite of the comparison shows"""
    global _BOUNDARIES
    if _BOUNDARIES is None:
        plain, sensitive = [], [[], [], [], []]
        for den in (100, 1000):
            for num in range(1, den):
                if den == 1000 and num % 10 == 0:
                    continue
                th = num / den
                for n in range(2, 101):
                    if (num * n) % den:
                        continue
                    k = num * n // den
                    fk, fn = float(k), float(n)
                    alts = [fk >= th * fn and fk - th * fn >= 0.0, fk / th >= fn, (fn - fk) / fn <= 1.0 - th,
                            100.0 * fk / fn >= th * 100.0 and fk / fn * 100.0 >= th * 100.0 and fk / fn - th >= 0.0]
                    for ok, cls in zip(alts, sensitive):
                        if not ok:
                            cls.append((num, den, n, k))
                    if all(alts):
                        plain.append((num, den, n, k))
        _BOUNDARIES = (plain, [cls for cls in sensitive if cls])
    return _BOUNDARIES


def gen_boundary(rng, tier):
    """"… the failure rate or the enabled slow-call rate over the sliding window REACHES its threshold": thresholds with
    two or three decimals, windows up to 100 (count-based: window size; time-based: minimum_number_of_calls), sequential
    histories whose window ends with the count exactly at the boundary, one below it and one above it — reached at the
    first evaluation, or by sliding (count-based eviction / time-based expiry) from one below. Half of the exact
    boundaries are float-sensitive ones (see `boundaries`)."""
    plain, sensitive = boundaries()
    r = rng.random()
    if r < 0.5:
        num, den, n, k = rng.choice(rng.choice(sensitive))
    elif r < 0.85:
        num, den, n, k = rng.choice(plain)
    else:
        den = rng.choice([100, 1000])
        num = rng.randint(1, den - 1)
        n = rng.randint(2, 100)
        k = -(-num * n // den)          # smallest count that reaches the threshold
    th = "%d/%d" % (num, den)
    time_based = rng.random() < 0.4
    by_slow = rng.random() < 0.35
    d = {"size": n, "wait": rng.choice([10, 50, 100]), "permitted": rng.choice([1, 2, 3])}
    if time_based:
        d["wtype"] = "time"
        d["wdur"] = rng.choice([2000, 5000, 100000])
        d["min"] = n
        d["size"] = rng.choice([n, 10, 100])          # irrelevant for time-based windows
    elif rng.random() < 0.5:
        d["min"] = rng.choice([1, max(1, n // 2), n])
    S = rng.choice([2, 5])
    other = rng.choice(["1/1", "999/1000", "3/4", "1/2"])
    if by_slow:
        d["fr"], d["slow"], d["sr"] = other, S, th
    else:
        d["fr"] = th
        if rng.random() < 0.4:
            d["slow"], d["sr"] = S, other
    d["cls"] = 0
    if rng.random() < 0.3:
        d["listen"] = 0
    variant = rng.choice(["at", "at", "below", "above", "slide", "slide"])
    m = {"at": k, "below": k - 1, "above": min(n, k + 1), "slide": k - 1}[variant]
    m = max(0, m)
    ops = []
    c = [0]
    now = [0]

    def call(marked, probe=False):
        c[0] += 1
        if marked and by_slow:
            lat = rng.choice([S, S, S + 1])
            ops.extend(["arrive %d inner=%d:ok" % (c[0], lat), "poll %d" % c[0], "adv %d" % lat, "poll %d" % c[0]])
            now[0] += lat
        elif marked:
            ops.extend(["arrive %d inner=0:%s" % (c[0], rng.choice(["err1", "err2"])), "poll %d" % c[0]])
        elif "slow" in d and rng.random() < 0.15:
            ops.extend(["arrive %d inner=%d:ok" % (c[0], S - 1), "poll %d" % c[0], "adv %d" % (S - 1), "poll %d" % c[0]])
            now[0] += S - 1
        else:
            ops.extend(["arrive %d inner=0:ok" % c[0], "poll %d" % c[0]])
        if probe or rng.random() < 0.08:
            ops.append("probe views")

    if time_based and rng.random() < 0.4 and d["wdur"] < 100000:
        # records that will have expired when the window is first evaluated
        for _ in range(rng.randint(1, max(1, min(n - 1, 5)))):
            call(True)
        ops.append("adv %d" % (d["wdur"] + 1))
        now[0] += d["wdur"] + 1
    marks = [True] * m + [False] * (n - m)
    rng.shuffle(marks)
    if variant == "slide" and not time_based and marks and rng.random() < 0.7:
        # the oldest outcome is an unmarked one: the next marked call evicts it and moves the count onto the boundary
        if False in marks:
            i = marks.index(False)
            marks[0], marks[i] = marks[i], marks[0]
    for i, mk in enumerate(marks):
        call(mk, probe=(i >= n - 2))
    if variant == "slide":
        call(True, probe=True)
    for _ in range(rng.randint(1, 4)):
        call(rng.random() < 0.5, probe=True)
    if rng.random() < 0.8:
        ops += ["adv %d" % d["wait"], "arrive %d inner=0:ok" % (c[0] + 1), "poll %d" % (c[0] + 1), "probe views"]
    check_f64(d, c[0] + 1)
    return {"header": header(d), "ops": ops}


def gen_seq(rng, tier):
    """C04: sequential histories — every call completes before the next operation"""
    d = gen_cfg(rng, "seq")
    ops = []
    c = 0
    n = rng.randint(10, 60) if rng.random() < 0.85 else rng.randint(100, 300)
    pfail = rng.choice([0.1, 0.3, 0.5, 0.7, 0.9])
    slow = d.get("slow")
    late_p = rng.choice([0, 0, 0.3, 0.8])
    for i in range(n):
        r = rng.random()
        if r < 0.70:
            c += 1
            o = outcome(rng, pfail)
            tag = " tag=%d" % rng.randint(0, 9) if d["cls"] == 2 else ""
            tag += fbscript(rng, d, 0.25)     # if rejected: a fallback that may stay pending across the later operations
            late = []
            if rng.random() < late_p:
                # the caller holds the future returned by `call()` for a while before it polls it (a batch built first and
                # driven later, a select! arm not reached yet): the inner call starts — and the call's duration begins —
                # at the first poll; the time the future sat un-polled is not call duration
                s0 = slow or 7
                late = ["adv %d" % rng.choice([s0, s0, s0 + 1, s0 - 1, 2 * s0, 1, _w(d)])]
                if rng.random() < 0.2:
                    late.append("probe views")
            if slow and rng.random() < 0.4:
                lat = rng.choice([slow - 1, slow, slow + 1, slow * 2])
                ops += ["arrive %d inner=%d:%s%s" % (c, lat, o, tag)] + late + ["poll %d" % c, "adv %d" % lat, "poll %d" % c]
            else:
                ops += ["arrive %d inner=0:%s%s" % (c, o, tag)] + late + ["poll %d" % c]
        elif r < 0.82:
            w = _w(d)
            ops.append("adv %d" % rng.choice([w - 1, w, w, w + 1, 1, w // 2, d.get("wdur", 7), d.get("wdur", 7) + 1]))
        elif r < 0.86:
            ops.append("manual force_open")
        elif r < 0.90:
            ops.append("manual force_closed")
        elif r < 0.95:
            ops.append("manual reset")
        else:
            pfail = rng.choice([0.0, 0.2, 0.5, 0.8, 1.0])
        ops.append("probe views")
    check_f64(d, c)
    return {"header": header(d), "ops": ops}


def gen_conc(rng, tier, halfopen_bias=False):
    """C03 / C09: concurrent callers on clones, all interleavings of admission, completion, recording"""
    d = gen_cfg(rng, "conc")
    if halfopen_bias:
        d["size"] = rng.choice([1, 2, 3])
        d.pop("min", None)
        d["fr"] = rng.choice(["1/2", "1/1", "1/4"])
    ops = []
    c = 0
    live = []
    now = 0
    marks = []
    w = _w(d)
    n = rng.randint(15, 70)
    pfail = rng.choice([0.3, 0.6, 0.9, 1.0]) if not halfopen_bias else rng.choice([0.0, 0.2, 0.5])
    ondrop_p = rng.choice([0, 0.3, 0.8])
    if halfopen_bias:
        # open it quickly: failures until open (or force), then wait
        if rng.random() < 0.5:
            ops.append("manual force_open")
        else:
            for _ in range(d["size"] + 1):
                c += 1
                ops += ["arrive %d inner=0:err1" % c, "poll %d" % c]
            if rng.random() < 0.5:
                ops.append("manual force_open")
        ops.append("adv %d" % rng.choice([w, w, w + 1, w - 1]))
        now += w
    for i in range(n):
        r = rng.random()
        if r < 0.30:
            c += 1
            lat = rng.choice([0, 0, 1, 5, 10, 20, 50])
            o = outcome(rng, pfail)
            if rng.random() < 0.06:
                o = rng.choice(["panic", "never"])
            tag = " tag=%d" % rng.randint(0, 9) if d["cls"] == 2 else ""
            fb = fbscript(rng, d)
            ops.append("arrive %d inner=%d:%s%s%s" % (c, lat, o, tag, fb))
            live.append(c)
            if rng.random() < (0.8 if halfopen_bias else 0.6):
                ops.append("poll %d" % c)
                marks.append(now + lat)
                if fb:
                    marks.append(now + int(fb.split("=")[1].split(":")[0]))
        elif r < 0.55 and live:
            x = rng.choice(live)
            ops.append("poll %d" % x)
        elif r < 0.62 and live:
            x = rng.choice(live)
            if rng.random() < ondrop_p:
                # somebody arrives while the cancelled call of x is being torn down inside the wrapped service
                c += 1
                ops.append(ondrop(rng, d, x, c, pfail))
                live.append(c)
            ops.append("drop %d" % x)
            live.remove(x)
        elif r < 0.80:
            fut = [m for m in marks if m >= now]
            q = rng.random()
            if fut and q < 0.5:
                dt = max(0, rng.choice(fut) - now + rng.choice([-1, 0, 0, 1]))
            elif q < 0.8:
                dt = rng.choice([w - 1, w, w + 1, w // 2])
            else:
                dt = rng.choice([0, 1, 3, 10])
            ops.append("adv %d" % dt)
            now += dt
        elif r < 0.88:
            ops.append("settle")
        elif r < 0.91:
            ops.append("manual " + rng.choice(["force_open", "force_open", "force_closed", "reset"]))
        else:
            ops.append("probe views")
    ops.append("settle")
    ops.append("probe views")
    return {"header": header(d), "ops": ops}


def gen_pending_fallback(rng, tier, halfopen=False):
    """"each is answered at once with the open-circuit error, or by the configured fallback": the breaker is open (or
    half-open with its trial slots taken) and rejects callers whose fallback futures stay pending; meanwhile other callers
    (clones) arrive, calls admitted before the breaker opened complete and are recorded, state()/metrics() are probed and
    force_open / force_closed / reset are issued — none of that may wait for somebody's fallback"""
    d = gen_cfg(rng, "conc")
    d["fallback"] = 1
    if "early" not in d and rng.random() < 0.5:
        d["early"] = rng.choice([1, 2, 3])
    if d["wait"] != "max" and rng.random() < 0.6:
        d["wait"] = rng.choice([100, 1000])
    w = _w(d)
    ops = []
    c = 0
    live = []
    marks = []
    now = 0
    # calls admitted while still closed, in flight when the breaker opens
    for _ in range(rng.choice([0, 0, 1, 2])):
        c += 1
        lat = rng.choice([1, 5, 20])
        ops += ["arrive %d inner=%d:%s" % (c, lat, rng.choice(["ok", "err1"])), "poll %d" % c]
        live.append(c)
        marks.append(lat)
    ops.append("manual force_open")
    if halfopen:
        p = d["permitted"]
        ops.append("adv %d" % w)
        now += w
        for _ in range(p):
            c += 1
            ops += ["arrive %d inner=%s" % (c, rng.choice(["500:ok", "0:never", "30:ok", "30:err1"])), "poll %d" % c]
            live.append(c)
            marks.append(now + 30)
    for i in range(rng.randint(6, 30)):
        r = rng.random()
        if r < 0.40:
            c += 1
            fb = fbscript(rng, d, 0.8)
            ops.append("arrive %d inner=%d:ok%s" % (c, rng.choice([0, 5]), fb))
            live.append(c)
            if rng.random() < 0.85:
                ops.append("poll %d" % c)
                if fb:
                    marks.append(now + int(fb.split("=")[1].split(":")[0]))
        elif r < 0.52 and live:
            ops.append("poll %d" % rng.choice(live))
        elif r < 0.58 and live:
            x = rng.choice(live)
            ops.append("drop %d" % x)
            live.remove(x)
        elif r < 0.72:
            ops.append("probe views")
        elif r < 0.80:
            ops.append("manual " + rng.choice(["force_open", "force_closed", "reset", "force_open"]))
        elif r < 0.93:
            fut = [m for m in marks if m >= now]
            dt = max(0, rng.choice(fut) - now + rng.choice([-1, 0, 0, 1])) if fut and rng.random() < 0.7 else rng.choice([0, 1, 5, w - 1, w])
            ops.append("adv %d" % dt)
            now += dt
        else:
            ops.append("settle")
    ops += ["settle", "probe views"]
    return {"header": header(d), "ops": ops}


def gen_c03(rng, tier):
    r = rng.random()
    if r < 0.15:
        case = gen_pending_fallback(rng, tier, halfopen=rng.random() < 0.25)
    elif r < 0.27:
        return early_overrides(rng, gen_us(rng, tier))
    else:
        case = gen_conc(rng, tier) if r < 0.85 else gen_seq(rng, tier)
    if rng.random() < 0.1:
        case = scale_us(rng, case)
    return early_overrides(rng, case)


def gen_c04(rng, tier):
    r = rng.random()
    if r < 0.22:
        return gen_boundary(rng, tier)
    if r < 0.34:
        return early_overrides(rng, gen_us(rng, tier))
    return early_overrides(rng, gen_seq(rng, tier))


def gen_stale_trial(rng, tier):
    """a trial admitted in one half-open episode is still in flight when the breaker re-opens and half-opens again;
    the later episode is filled; only then is the old trial cancelled (or completes) — it must not free a slot"""
    d = gen_cfg(rng, "conc")
    d["size"] = rng.choice([1, 2, 3])
    d.pop("min", None)
    d.pop("slow", None)
    d.pop("sr", None)
    d["fr"] = rng.choice(["1/2", "1/1"])
    p = d["permitted"] = rng.choice([1, 2, 2, 3])
    if d["wait"] == "max":
        d["wait"] = 50
    w = d["wait"]
    ops = ["manual force_open", "adv %d" % w]
    c = 1
    old = []
    for _ in range(rng.randint(1, max(1, p - 1)) if p > 1 else 1):
        ops += ["arrive %d inner=%s" % (c, rng.choice(["0:never", "5000:ok", "5000:err1"])), "poll %d" % c]
        old.append(c)
        c += 1
    if p > 1 and rng.random() < 0.7:
        ops += ["arrive %d inner=0:err1" % c, "poll %d" % c]       # a failing trial re-opens the breaker
        c += 1
    else:
        ops.append("manual force_open")
    if rng.random() < 0.3:
        ops.append("probe views")
    ops.append("adv %d" % rng.choice([w, w, w + 1]))
    fill = []
    for _ in range(p):
        ops += ["arrive %d inner=%s" % (c, rng.choice(["500:ok", "500:ok", "0:never"])), "poll %d" % c]
        fill.append(c)
        c += 1
    for x in old:
        r = rng.random()
        if r < 0.6:
            ops.append("drop %d" % x)
        elif r < 0.8:
            ops += ["adv 1", "poll %d" % x]
    for _ in range(rng.randint(1, 3)):
        ops += ["arrive %d inner=%s" % (c, rng.choice(["500:ok", "0:ok"])), "poll %d" % c]
        c += 1
    if rng.random() < 0.5:
        ops += ["drop %d" % rng.choice(fill), "arrive %d inner=0:ok" % c, "poll %d" % c]
        c += 1
    ops += ["adv 500", "settle", "probe views"]
    return {"header": header(d), "ops": ops}


def gen_episodes(rng, tier):
    """several half-open episodes in one history. In each earlier episode some trials are admitted and stay in flight
    ("leftovers"); the episode is ended in the middle by an operator (`reset`, `force_closed`, `force_open`) or by a
    failing trial; the breaker is tripped again (failures or force_open) and half-opens again. In the last episode all
    `permitted` slots are taken by trials that stay in flight; only then are the leftovers of the earlier episodes
    dropped (some with a caller arriving during their tear-down) or completed, each followed by a late caller: a
    leftover holds no slot of the current episode, so nothing it does may admit anybody. Finally a trial of the current
    episode is dropped (again possibly with an arrival during its tear-down: still rejected) and the next caller gets
    its slot."""
    d = gen_cfg(rng, "conc")
    size = d["size"] = rng.choice([1, 2, 3])
    d.pop("min", None)
    d.pop("slow", None)
    d.pop("sr", None)
    d["fr"] = rng.choice(["1/2", "1/1"])
    p = d["permitted"] = rng.choice([1, 1, 2, 2, 3])
    if d["wait"] == "max":
        d["wait"] = 50
    w = d["wait"]
    ops = []
    c = [0]
    state = ["closed"]

    def arrive(inner, poll=True):
        c[0] += 1
        tag = " tag=%d" % (2 * rng.randint(0, 4)) if d["cls"] == 2 else ""      # even tags: `ok` is a success for every classifier
        ops.append("arrive %d inner=%s%s%s" % (c[0], inner, tag, fbscript(rng, d, 0.3)))
        if poll:
            ops.append("poll %d" % c[0])
        return c[0]

    def trip():
        if state[0] == "closed":
            if rng.random() < 0.6:
                for _ in range(size):
                    arrive("0:err1")        # a failure for every classifier; `size` of them fill the window at rate 1
            else:
                ops.append("manual force_open")
        state[0] = "open"
        ops.append("adv %d" % rng.choice([w, w, w + 1]))

    leftovers = []
    for _ in range(rng.choice([1, 1, 1, 2, 2, 3])):
        trip()
        j = rng.randint(1, p)
        for _ in range(j):
            leftovers.append(arrive(rng.choice(["0:never", "5000:ok", "5000:err1", "700:ok"])))
        if rng.random() < 0.3:
            ops.append("probe views")
        ends = ["reset", "reset", "force_closed", "force_open"] + (["fail", "fail"] if j < p else [])
        end = rng.choice(ends)
        if end == "fail":
            arrive("0:err1")                # a failing trial re-opens the breaker
            state[0] = "open"
        else:
            ops.append("manual " + end)
            state[0] = "open" if end == "force_open" else "closed"
        if state[0] == "closed" and rng.random() < 0.3:
            arrive(rng.choice(["0:ok", "300:ok"]))      # ordinary traffic while closed
    trip()
    fill = [arrive(rng.choice(["500:ok", "500:ok", "0:never"])) for _ in range(p)]
    rng.shuffle(leftovers)
    for x in leftovers:
        r = rng.random()
        if r < 0.65:
            if rng.random() < 0.5:
                c[0] += 1
                ops.append(ondrop(rng, d, x, c[0], 0.2))
            ops.append("drop %d" % x)
        elif r < 0.8:
            ops += ["adv 1", "poll %d" % x]
        else:
            continue
        for _ in range(rng.randint(1, 2)):
            arrive(rng.choice(["500:ok", "0:ok"]))      # late caller: every slot is taken by a live trial
    if rng.random() < 0.7:
        x = rng.choice(fill)
        if rng.random() < 0.6:
            c[0] += 1
            ops.append(ondrop(rng, d, x, c[0], 0.2))    # arrives during the tear-down of a trial of THIS episode: slot still held
        ops.append("drop %d" % x)
        arrive(rng.choice(["500:ok", "0:ok"]))          # after the tear-down: gets the slot
        arrive("0:ok")
    ops += ["adv %d" % rng.choice([500, 700, 5000]), "settle", "probe views"]
    return {"header": header(d), "ops": ops}


def gen_c09(rng, tier):
    r = rng.random()
    if r < 0.1:
        case = gen_stale_trial(rng, tier)
    elif r < 0.3:
        case = gen_episodes(rng, tier)
    elif r < 0.36:
        case = gen_pending_fallback(rng, tier, halfopen=True)
    else:
        case = gen_conc(rng, tier, halfopen_bias=True) if r < 0.88 else gen_conc(rng, tier)
    if rng.random() < 0.1:
        case = scale_us(rng, case)
    return early_overrides(rng, case)


# ----------------------------------------------------------------------------- monitors

def _wait_of(cfg):
    w = cfg.get("wait", "1000")
    return 10 ** 30 if w == "max" else int(w)


def frac(s, d):
    a, b = (s or d).split("/")
    return int(a), int(b)


def mon_c03(case, lines, meta):
    """no inner call starts between an observed transition to open at t0 and min(t0+wait, next transition)"""
    cfg = kvs(case["header"])
    wait = _wait_of(cfg)
    open_since = None
    for i, l in enumerate(lines):
        t, w = tparse(l)
        if not w:
            continue
        if w[0] == "transition":
            open_since = t if w[2] == "open" else None
        elif w[0] == "inner_call" and open_since is not None:
            return "line %d: inner call %s started at t=%d while the breaker has been open since t=%d (wait_duration_in_open=%d, no transition in between)" % (
                i, w[1], t, open_since, wait)
        elif w[0] == "probe" and open_since is not None:
            if "sync=open" not in l or "state=open" not in l:
                return "line %d: views disagree with the observed open state: %s" % (i, l)
    # a transition out of open that is not manual must not happen before t0+wait
    prev = None
    t_open = None
    for i, l in enumerate(lines):
        t, w = tparse(l)
        if not w:
            continue
        if w[0] == "transition":
            if w[1] == "open" and t_open is not None and t < t_open + wait:
                if not (prev and prev[0] == "manual"):
                    return "line %d: left the open state at t=%d, opened at t=%d, wait=%d, without a manual override" % (i, t, t_open, wait)
            t_open = t if w[2] == "open" else None
        prev = w
    return _c03_unheard(lines, wait)


def _c03_unheard(lines, wait):
    """the same clause without listening to the breaker's events: a breaker known to be closed (a new one, or after
    force_closed() / reset(), as long as no outcome has been recorded since) that is forced open at t0 is open from exactly t0:
    until t0 + wait no call may reach the wrapped service unless an override closes it first. Outcomes recorded by an open breaker
    (calls admitted before it opened) change nothing."""
    known = "closed"
    t0 = 0
    for i, l in enumerate(lines):
        t, w = tparse(l)
        if not w:
            continue
        if w[0] == "manual":
            if w[1] == "force_open":
                if known == "closed":
                    known, t0 = "open", t
                elif known != "open":
                    known = None
            elif w[1] in ("force_closed", "reset"):
                known = "closed"
            else:
                known = None
        elif w[0] == "inner_done" and known == "closed" and w[3] != "panic":
            known = None
        elif w[0] == "inner_call" and known == "open":
            if t - t0 < wait:
                return ("line %d: inner call %s started at t=%d, but the breaker was forced open at t=%d (it was closed until then) and "
                        "wait_duration_in_open=%d has not elapsed; no override in between" % (i, w[1], t, t0, wait))
            known = None
        elif w[0] == "probe" and known == "open" and t - t0 < wait:
            if "sync=open" not in l or "state=open" not in l:
                return "line %d: forced open at t=%d (wait %d), views at t=%d disagree: %s" % (i, t0, wait, t, l)
    return None


def mon_at_once(case, lines, meta):
    """"answered at once": (a) a caller's first poll either reaches the inner service, or answers it (open-circuit error),
    or invokes its fallback — in that very poll, whatever other callers' fallbacks are doing; (b) state()/metrics()/
    force_open()/force_closed()/reset() complete at once (the harness is single threaded: if one of them has to wait,
    the breaker's mutex is being held across somebody's await)"""
    for i, l in enumerate(lines):
        t, w = tparse(l)
        if not w:
            continue
        if w[0] == "probe" and len(w) > 1 and w[1] == "blocked":
            return "line %d: state()/metrics() did not complete at t=%d: the breaker's lock is held across an await (by a pending fallback?)" % (i, t)
        if w[0] == "manual_blocked":
            return "line %d: %s() did not complete at t=%d: the breaker's lock is held across an await (by a pending fallback?)" % (i, w[1], t)
    for j, (pos, m) in enumerate(meta):
        w = m.split()
        if w[0] != "#fp" or pos < 0:
            continue
        c = w[1]
        end = len(lines)
        if j + 1 < len(meta) and meta[j + 1][0] >= 0:
            end = meta[j + 1][0]
        got = None
        for l in lines[pos:end]:
            _, x = tparse(l)
            if x and x[0] != "transition":
                got = x
                break
        if got is None or len(got) < 2 or got[1] != c or got[0] not in ("inner_call", "fallback_call", "result"):
            return ("caller %s, first polled at t=%s, was neither admitted nor rejected nor handed to its fallback in that poll "
                    "(next event: %s): it is waiting for something inside the breaker" % (c, w[2], " ".join(got) if got else "none"))
    return None


class Spec:
    """the documented state machine (reference implementation, independent of the Lean model)"""

    def __init__(self, cfg):
        self.count = cfg.get("wtype", "count") != "time"
        self.size = int(cfg.get("size", "10"))
        self.wdur = int(cfg.get("wdur", "1000"))
        self.min = int(cfg.get("min", self.size))
        self.fr = frac(cfg.get("fr"), "1/2")
        self.slow = int(cfg["slow"]) if "slow" in cfg else None
        self.sr = frac(cfg.get("sr"), "1/1")
        self.wait = _wait_of(cfg)
        self.permitted = int(cfg.get("permitted", "1"))
        self.cls = int(cfg.get("cls", "0"))
        self.state = "closed"
        self.since = 0
        self.window = []      # (t, fail, slow)
        self.succ = 0
        self.why = ""         # why it last opened by itself
        self.notes = []       # coverage: evaluations at / one below the exact boundary

    def goto(self, s, t):
        if s != self.state:
            self.state = s
            self.since = t
            self.window = []
            self.succ = 0
            return True
        return False

    def view(self, t, prune):
        if self.count:
            return self.window[-max(self.size, 1):]
        return [r for r in self.window if t - r[0] <= self.wdur] if prune else self.window

    def record(self, t, fail, dur):
        slow = self.slow is not None and dur >= self.slow
        if self.count:
            self.window = (self.window + [(t, fail, slow)])[-max(self.size, 1):]
        else:
            self.window = [r for r in self.window if t - r[0] <= self.wdur] + [(t, fail, slow)]
        if self.state == "halfopen":
            if fail:
                self.goto("open", t)
            else:
                self.succ += 1
                if self.succ >= self.permitted:
                    self.goto("closed", t)
            return
        win = self.view(t, True)
        if not self.count:
            self.window = win
        n = len(win)
        if n < self.min or (self.count and n < self.size) or n == 0:
            return
        f = sum(1 for r in win if r[1])
        s = sum(1 for r in win if r[2])
        byf = f * self.fr[1] >= self.fr[0] * n
        bys = self.slow is not None and s * self.sr[1] >= self.sr[0] * n
        if byf or bys:
            eqf = byf and f * self.fr[1] == self.fr[0] * n
            eqs = bys and s * self.sr[1] == self.sr[0] * n
            if (eqf and not (bys and not eqs)) or (eqs and not (byf and not eqf)):
                self.notes.append("trip-rate-equals-threshold" if n >= 10 else "trip-rate-equals-threshold-small")
            self.why = ("the documented machine opened at t=%d: %s in a window of %d calls" % (
                t, " and ".join((["failure rate %d/%d %s threshold %d/%d" % (f, n, "EQUALS" if eqf else "above", self.fr[0], self.fr[1])] if byf else []) +
                                (["slow-call rate %d/%d %s threshold %d/%d" % (s, n, "EQUALS" if eqs else "above", self.sr[0], self.sr[1])] if bys else [])), n))
            self.goto("open", t)
        elif n >= 10 and ((f + 1) * self.fr[1] >= self.fr[0] * n or (self.slow is not None and (s + 1) * self.sr[1] >= self.sr[0] * n)):
            self.notes.append("closed-one-below-threshold")

    def admit(self, t):
        if self.state == "open":
            if t - self.since >= self.wait:
                self.goto("halfopen", t)
                return True
            return False
        return True    # half-open admission is C09's business


def classify(cls, out, tag):
    if cls == 0:
        return out.startswith("err")
    if cls == 1:
        return out == "err1"
    return out.startswith("err") or (out == "ok" and tag % 2 == 1)


def mon_c04(case, lines, meta):
    """sequential histories: the observable state follows the documented machine, all views agree"""
    return _run_c04(case, lines, Spec(kvs(case["header"])))


def _run_c04(case, lines, sp):
    tags = {}
    for o in case["ops"]:
        w = o.split()
        if w[0] == "arrive":
            k = kvs(o)
            tags[w[1]] = int(k.get("tag", w[1]))
    start = {}
    for i, l in enumerate(lines):
        t, w = tparse(l)
        if not w:
            continue
        if w[0] == "inner_call":
            if len(start) > 0:
                sp.notes = []
                return None   # not a sequential history: outside this monitor's quantifier
            start[w[1]] = t
            if not sp.admit(t) or (sp.state == "open"):
                sp.notes = []
                return "line %d: call %s reached the inner service although the documented machine is open (since t=%d)%s" % (
                    i, w[1], sp.since, "; " + sp.why if sp.why else "")
        elif w[0] == "inner_done":
            if w[3] in ("panic",):
                start.pop(w[1], None)
                continue
            fail = classify(sp.cls, w[3], tags.get(w[1], 0))
            sp.record(t, fail, t - start.pop(w[1], t))
        elif w[0] == "inner_drop":
            start.pop(w[1], None)
        elif (w[0] == "result" and w[2] == "err:open") or w[0] == "fallback_call":
            # a rejection (decided when the fallback is invoked — its value may arrive much later): the documented
            # machine must be open (or half-open with its trials used up)
            if sp.state == "closed":
                return "line %d: call %s rejected while the documented machine is closed" % (i, w[1])
            if sp.state == "open" and t - sp.since >= sp.wait:
                return "line %d: call %s rejected although wait_duration_in_open has elapsed (open since %d, now %d)" % (i, w[1], sp.since, t)
        elif w[0] == "manual":
            sp.why = ""
            if w[1] == "force_open":
                sp.goto("open", t)
            elif w[1] == "force_closed":
                sp.goto("closed", t)
            elif w[1] == "reset":
                sp.goto("closed", t)
                sp.window = []
        elif w[0] == "probe":
            kv = kvs(l)
            exp = sp.state
            got = (kv.get("state"), kv.get("sync"), kv.get("mstate"))
            if got != (exp, exp, exp) or kv.get("is_open") != ("1" if exp == "open" else "0"):
                return "line %d: documented machine is %s, views report state=%s sync=%s metrics=%s is_open=%s%s" % (
                    i, exp, got[0], got[1], got[2], kv.get("is_open"), "; " + sp.why if exp == "open" and sp.why else "")
            win = sp.view(t, False)
            n, f, s = len(win), sum(1 for r in win if r[1]), sum(1 for r in win if r[2])
            if sp.state == "closed" and (int(kv["total"]), int(kv["fail"]), int(kv["slow"])) != (n, f, s):
                if sp.count or all(t - r[0] <= sp.wdur for r in sp.window):
                    return "line %d: window of the documented machine has total=%d fail=%d slow=%d, metrics report %s/%s/%s" % (
                        i, n, f, s, kv["total"], kv["fail"], kv["slow"])
    return None


def mon_c09(case, lines, meta):
    """per half-open episode: trial calls that reached the inner service and were not cancelled <= permitted. A cancelled
    trial counts until its inner call has been destroyed (`inner_drop` is logged at the end of that destructor), so a
    caller admitted during the tear-down (`#ondrop`) is in the wrapped service together with the cancelled one."""
    cfg = kvs(case["header"])
    permitted = int(cfg.get("permitted", "1"))
    teardown = {}       # caller that arrived from inside the destructor of a cancelled call -> that call's caller
    for _, m in meta or ():
        mw = m.split()
        if mw[0] == "#ondrop":
            teardown[mw[2]] = mw[1]
    in_half = False
    trials = set()      # serials of trial calls of this episode, not cancelled
    older = set()       # serials of calls started before this episode, still in flight
    flying = set()
    hint = ""
    for i, l in enumerate(lines):
        t, w = tparse(l)
        if not w:
            continue
        if w[0] == "transition":
            in_half = (w[2] == "halfopen")
            trials = set()
            older = set(flying)
            hint = ""
        elif w[0] == "inner_call":
            flying.add(w[2])
            if in_half:
                trials.add(w[2])
                if len(trials) > max(permitted, 1):
                    if w[1] in teardown:
                        hint = "; caller %s arrived during the tear-down of the cancelled call of caller %s, which had not yet left the wrapped service" % (w[1], teardown[w[1]])
                    return "line %d: %d trial calls reached the inner service in one half-open episode (permitted_calls_in_half_open=%d)%s" % (
                        i, len(trials), permitted, hint)
        elif w[0] == "inner_drop" or w[0] == "inner_done":
            flying.discard(w[2])
            if w[0] == "inner_drop" or w[3] == "panic":
                trials.discard(w[2])
            if w[0] == "inner_drop" and in_half and w[2] in older:
                hint = "; the last call cancelled before that (caller %s, serial %s at t=%d) had been admitted before this episode began and held none of its slots" % (w[1], w[2], t)
            older.discard(w[2])
    return _c09_unheard(lines, permitted)


def _c09_unheard(lines, permitted):
    """the same clause without listening to the breaker's events (a breaker built without any listener logs no transition):
    after `force_open()` — or a `state()` probe answering open — the breaker stays open until a call is admitted (whatever
    completes meanwhile is recorded by an open breaker and changes nothing); the first call admitted after that begins a
    half-open episode, and as long as no call has completed and no override was issued the episode cannot have been
    decided: the calls admitted since, minus those cancelled, are trials of that one episode"""
    phase = None            # None: unknown; "open"; "half"
    trials = set()
    t0 = 0
    for i, l in enumerate(lines):
        t, w = tparse(l)
        if not w:
            continue
        if w[0] == "manual":
            phase, trials = ("open" if w[1] == "force_open" else None), set()
            t0 = t
        elif w[0] == "probe" and phase is None and "state=open" in l:
            phase, trials, t0 = "open", set(), t
        elif w[0] == "inner_call" and phase is not None:
            phase = "half"
            trials.add(w[2])
            if len(trials) > max(permitted, 1):
                return ("line %d: %d calls admitted since the breaker was seen open at t=%d are inside the wrapped service together, none of them "
                        "cancelled, no call completed and no override issued since the first of them was admitted: %d trial calls in one "
                        "half-open episode (permitted_calls_in_half_open=%d)" % (i, len(trials), t0, len(trials), permitted))
        elif w[0] == "inner_drop":
            trials.discard(w[2])
        elif w[0] == "inner_done":
            if w[3] == "panic":
                trials.discard(w[2])
            elif phase == "half":
                phase, trials = None, set()
    return None


def transitions(case, lines, meta=()):
    tags = []
    pending = set()       # callers whose fallback has been invoked and has not finished
    called_now = set()    # … invoked by the previous line (a result right after it = finished at once)
    # arrivals during the tear-down of a cancelled call (`manual ondrop`): what happened to the arriving caller
    for pos, m in meta or ():
        mw = m.split()
        if mw[0] != "#ondrop" or pos < 0:
            continue
        for l in lines[pos:]:
            _, x = tparse(l)
            if x and len(x) > 1 and x[1] == mw[2] and x[0] in ("inner_call", "fallback_call", "result"):
                tags.append("teardown-arrival-" + ("admitted" if x[0] == "inner_call" else "rejected"))
                break
    # half-open episodes: leftovers of earlier episodes, operator overrides in the middle of an episode
    ntr = 0
    state = "closed"
    born = {}             # serial of a call in flight -> (number of transitions seen when it started, trial?)
    for l in lines:
        _, w = tparse(l)
        if not w:
            continue
        if w[0] == "transition":
            ntr += 1
            state = w[2]
        elif w[0] == "inner_call":
            born[w[2]] = (ntr, state == "halfopen")
        elif w[0] in ("inner_drop", "inner_done") and w[2] in born:
            b, trial = born.pop(w[2])
            if trial and state == "halfopen":
                full = sum(1 for bb, tt in born.values() if tt and bb == ntr) >= int(kvs(case["header"]).get("permitted", "1"))
                if b != ntr:
                    tags.append("leftover-%s%s" % ("dropped" if w[0] == "inner_drop" else "completed", "-while-full" if full else ""))
                elif w[0] == "inner_drop":
                    tags.append("trial-dropped")
        elif w[0] == "manual" and state == "halfopen" and any(tt and bb == ntr for bb, tt in born.values()):
            tags.append("manual-%s-midepisode" % w[1])
    sp = Spec(kvs(case["header"]))
    if _run_c04(case, lines, sp) is None:
        tags += sorted(set(sp.notes))        # sequential histories: evaluations exactly at / one below a threshold
    for l in lines:
        _, w = tparse(l)
        if not w:
            continue
        if w[0] == "transition":
            tags.append("tr-%s-%s" % (w[1], w[2]))
        elif w[0] == "result":
            tags.append("result-" + ("open" if w[2] == "err:open" else "fallback" if "fallback" in w[2] else w[2].split(":")[0]))
        elif w[0] == "inner_drop":
            tags.append("inner_drop")
        elif w[0] == "manual":
            tags.append("manual-" + w[1])
            if pending:
                tags.append("manual-during-pending-fallback")
        elif w[0] == "probe" and pending:
            tags.append("probe-during-pending-fallback")
        elif w[0] == "inner_done" and pending:
            tags.append("record-during-pending-fallback")
        elif w[0] == "inner_call" and pending:
            tags.append("admit-during-pending-fallback")
        if w[0] == "fallback_call":
            if pending:
                tags.append("reject-during-pending-fallback")
            pending.add(w[1])
        elif w[0] == "result":
            if w[1] in pending and w[1] not in called_now:
                tags.append("fallback-late-" + ("ok" if "fallback" in w[2] else "panic" if w[2] == "panic" else "err"))
            elif w[2] == "err:open" and pending:
                tags.append("reject-during-pending-fallback")
            pending.discard(w[1])
        elif w[0] == "fallback_drop":
            tags.append("fallback_drop")
            pending.discard(w[1])
        called_now = {w[1]} if w[0] == "fallback_call" else set()
    return tags


def nontrivial(case, lines, tags):
    return sum(1 for t in tags if t.startswith("tr-")) >= 2


ALL_TR = ["tr-closed-open", "tr-open-halfopen", "tr-halfopen-closed", "tr-halfopen-open", "tr-open-closed", "tr-halfopen-closed",
          "result-open", "result-fallback", "result-ok", "result-err", "inner_drop", "manual-reset", "manual-force_open", "manual-force_closed",
          "fallback-late-ok", "fallback-late-err", "fallback-late-panic", "fallback_drop", "reject-during-pending-fallback",
          "admit-during-pending-fallback", "record-during-pending-fallback", "probe-during-pending-fallback", "manual-during-pending-fallback"]

TR_BOUNDARY = ["trip-rate-equals-threshold", "closed-one-below-threshold"]
TR_TEARDOWN = ["teardown-arrival-rejected", "teardown-arrival-admitted"]
TR_EPISODES = ["leftover-dropped-while-full", "leftover-completed-while-full", "trial-dropped",
               "manual-reset-midepisode", "manual-force_open-midepisode", "manual-force_closed-midepisode"]

LEVEL_NOTE = ("Trusted: Lean kernel; the transcription of circuit.rs / lib.rs in TR.Model.Circuit (validated only by the sampled "
              "correspondence check); thresholds are exact rationals num/den (equal to the code's f64 comparison k/n >= fl(num/den): both sides are correctly "
              "rounded values of rationals that differ by >= 1/(n*den); checked by gen.circuit.f64_agrees on every generated threshold and total); "
              "tokio::sync::Mutex is uncontended in the single-threaded harness (each critical section is one model function); the harness "
              "(virtual clock, manual poller) and python diff/monitors.")

COMMON = {
    "group": "circuit",
    "transitions": transitions,
    "nontrivial": nontrivial,
    "all_transitions": ALL_TR,
    "model_modules": ["TR.Model.Circuit", "TR.Lemmas.Circuit", "TR.Lemmas.CircuitState", "TR.Lemmas.CircuitWindow", "TR.Lemmas.CircuitRefine", "TR.Spec.Breaker"],
    "lean_files": ["TR.Model.Circuit", "TR.Lemmas.Circuit", "TR.Lemmas.CircuitState", "TR.Lemmas.CircuitWindow", "TR.Lemmas.CircuitRefine", "TR.Spec.Breaker"],
    "sizes": (400, 20000),
    "trusted": ["transcription of Circuit / CircuitBreaker::call in TR.Model.Circuit (sampled by the correspondence check)",
                "exact-rational threshold comparison = the code's f64 comparison (argument in gen/circuit.py; checked by f64_agrees on every generated threshold/total)",
                "harness: clock_gettime interposition, manual poller; python diff/monitors"],
    "assumptions": ["each critical section under the breaker's mutex is atomic", "usize as unbounded Nat"],
    "level_note": LEVEL_NOTE,
}

SPECS = {
    "C03": dict(COMMON, module="TR.Props.C03", gen=gen_c03, all_transitions=ALL_TR + TR_TEARDOWN, monitors=[("c03-open-shields", mon_c03), ("c03-answered-at-once", mon_at_once)],
                rule="concurrent callers on clones (arrive/poll/drop/adv/settle/manual/probe), opening by failure rate, slow-call rate and "
                     "force_open, advances biased to wait-1/wait/wait+1; fallbacks that are futures of their own (fb=<lat>:<ok|errK|panic|never>) left pending "
                     "while other callers arrive, earlier calls are recorded, views are probed and manual overrides issued; callers arriving from inside the "
                     "destructor of a cancelled call (manual ondrop); distinct = distinct implementation log; non-trivial = >= 2 state transitions",
                level_text="Theorems TR.Props.C03.*: in every reachable state and for every step, an inner call is started only if the breaker "
                           "was not open before the admission or wait_duration_in_open had elapsed (and it first moved to half-open); a rejected "
                           "caller gets err:open / the fallback is invoked in the same step (whatever other callers' fallbacks are doing) and never an inner call; "
                           "a pending fallback touches nothing of the breaker and no other step depends on it; the lock-free mirror always equals the state."),
    "C04": dict(COMMON, module="TR.Props.C04", gen=gen_c04, all_transitions=ALL_TR + TR_BOUNDARY, monitors=[("c04-documented-machine", mon_c04)],
                rule="sequential histories (length 10..300) over success/failure/slow success/slow failure/wait/force_open/force_closed/reset with "
                     "probe views after every step; both window types; thresholds incl. 0 and 1; min calls below/equal/above the window; three classifiers; "
                     "25%: exact-boundary configurations (thresholds with 2-3 decimals, windows up to 100, count- and time-based, failure and slow-call rate) whose "
                     "window ends exactly at / one below / one above the threshold, directly or by sliding; half of them float-sensitive boundaries (gen.circuit.boundaries)",
                level_text="Theorems TR.Props.C04.*: the model's window is exactly the last sliding_window_size outcomes (count) / the outcomes no older "
                           "than the window duration (time); the incrementally maintained counters equal the counts over that window; closed->open exactly when the "
                           "documented condition holds; open->half-open at the first call after the wait; half-open->closed after permitted successes, ->open on a failure; "
                           "a rate exactly equal to the threshold trips, one below stays closed (exact rational comparison); "
                           "reset empties the window; all views are the same function of the state."),
    "C09": dict(COMMON, module="TR.Props.C09", gen=gen_c09, all_transitions=ALL_TR + TR_TEARDOWN + TR_EPISODES, monitors=[("c09-halfopen-trials", mon_c09), ("c09-excess-answered-at-once", mon_at_once)],
                rule="breaker driven to half-open, then many callers arriving together with slow trial calls, mixed outcomes, drops and panics of "
                     "trial futures; both window types; 20%: several half-open episodes in one history, ended in the middle by reset / force_closed / force_open / a failing "
                     "trial with trials still in flight, the last episode filled, then the leftovers dropped or completed with late callers after each; callers arriving "
                     "from inside the destructor of a cancelled trial (manual ondrop) with all slots taken",
                level_text="Theorems TR.Props.C09.*: in every reachable half-open state, trial calls started in the episode minus those cancelled equals "
                           "half_open_admitted <= permitted; excess callers are rejected in the same step; no wedge: when no trial of the episode is in flight a slot is free; "
                           "every taken slot belongs to a live (or succeeded) trial of the current episode, overrides never rewind the episode counter, cancelling a leftover frees nothing; "
                           "a caller arriving during the tear-down of a cancelled trial (before its drop) is rejected when all slots are taken."),
}
