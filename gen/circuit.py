"""C03 / C04 / C09 — circuit breaker: generators, implementation-side monitors"""
from gen.util import kvs, tparse

HUGE_WAIT = "max"     # Duration::MAX ("stay open until a manual reset")


def _w(d):
    """the wait used to choose time advances (a huge wait is never elapsed: advance by ordinary amounts)"""
    return d["wait"] if d["wait"] != "max" else 100


FRACS = ["0/1", "1/4", "1/2", "1/2", "3/4", "1/1", "1/10", "3/10", "3/5", "1/8", "5/8"]


def gen_cfg(rng, mode):
    time_based = rng.random() < (0.4 if mode != "seq" else 0.45)
    size = rng.choice([1, 2, 3, 4, 4, 5, 8])
    # now and then "stay open until a manual reset": the largest representable wait
    d = {"size": size, "fr": rng.choice(FRACS), "wait": rng.choice([10, 50, 100]) if rng.random() < 0.94 else HUGE_WAIT,
         "permitted": rng.choice([1, 1, 2, 2, 3, 4])}
    if time_based:
        d["wtype"] = "time"
        d["wdur"] = rng.choice([20, 50, 100, 400])
    r = rng.random()
    if r < 0.5:
        d["min"] = rng.choice([1, max(1, size - 1), size, size + 1, size + 3])
    if rng.random() < 0.4:
        d["slow"] = rng.choice([5, 10, 20])
        d["sr"] = rng.choice(FRACS)
    d["cls"] = rng.choice([0, 0, 0, 1, 2])
    if rng.random() < 0.35:
        d["fallback"] = 1
    return dims(rng, d)


def dims(rng, d):
    """dimensions of the way the breaker is built and operated (harness/src/mw_circuit.rs):
    `listen=0` — no event listener at all is registered (30 %): the log has no `transition` lines, the breaker is observed
    through results, probes and inner calls only; `listen=2` (a quarter of the others) — the `on_state_transition` listener reads
    `state_sync()` of its breaker INSIDE its callback and logs what it read (`transition a b sync=x`): `transition_to` announces
    the transition before it applies it, so the listener still reads the state the breaker is leaving;
    `early=k` (with a fallback, 50 %) — bit 0: manual overrides and probes go through a clone of the plain breaker taken BEFORE
    `with_fallback` (an operator's / health check's handle); bit 1: the fallback is attached when the first request arrives,
    overrides issued before that act on the plain breaker"""
    if rng.random() < 0.3:
        d["listen"] = 0
    elif rng.random() < 0.25:
        d["listen"] = 2
    if d.get("fallback") and rng.random() < 0.5:
        d["early"] = rng.choice([1, 2, 3])
    return d


def early_overrides(rng, case):
    """with `early` bit 1 the fallback is attached at the first arrival: now and then the operator acts before that"""
    k = kvs(case["header"])
    if int(k.get("early", "0")) & 2 and rng.random() < 0.4:
        pre = [rng.choice(["manual force_open", "manual force_open", "manual force_open", "manual reset", "manual force_closed"])]
        if rng.random() < 0.5:
            pre.append("probe views")
        case["ops"] = pre + case["ops"]
    return case


# ----------------------------------------------------------------------------- tick = 1 us
#
# The breaker is timed by std::time::Instant alone, with nanosecond resolution; the model is unit-free (whole ticks). In
# `tick=us` cases one tick is 1 us: wait / wdur / slow are microseconds that need not be whole milliseconds. Scripted latencies
# (`inner=L:`, `fb=L:`) stay in MILLISECONDS — they are tokio timers, which fire at the first millisecond boundary
# >= start + L ms (`TR.Circuit.due`); latency 0 completes in the poll that starts it.

US_OFF = [0, 1, 500, 900, 999, -1, -100]


def ceil_ms(t):
    return -(-t // 1000) * 1000


def scale_us(rng, case):
    """a case generated in milliseconds, replayed on the microsecond grid: configured durations become n*1000 + an offset that
    is (mostly) not a whole millisecond, advances n*1000 + jitter; advances aimed at the wait keep aiming at it (+-1 us)"""
    k = kvs(case["header"])
    if k.get("tick") == "us":
        return case
    new = {}
    for key in ("wait", "wdur", "slow"):
        if key in k and k[key] != "max":
            new[key] = max(1, int(k[key]) * 1000 + rng.choice(US_OFF))
    words = case["header"].split()
    hdr = [w if w.split("=")[0] not in new else "%s=%d" % (w.split("=")[0], new[w.split("=")[0]]) for w in words]
    hdr.append("tick=us")
    aims = {}
    for key in ("wait", "wdur"):
        if key in new:
            aims[int(k[key])] = new[key]
    ops = []
    for o in case["ops"]:
        w = o.split()
        if w[0] == "adv":
            n = int(w[1])
            r = rng.random()
            if n in aims and r < 0.7:
                m = aims[n] + rng.choice([-1, 0, 0, 1])
            elif n + 1 in aims and r < 0.5:
                m = aims[n + 1] - 1
            elif n - 1 in aims and r < 0.5:
                m = aims[n - 1] + 1
            else:
                m = n * 1000 + (0 if r < 0.6 else rng.choice([1, 100, 900, 999, rng.randint(0, 999)]))
            ops.append("adv %d" % max(0, m))
        else:
            ops.append(o)
    return dict(case, header=" ".join(hdr), ops=ops)


def gen_us(rng, tier):
    """sequential histories on the microsecond grid: waits, window durations and slow-call thresholds that are not whole
    milliseconds (below 1 ms, n ms + 900 us, …); calls arriving wait-1 / wait / wait+1 us after the opening and at the whole
    millisecond below the wait; calls lasting threshold-1 / threshold / threshold+1 us and the whole millisecond below the
    threshold; records aged wdur-1 / wdur / wdur+1; first polls that come late"""
    d = gen_cfg(rng, "seq")
    d["tick"] = "us"
    d["size"] = rng.choice([1, 2, 2, 3, 4])
    if "min" in d:
        d["min"] = rng.choice([1, d["size"]])
    W = d["wait"] = rng.choice([900, 999, 1, 1500, 20900, 10001, 2000, 12345, 100999, 3000])
    if d.get("wtype") == "time":
        d["wdur"] = rng.choice([900, 2500, 50001, 100000, 30999, 5000])
    S = None
    if "slow" in d or rng.random() < 0.3:
        S = d["slow"] = rng.choice([900, 1500, 20900, 5001, 3000, 2999, 1])
        d.setdefault("sr", rng.choice(FRACS))
    wd = d.get("wdur")
    ops = []
    c = 0
    now = 0
    pfail = rng.choice([0.1, 0.3, 0.5, 0.7, 0.9])
    late_p = rng.choice([0, 0, 0.3, 0.8])
    durs = [1000, 1001, 1999, 2000, 3500]
    if S:
        durs += [S - 1, S, S, S + 1, S // 1000 * 1000, S // 1000 * 1000 + 1, S + 1000]
    advs = [W - 1, W, W, W + 1, W // 1000 * 1000, W // 1000 * 1000 + 1, 1, 1, 500, 1000]
    if wd:
        advs += [wd - 1, wd, wd + 1, wd // 1000 * 1000]
    for i in range(rng.randint(10, 45)):
        r = rng.random()
        if r < 0.62:
            c += 1
            o = outcome(rng, pfail)
            tag = " tag=%d" % rng.randint(0, 9) if d["cls"] == 2 else ""
            late = []
            if rng.random() < late_p:
                # the future returned by `call()` is not polled right away: the inner call starts at the first poll
                x = max(0, rng.choice([S or 7, (S or 7) + 1, (S or 7) - 1, 1, W, 2 * (S or 7)]))
                late = ["adv %d" % x]
                now += x
            D = max(0, rng.choice(durs)) if rng.random() < 0.5 else 0
            L = D // 1000
            while L > 1 and ceil_ms(now + L * 1000) - now > D:
                L -= 1
            if L == 0:
                ops += ["arrive %d inner=0:%s%s" % (c, o, tag)] + late + ["poll %d" % c]
            else:
                D = max(D, ceil_ms(now + L * 1000) - now)
                ops += ["arrive %d inner=%d:%s%s" % (c, L, o, tag)] + late + ["poll %d" % c, "adv %d" % D, "poll %d" % c]
                now += D
        elif r < 0.84:
            x = max(0, rng.choice(advs))
            ops.append("adv %d" % x)
            now += x
        elif r < 0.90:
            ops.append("manual force_open")
        elif r < 0.93:
            ops.append("manual force_closed")
        elif r < 0.96:
            ops.append("manual reset")
        else:
            pfail = rng.choice([0.0, 0.2, 0.5, 0.8, 1.0])
        ops.append("probe views")
    check_f64(d, c)
    return {"header": header(d), "ops": ops}


def header(d):
    return "circuit " + " ".join("%s=%s" % (k, v) for k, v in d.items())


# ----------------------------------------------------------------------------- how the breaker is built: presets, builder chains
#
# `preset=<builder|fn|standard|fast_fail|tolerant>`: where the builder comes from; `chain=i1,i2,…`: the builder chain itself,
# left to right (harness/src/mw_circuit.rs). `cfgof` is the configuration the DOCUMENTATION promises for a header (config.rs /
# layer.rs doc comments): every setting is the one set last, an unset minimum_number_of_calls is the FINAL window size, a
# preset is its documented values. Monitors read the configuration through it, never from the raw header.

PRESETS = {"standard": {"fr": "1/2", "size": "100", "wait": 30000, "permitted": "3"},
           "fast_fail": {"fr": "1/4", "size": "20", "wait": 10000, "permitted": "1"},
           "tolerant": {"fr": "3/4", "size": "200", "wait": 60000, "permitted": "5"}}
BUILDER = {"fr": "1/2", "size": "100", "wait": 30000, "permitted": "1"}
CHAIN_KEYS = {"fr": "fr", "size": "size", "wait": "wait", "perm": "permitted", "wdur": "wdur", "min": "min", "slow": "slow", "sr": "sr"}
BUILDER_WORDS = ("fr", "size", "wait", "permitted", "wtype", "wdur", "min", "slow", "sr", "cls", "listen")


def cfgof(case):
    """the effective (documented) configuration of a case as a dict of the classic header keys"""
    k = kvs(case["header"] if isinstance(case, dict) else case)
    if "chain" not in k and "preset" not in k:
        return k
    ms = 1000 if k.get("tick") == "us" else 1
    eff = dict(BUILDER)
    eff.update(PRESETS.get(k.get("preset", "builder"), {}))
    eff["wait"] = str(eff["wait"] * ms)
    out = {x: y for x, y in k.items() if x not in BUILDER_WORDS and x != "chain"}
    if "chain" not in k:
        for x in BUILDER_WORDS:
            if x in k:
                eff[x] = k[x]
        eff.setdefault("listen", "1")
        if eff.get("wtype") == "time":
            eff.setdefault("wdur", "1000")
        if "slow" in eff:
            eff.setdefault("sr", "1/1")
    else:
        eff["listen"] = "0"
        for it in k["chain"].split(","):
            a, _, b = it.partition(":")
            if a in CHAIN_KEYS:
                eff[CHAIN_KEYS[a]] = b
            elif a == "wtype":
                eff["wtype"] = b
            elif a in ("cls", "clsr"):
                eff["cls"] = b
                eff["clsr"] = "1" if a == "clsr" else "0"
            elif it in ("lis:tr", "lis:trs"):
                eff["listen"] = "2" if it == "lis:trs" else "1"
        if eff.get("wtype") != "time":
            eff.pop("wtype", None)
        if "slow" in eff:
            eff.setdefault("sr", "1/1")
    out.update(eff)
    return out


def to_chain(rng, hdr):
    """the classic header as the builder chain that asks for the same configuration: the setters in a random order — in
    particular the classifier setters (`failure_classifier` = cls:k, `classify_response` = clsr:k) anywhere before or after
    the window size —, overridden duplicates (an earlier value of the same setting), setters that equal the builder's
    default dropped now and then, and the setters nothing depends on (name, the other on_* listeners)"""
    k = kvs(hdr)
    if "chain" in k:
        return hdr
    items = []
    for key, item in (("fr", "fr"), ("size", "size"), ("wait", "wait"), ("permitted", "perm")):
        if key in k:
            if "preset" not in k and k[key] == str(BUILDER[key]) and k.get("tick") != "us" and rng.random() < 0.5:
                continue            # the builder's default: not set at all
            items.append("%s:%s" % (item, k[key]))
        elif "preset" not in k:
            # the harness default of the classic header
            items.append("%s:%s" % (item, {"fr": "1/2", "size": "10", "wait": "1000", "permitted": "1"}[key]))
    if k.get("listen", "1") != "0":
        items.append("lis:trs" if k.get("listen") == "2" else "lis:tr")
    if k.get("wtype") == "time":
        items += ["wtype:time", "wdur:%s" % k.get("wdur", "1000")]
    if "min" in k:
        items.append("min:%s" % k["min"])
    if "slow" in k:
        items += ["slow:%s" % k["slow"], "sr:%s" % k.get("sr", "1/1")]
    cls = int(k.get("cls", "0"))
    if cls != 0 or rng.random() < 0.15:
        items.append(("clsr:%d" if rng.random() < 0.35 else "cls:%d") % cls)
    rng.shuffle(items)
    # overridden duplicates: an earlier, different value of a setting that is set again later
    for _ in range(rng.choice([0, 0, 1, 2])):
        real = [i for i, x in enumerate(items) if x.split(":")[0] in ("size", "min", "fr", "wait", "perm", "wdur", "slow", "cls")]
        if not real:
            break
        i = rng.choice(real)
        key = items[i].split(":")[0]
        if key == "cls" and any(x.startswith("clsr:") for x in items):
            continue
        other = {"size": rng.choice(["1", "3", "7", "50"]), "min": rng.choice(["1", "2", "9", "100"]), "fr": rng.choice(["1/10", "9/10"]),
                 "wait": rng.choice(["1", "77", "5000"]), "perm": rng.choice(["1", "4"]), "wdur": rng.choice(["1", "333"]),
                 "slow": rng.choice(["1", "44"]), "cls": str(rng.choice([0, 1, 2]))}[key]
        items.insert(rng.randint(0, i), "%s:%s" % (key, other))
    if any(x == "wtype:time" for x in items) and rng.random() < 0.2:
        items.insert(rng.randint(0, items.index("wtype:time")), "wtype:count")
    for extra in ("name:svc-a", "lis:slow", "lis:permitted", "lis:rejected", "lis:success", "lis:failure"):
        if rng.random() < (0.3 if extra == "lis:slow" else 0.12):
            items.insert(rng.randint(0, len(items)), extra)
    words = [w for w in hdr.split() if w.split("=")[0] not in BUILDER_WORDS]
    return " ".join(words + ["chain=%s" % (",".join(items) or "-")])


def with_services(rng, case, other):
    """several services made from ONE layer value: the operations of `other` (a case generated for its own configuration; here
    its operations are just more traffic) go to service 1 — sometimes 2 — of the layer of `case`, interleaved with those of
    `case` on service 0; callers renumbered. What one service does must never show on another."""
    k2 = rng.choice([1, 1, 1, 2])
    off = 1000
    b = []
    for o in other["ops"]:
        w = o.split()
        if w[0] in ("arrive", "poll", "drop", "release"):
            w[1] = str(int(w[1]) + off)
            if w[0] == "arrive":
                w.append("svc=%d" % k2)
        elif w[0] == "manual" and w[1] == "ondrop":
            w = [x if not (x.startswith("c=") or x.startswith("by=")) else "%s=%d" % (x.split("=")[0], int(x.split("=")[1]) + off) for x in w]
            w.append("svc=%d" % k2)
        elif w[0] in ("manual", "probe"):
            w.append("svc=%d" % k2)
        elif w[0] == "adv" and rng.random() < 0.5:
            continue
        b.append(" ".join(w))
    a = list(case["ops"])
    ops = []
    i = j = 0
    while i < len(a) or j < len(b):
        if j >= len(b) or (i < len(a) and rng.random() < len(a) / (len(a) + len(b) + 1.0)):
            ops.append(a[i]); i += 1
        else:
            ops.append(b[j]); j += 1
    return dict(case, ops=ops)


HUGE_WDUR = ["max", "max", "max", "4000000000000000", "18446744073709551"]


def unbounded_window(case):
    """a dimension of the configuration VALUES: the time window "that never forgets" — `sliding_window_duration(Duration::MAX)`
    (`wdur=max`; the natural spelling, and a duration that cannot be subtracted from the monotonic clock) or a duration far
    beyond any history (ten-digit numbers of seconds). 12 % of the time-based cases, whatever generator made them: the
    operations stay as they were planned for the ordinary duration (bursts, advances aimed at the old wdur +-1, half-open
    episodes, overrides), only nothing expires any more. The choice is drawn from a generator of its own, seeded by the case,
    so that the stream of all other cases is what it was."""
    words = case["header"].split()
    if "wtype=time" not in words or not any(w.startswith("wdur=") for w in words):
        return case
    import random
    import zlib
    own = random.Random(zlib.crc32(("\n".join([case["header"]] + list(case["ops"]))).encode()))
    if own.random() >= 0.12:
        return case
    v = own.choice(HUGE_WDUR)
    return dict(case, header=" ".join("wdur=%s" % v if w.startswith("wdur=") else w for w in words))


CONTEND = [("rejected", "open"), ("rejected", "open"), ("rejected", "open"), ("transition", "open"), ("transition", "open"),
           ("transition", "closed"), ("permitted", "closed"), ("success", "closed"), ("failure", "closed"), ("rejected", "closed")]


def contended(case):
    """a dimension of WHO ELSE is at the breaker: `manual contend ev=<listener> st=<open|closed>` (harness/src/mw_circuit.rs) — a
    request made on one OS thread while ANOTHER THREAD is inside the circuit's critical section (its event listener is still
    running under the breaker's mutex), on a breaker of its own built from the case's configuration and fallback setting.
    8 % of the cases, one or two scenarios anywhere in the history (they do not touch the case's breaker; the model has no
    step for them). Drawn from a generator of its own seeded by the case."""
    import random
    import zlib
    own = random.Random(zlib.crc32(("contend\n" + "\n".join([case["header"]] + list(case["ops"]))).encode()))
    if own.random() >= 0.08:
        return case
    ops = list(case["ops"])
    for _ in range(own.choice([1, 1, 2])):
        ev, st = own.choice(CONTEND)
        ops.insert(own.randint(0, len(ops)), "manual contend ev=%s st=%s" % (ev, st))
    return dict(case, ops=ops)


def mon_contend(case, lines, meta):
    """`#contend` lines (a request B polled once while another thread, A, is parked in a listener INSIDE the circuit's critical
    section): C03 itself — while the breaker is observed open (`is_open()` read at that moment) B's request has not reached the
    wrapped service; and if A is itself a rejected call (the breaker is open before, during and after), B never reaches it and
    is answered with the open-circuit error (or the fallback)."""
    for _, m in meta or ():
        w = m.split()
        if not w or w[0] != "#contend":
            continue
        kv = kvs(m)
        if kv.get("parked") != "1":
            continue
        what = "a request made while another thread was inside the circuit's critical section (its on_%s listener still running, breaker %s, is_open()=%s)" % (
            kv.get("ev"), kv.get("st"), kv.get("open_during"))
        if kv.get("open_during") == "1" and kv.get("inner_during") != "0":
            return "%s reached the wrapped service on its first poll through an open breaker: %s" % (what, m)
        # A was itself rejected (its section changed nothing) and nobody else acts on this breaker, the clock stands still: B meets
        # the same open breaker. (After an override by A, or calls that were recorded, the state B meets is the model's business.)
        if kv.get("open_during") == "1" and kv.get("open_after") == "1" and kv.get("a") in ("err:open", "ok:fallback"):
            if kv.get("b_inner") != "0" or kv.get("b") not in ("err:open", "ok:fallback"):
                return "%s was not answered with the open-circuit error although the breaker stayed open: %s" % (what, m)
        if kv.get("b") == "stuck" or kv.get("a") == "panic":
            return "%s: the scenario did not complete: %s" % (what, m)
    return None


def finalize(rng, case, multi_ok=True, gen_other=None):
    """the dimensions of how the breaker is built and how its handles are used, applied to a generated case"""
    case = contended(unbounded_window(case))
    hdr = case["header"]
    r = rng.random()
    if r < 0.4:
        hdr = to_chain(rng, hdr)
    if "via=" not in hdr and rng.random() < 0.4:
        hdr += " via=%s" % rng.choice(["layer", "for_request", "layer_fn"])
    if "preset=" not in hdr and rng.random() < 0.1:
        hdr += " preset=%s" % rng.choice(["fn", "builder"])
    case = dict(case, header=hdr)
    if rng.random() < 0.15:
        # handle reuse: requests made on persistent handles (`h.call(); h.call()`), clones taken after calls
        p = rng.choice([0.3, 0.7, 1.0])
        ops = []
        for o in case["ops"]:
            if (o.startswith("arrive ") or o.startswith("manual ondrop ")) and rng.random() < p:
                o += " h=%d" % rng.choice([1, 1, 2])
            ops.append(o)
        case = dict(case, ops=ops)
    if multi_ok and gen_other is not None and rng.random() < 0.1:
        case = with_services(rng, case, gen_other(rng))
    return case


def fbscript(rng, d, p=0.5):
    """script of this caller's fallback future (only meaningful with a fallback configured): a fallback is a future of
    its own — a replica read, a remote cache — that need not finish on its first poll, may fail, panic or hang"""
    if not d.get("fallback") or rng.random() >= p:
        return ""
    lat = rng.choice([0, 1, 5, 5, 20, 50, 200])
    r = rng.random()
    out = "ok" if r < 0.7 else rng.choice(["err1", "err2"]) if r < 0.85 else "never" if r < 0.95 else "panic"
    return " fb=%d:%s" % (lat, out)


def ondrop(rng, d, x, c2, pfail=0.3):
    """`manual ondrop c=x by=c2 …`: when the unfinished inner call of x is destroyed (x is dropped while in flight),
    caller c2 arrives from inside that destructor and is polled once there: the cancelled call is still inside the
    wrapped service, so whatever it holds (a half-open trial slot) is still held"""
    tag = " tag=%d" % rng.randint(0, 9) if d.get("cls") == 2 else ""
    return "manual ondrop c=%d by=%d inner=%d:%s%s%s" % (x, c2, rng.choice([0, 0, 5, 50, 500]), outcome(rng, pfail), tag, fbscript(rng, d))


def outcome(rng, pfail):
    if rng.random() < pfail:
        return rng.choice(["err1", "err1", "err2"])
    return "ok"


# ----------------------------------------------------------------------------- thresholds: exact rationals vs f64
#
# The model (and the reference machine `Spec` below) compare rates exactly: `k/n >= num/den  <=>  k*den >= num*n`.
# The code computes `k as f64 / n as f64 >= threshold` with `threshold` = the double nearest to num/den (the harness
# builds it as `num as f64 / den as f64`, which is the same double as the decimal literal, e.g. 28/100 == 0.28).
# Both sides of the code's comparison are correctly rounded values of the exact rationals and rounding is monotone, so
# k/n >= num/den implies fl(k/n) >= fl(num/den); conversely two different rationals with n, den <= 2^20 differ by at
# least 1/(n*den) >= 2^-40, far more than one ulp (<= 2^-53 in [0,1]), so k/n < num/den implies fl(k/n) < fl(num/den).
# `f64_agrees` checks exactly this, with python floats (IEEE doubles, correctly rounded division: the same values as
# Rust's), for every (threshold, total, count) a generated case can evaluate; every generator below calls it.

_F64_OK = {}


def f64_agrees(fr, nmax):
    """for every total n <= nmax and count k <= n: (k as f64 / n as f64 >= num as f64 / den as f64) == (k*den >= num*n)"""
    num, den = frac(fr, "1/2")
    done = _F64_OK.get((num, den), 0)
    if nmax > done:
        th = num / den
        for n in range(max(done, 0) + 1, nmax + 1):
            lo = num * n // den
            for k in range(max(0, lo - 2), min(n, lo + 3) + 1):      # away from the boundary both comparisons are monotone in k
                if ((k / n) >= th) != (k * den >= num * n):
                    raise AssertionError("f64 comparison %d/%d >= %d/%d differs from the exact one: the model's thresholds do not "
                                         "represent the code on this configuration" % (k, n, num, den))
            if ((0 / n) >= th) != (0 >= num * n) or ((n / n) >= th) != (n * den >= num * n):
                raise AssertionError("f64 comparison differs from the exact one at 0/%d or %d/%d for %d/%d" % (n, n, n, num, den))
        _F64_OK[(num, den)] = nmax
    return True


def check_f64(d, ncalls):
    """every threshold of configuration d against every total it can be compared at (count-based: the full window;
    time-based: anything up to the number of calls of the case)"""
    nmax = int(d["size"]) if d.get("wtype") != "time" else max(int(d["size"]), ncalls)
    f64_agrees(d["fr"], max(nmax, 1))
    if "slow" in d:
        f64_agrees(d.get("sr", "1/1"), max(nmax, 1))


_BOUNDARIES = None


def boundaries():
    """exact-boundary triples (num, den, n, k) with k/n == num/den, thresholds with two or three decimals, n <= 100:
    `plain`, and `sensitive` = one list per algebraically equivalent f64 formulation of `k/n >= threshold`
    (cross-multiplied, divided the other way, complementary rate, percentages) of the triples where that formulation
    answers differently from the exact comparison — the places where a rewrite of the comparison shows"""
    global _BOUNDARIES
    if _BOUNDARIES is None:
        plain, sensitive = [], [[], [], [], []]
        for den in (100, 1000):
            for num in range(1, den):
                if den == 1000 and num % 10 == 0:
                    continue
                th = num / den
                for n in range(2, 101):
                    if (num * n) % den:
                        continue
                    k = num * n // den
                    fk, fn = float(k), float(n)
                    alts = [fk >= th * fn and fk - th * fn >= 0.0, fk / th >= fn, (fn - fk) / fn <= 1.0 - th,
                            100.0 * fk / fn >= th * 100.0 and fk / fn * 100.0 >= th * 100.0 and fk / fn - th >= 0.0]
                    for ok, cls in zip(alts, sensitive):
                        if not ok:
                            cls.append((num, den, n, k))
                    if all(alts):
                        plain.append((num, den, n, k))
        _BOUNDARIES = (plain, [cls for cls in sensitive if cls])
    return _BOUNDARIES


def gen_boundary(rng, tier):
    """"… the failure rate or the enabled slow-call rate over the sliding window REACHES its threshold": thresholds with
    two or three decimals, windows up to 100 (count-based: window size; time-based: minimum_number_of_calls), sequential
    histories whose window ends with the count exactly at the boundary, one below it and one above it — reached at the
    first evaluation, or by sliding (count-based eviction / time-based expiry) from one below. Half of the exact
    boundaries are float-sensitive ones (see `boundaries`)."""
    plain, sensitive = boundaries()
    r = rng.random()
    if r < 0.5:
        num, den, n, k = rng.choice(rng.choice(sensitive))
    elif r < 0.85:
        num, den, n, k = rng.choice(plain)
    else:
        den = rng.choice([100, 1000])
        num = rng.randint(1, den - 1)
        n = rng.randint(2, 100)
        k = -(-num * n // den)          # smallest count that reaches the threshold
    th = "%d/%d" % (num, den)
    time_based = rng.random() < 0.4
    by_slow = rng.random() < 0.35
    d = {"size": n, "wait": rng.choice([10, 50, 100]), "permitted": rng.choice([1, 2, 3])}
    if time_based:
        d["wtype"] = "time"
        d["wdur"] = rng.choice([2000, 5000, 100000])
        d["min"] = n
        d["size"] = rng.choice([n, 10, 100])          # irrelevant for time-based windows
    elif rng.random() < 0.5:
        d["min"] = rng.choice([1, max(1, n // 2), n])
    S = rng.choice([2, 5])
    other = rng.choice(["1/1", "999/1000", "3/4", "1/2"])
    if by_slow:
        d["fr"], d["slow"], d["sr"] = other, S, th
    else:
        d["fr"] = th
        if rng.random() < 0.4:
            d["slow"], d["sr"] = S, other
    d["cls"] = 0
    if rng.random() < 0.3:
        d["listen"] = rng.choice([0, 0, 2])
    variant = rng.choice(["at", "at", "below", "above", "slide", "slide"])
    m = {"at": k, "below": k - 1, "above": min(n, k + 1), "slide": k - 1}[variant]
    m = max(0, m)
    ops = []
    c = [0]
    now = [0]

    def call(marked, probe=False):
        c[0] += 1
        if marked and by_slow:
            lat = rng.choice([S, S, S + 1])
            ops.extend(["arrive %d inner=%d:ok" % (c[0], lat), "poll %d" % c[0], "adv %d" % lat, "poll %d" % c[0]])
            now[0] += lat
        elif marked:
            ops.extend(["arrive %d inner=0:%s" % (c[0], rng.choice(["err1", "err2"])), "poll %d" % c[0]])
        elif "slow" in d and rng.random() < 0.15:
            ops.extend(["arrive %d inner=%d:ok" % (c[0], S - 1), "poll %d" % c[0], "adv %d" % (S - 1), "poll %d" % c[0]])
            now[0] += S - 1
        else:
            ops.extend(["arrive %d inner=0:ok" % c[0], "poll %d" % c[0]])
        if probe or rng.random() < 0.08:
            ops.append("probe views")

    if time_based and rng.random() < 0.4 and d["wdur"] < 100000:
        # records that will have expired when the window is first evaluated
        for _ in range(rng.randint(1, max(1, min(n - 1, 5)))):
            call(True)
        ops.append("adv %d" % (d["wdur"] + 1))
        now[0] += d["wdur"] + 1
    marks = [True] * m + [False] * (n - m)
    rng.shuffle(marks)
    if variant == "slide" and not time_based and marks and rng.random() < 0.7:
        # the oldest outcome is an unmarked one: the next marked call evicts it and moves the count onto the boundary
        if False in marks:
            i = marks.index(False)
            marks[0], marks[i] = marks[i], marks[0]
    for i, mk in enumerate(marks):
        call(mk, probe=(i >= n - 2))
    if variant == "slide":
        call(True, probe=True)
    for _ in range(rng.randint(1, 4)):
        call(rng.random() < 0.5, probe=True)
    if rng.random() < 0.8:
        ops += ["adv %d" % d["wait"], "arrive %d inner=0:ok" % (c[0] + 1), "poll %d" % (c[0] + 1), "probe views"]
    check_f64(d, c[0] + 1)
    return {"header": header(d), "ops": ops}


def gen_expiry(rng, tier):
    """C04, time-based windows that ROLL OVER their records between calls: recording a call first prunes the records older than
    sliding_window_duration, so the rates of what is left can reach (or fall below) a threshold because of what aged out, not
    because of the outcome being recorded. Bursts of calls (all successes / all failures / slow / mixed) separated by gaps that are
    fractions of the window, so that the bursts leave the window one by one while later ones stay; the ages at the recordings are
    aimed at wdur-1 / wdur / wdur+1. Half of the cases are planned: an older burst of one kind and a younger burst of the other in
    amounts that keep the rate under the threshold while both are in the window, then a call (success, failure, fast, slow) when
    only the older burst has expired - the threshold is reached by expiry on a SUCCESS, reached only thanks to the new failure,
    missed because failures aged out, or the window falls under minimum_number_of_calls. The rest are random rolling histories."""
    W = rng.choice([20, 50, 100, 100, 400, 1000])
    by_slow = rng.random() < 0.3
    th = rng.choice(["1/4", "1/2", "1/2", "3/4", "3/10", "3/5", "5/8", "1/10", "2/3", "1/3", "1/1"])
    other = rng.choice(["1/1", "1/1", "3/4", "1/2"])
    d = {"size": rng.choice([1, 3, 10, 100]), "wait": rng.choice([10, 50, 100, 2 * W]), "permitted": rng.choice([1, 1, 2, 3]),
         "wtype": "time", "wdur": W}
    S = rng.choice([2, 5, 10])
    if by_slow:
        d["fr"], d["slow"], d["sr"] = other, S, th
    else:
        d["fr"] = th
        if rng.random() < 0.35:
            d["slow"], d["sr"] = S, other
    d["min"] = rng.choice([1, 2, 2, 3, 3, 4, 5])
    d["cls"] = rng.choice([0, 0, 0, 1, 2])
    if rng.random() < 0.3:
        d["listen"] = rng.choice([0, 0, 2])
    num, den = frac(th, "1/2")
    ops = []
    c = [0]
    now = [0]

    def adv(x):
        if x > 0:
            ops.append("adv %d" % x)
            now[0] += x

    def call(marked, probe=True):
        """marked = the kind of call the watched rate counts (a failure / a slow call)"""
        c[0] += 1
        tag = " tag=%d" % (2 * rng.randint(0, 4)) if d["cls"] == 2 else ""
        if marked and by_slow:
            lat = rng.choice([S, S, S + 1])
            o = "ok" if rng.random() < 0.8 or other != "1/1" else "err1"
            ops.extend(["arrive %d inner=%d:%s%s" % (c[0], lat, o, tag), "poll %d" % c[0]])
            adv(lat)
            ops.append("poll %d" % c[0])
        elif marked:
            ops.extend(["arrive %d inner=%d:err1%s" % (c[0], 0, tag), "poll %d" % c[0]])
        elif "slow" in d and rng.random() < 0.2:
            ops.extend(["arrive %d inner=%d:ok%s" % (c[0], S - 1, tag), "poll %d" % c[0]])
            adv(S - 1)
            ops.append("poll %d" % c[0])
        else:
            ops.extend(["arrive %d inner=0:ok%s" % (c[0], tag), "poll %d" % c[0]])
        if probe:
            ops.append("probe views")

    if rng.random() < 0.6:
        # planned: `a` older calls of one kind at t0, `b` younger calls of the other kind g1 later, the deciding call g2 after
        # those: the older burst has expired iff g1 + g2 > W, the younger one is still there iff g2 <= W
        plan = rng.choice(["success", "success", "success", "failure", "averts", "averts", "below-min", "free"])
        if num >= den and plan in ("success", "below-min"):
            plan = "failure"      # a rate of 1 cannot be reached on a call that does not count
        kind = "marked" if plan in ("failure", "averts") else "ok" if plan != "free" else rng.choice(["ok", "marked"])
        old_marked = plan == "averts" or (plan == "free" and rng.random() < 0.4)
        if plan == "averts":
            # a counted calls, then b others; closed while a/(a+b) < th; the deciding counted call trips with the old ones
            # ((a+1)/(a+b+1) >= th for the largest such a) and does not without them (1/(b+1) < th)
            b = den // max(1, num) + rng.choice([0, 0, 1])
            a = max(1, (num * b - 1) // max(1, den - num)) if num < den else rng.randint(1, 3)
        elif plan == "free":
            a, b = rng.randint(1, 5), rng.randint(1, 4)
        else:
            # a others, then b counted calls; closed while b/(a+b) < th  <=>  a > b*(den-num)/num; after the expiry of the others
            # the deciding call sees b/(b+1) (a success: needs b >= num/(den-num)) or (b+1)/(b+1) (a counted call)
            b = max(1, -(-num // max(1, den - num))) + rng.choice([0, 0, 0, 1]) if kind == "ok" else rng.randint(1, 3)
            a = (b + (kind == "marked")) * (den - num) // max(1, num) + 1 + rng.choice([0, 0, 0, 1, 2])
        d["min"] = b + 2 if plan == "below-min" else rng.choice([1, 2, b, b + 1, b + 1, b + 1, max(1, b - 1)] + ([a + b, b + 2] if plan == "free" else []))
        for _ in range(rng.randint(0, 2)):
            # something older still that is gone in any case
            call(d["min"] > 1 and rng.random() < 0.3, probe=False)
            adv(W + rng.choice([1, 2, W]))
        spread = rng.random() < 0.3
        for i in range(a):
            call(old_marked, probe=(i == a - 1))
            if spread and i < a - 1:
                adv(rng.choice([1, 1, 2]))
        t_old = now[0]
        adv(rng.choice([1, W // 4, W // 2, W // 2, W - W // 3, W - 1, W]))
        for i in range(b):
            call(not old_marked, probe=(i == b - 1))
            if spread and rng.random() < 0.5:
                adv(1)
        # the deciding call is RECORDED at t_old + W + delta: delta <= 0 - nothing has expired yet; 1 - the older burst just has
        delta = rng.choice([1, 1, 1, 1, 1, 2, 0, -1, W // 3])
        lat = S if (kind == "marked" and by_slow) else 0
        adv(max(0, t_old + W + delta - now[0] - lat))
        call(kind == "marked")
        for _ in range(rng.randint(1, 3)):
            if rng.random() < 0.4:
                adv(rng.choice([1, W // 4, W // 2, W, W + 1]))
            call(rng.random() < 0.4)
    else:
        pm = 0.5
        for _ in range(rng.randint(4, 14)):
            r = rng.random()
            pm = 0.0 if r < 0.35 else 1.0 if r < 0.65 else 0.5 if r < 0.9 else pm
            for _ in range(rng.randint(1, 4)):
                call(rng.random() < pm)
                if rng.random() < 0.15:
                    adv(rng.choice([1, 2, W // 10]))
            r = rng.random()
            if r < 0.85:
                adv(rng.choice([W // 4, W // 3, W // 2, W // 2, W // 2 + 1, W - W // 3, W - 1, W, W + 1, 1]))
            elif r < 0.90:
                ops.append("manual " + rng.choice(["reset", "force_closed", "force_open"]))
            else:
                adv(_w(d))
    if rng.random() < 0.7:
        adv(_w(d) + rng.choice([0, 0, -1, 1]))
        call(False)
    check_f64(d, c[0] + 1)
    case = {"header": header(d), "ops": ops}
    if rng.random() < 0.12 and not by_slow and "slow" not in d:
        case = scale_us(rng, case)
    return case


def gen_seq(rng, tier):
    """C04: sequential histories — every call completes before the next operation"""
    d = gen_cfg(rng, "seq")
    ops = []
    c = 0
    n = rng.randint(10, 60) if rng.random() < 0.85 else rng.randint(100, 300)
    pfail = rng.choice([0.1, 0.3, 0.5, 0.7, 0.9])
    slow = d.get("slow")
    late_p = rng.choice([0, 0, 0.3, 0.8])
    for i in range(n):
        r = rng.random()
        if r < 0.70:
            c += 1
            o = outcome(rng, pfail)
            tag = " tag=%d" % rng.randint(0, 9) if d["cls"] == 2 else ""
            tag += fbscript(rng, d, 0.25)     # if rejected: a fallback that may stay pending across the later operations
            late = []
            if rng.random() < late_p:
                # the caller holds the future returned by `call()` for a while before it polls it (a batch built first and
                # driven later, a select! arm not reached yet): the inner call starts — and the call's duration begins —
                # at the first poll; the time the future sat un-polled is not call duration
                s0 = slow or 7
                late = ["adv %d" % rng.choice([s0, s0, s0 + 1, s0 - 1, 2 * s0, 1, _w(d)])]
                if rng.random() < 0.2:
                    late.append("probe views")
            if slow and rng.random() < 0.4:
                lat = rng.choice([slow - 1, slow, slow + 1, slow * 2])
                ops += ["arrive %d inner=%d:%s%s" % (c, lat, o, tag)] + late + ["poll %d" % c, "adv %d" % lat, "poll %d" % c]
            else:
                ops += ["arrive %d inner=0:%s%s" % (c, o, tag)] + late + ["poll %d" % c]
        elif r < 0.82:
            w = _w(d)
            ops.append("adv %d" % rng.choice([w - 1, w, w, w + 1, 1, w // 2, d.get("wdur", 7), d.get("wdur", 7) + 1]))
        elif r < 0.86:
            ops.append("manual force_open")
        elif r < 0.90:
            ops.append("manual force_closed")
        elif r < 0.95:
            ops.append("manual reset")
        else:
            pfail = rng.choice([0.0, 0.2, 0.5, 0.8, 1.0])
        ops.append("probe views")
    check_f64(d, c)
    return {"header": header(d), "ops": ops}


def gen_conc(rng, tier, halfopen_bias=False):
    """C03 / C09: concurrent callers on clones, all interleavings of admission, completion, recording"""
    d = gen_cfg(rng, "conc")
    if halfopen_bias:
        d["size"] = rng.choice([1, 2, 3])
        d.pop("min", None)
        d["fr"] = rng.choice(["1/2", "1/1", "1/4"])
    ops = []
    c = 0
    live = []
    now = 0
    marks = []
    w = _w(d)
    n = rng.randint(15, 70)
    pfail = rng.choice([0.3, 0.6, 0.9, 1.0]) if not halfopen_bias else rng.choice([0.0, 0.2, 0.5])
    ondrop_p = rng.choice([0, 0.3, 0.8])
    gate_p = rng.choice([0, 0, 0, 0.05, 0.1])       # the wrapped service loses / regains its readiness now and then
    health_p = rng.choice([0, 0, 0.5])              # overrides given as health signals, scheduled at once or later
    if halfopen_bias:
        # open it quickly: failures until open (or force), then wait
        if rng.random() < 0.5:
            ops.append("manual force_open")
        else:
            for _ in range(d["size"] + 1):
                c += 1
                ops += ["arrive %d inner=0:err1" % c, "poll %d" % c]
            if rng.random() < 0.5:
                ops.append("manual force_open")
        ops.append("adv %d" % rng.choice([w, w, w + 1, w - 1]))
        now += w
    for i in range(n):
        r = rng.random()
        if r < 0.30:
            c += 1
            lat = rng.choice([0, 0, 1, 5, 10, 20, 50])
            o = outcome(rng, pfail)
            if rng.random() < 0.06:
                o = rng.choice(["panic", "never"])
            tag = " tag=%d" % rng.randint(0, 9) if d["cls"] == 2 else ""
            fb = fbscript(rng, d)
            ops.append("arrive %d inner=%d:%s%s%s" % (c, lat, o, tag, fb))
            live.append(c)
            if rng.random() < (0.8 if halfopen_bias else 0.6):
                ops.append("poll %d" % c)
                marks.append(now + lat)
                if fb:
                    marks.append(now + int(fb.split("=")[1].split(":")[0]))
        elif r < 0.55 and live:
            x = rng.choice(live)
            ops.append("poll %d" % x)
        elif r < 0.62 and live:
            x = rng.choice(live)
            if rng.random() < ondrop_p:
                # somebody arrives while the cancelled call of x is being torn down inside the wrapped service
                c += 1
                ops.append(ondrop(rng, d, x, c, pfail))
                live.append(c)
            ops.append("drop %d" % x)
            live.remove(x)
        elif r < 0.80:
            fut = [m for m in marks if m >= now]
            q = rng.random()
            if fut and q < 0.5:
                dt = max(0, rng.choice(fut) - now + rng.choice([-1, 0, 0, 1]))
            elif q < 0.8:
                dt = rng.choice([w - 1, w, w + 1, w // 2])
            else:
                dt = rng.choice([0, 1, 3, 10])
            ops.append("adv %d" % dt)
            now += dt
        elif r < 0.88:
            ops.append("settle")
        elif r < 0.91:
            if rng.random() < health_p:
                ops.append("manual " + rng.choice(["trigger_unhealthy", "trigger_unhealthy", "trigger_healthy"]))
                if rng.random() < 0.6:
                    ops.append("manual yield")
            else:
                ops.append("manual " + rng.choice(["force_open", "force_open", "force_closed", "reset"]))
        elif rng.random() < gate_p * 4:
            ops.append("manual " + rng.choice(["inner_down", "inner_up", "inner_up", "inner_fail"]))
        elif health_p and rng.random() < 0.3:
            ops.append("manual yield")
        else:
            ops.append("probe views")
    ops.append("settle")
    ops.append("probe views")
    return {"header": header(d), "ops": ops}


def gen_pending_fallback(rng, tier, halfopen=False):
    """"each is answered at once with the open-circuit error, or by the configured fallback": the breaker is open (or
    half-open with its trial slots taken) and rejects callers whose fallback futures stay pending; meanwhile other callers
    (clones) arrive, calls admitted before the breaker opened complete and are recorded, state()/metrics() are probed and
    force_open / force_closed / reset are issued — none of that may wait for somebody's fallback"""
    d = gen_cfg(rng, "conc")
    d["fallback"] = 1
    if "early" not in d and rng.random() < 0.5:
        d["early"] = rng.choice([1, 2, 3])
    if d["wait"] != "max" and rng.random() < 0.6:
        d["wait"] = rng.choice([100, 1000])
    w = _w(d)
    ops = []
    c = 0
    live = []
    marks = []
    now = 0
    # calls admitted while still closed, in flight when the breaker opens
    for _ in range(rng.choice([0, 0, 1, 2])):
        c += 1
        lat = rng.choice([1, 5, 20])
        ops += ["arrive %d inner=%d:%s" % (c, lat, rng.choice(["ok", "err1"])), "poll %d" % c]
        live.append(c)
        marks.append(lat)
    ops.append("manual force_open")
    if halfopen:
        p = d["permitted"]
        ops.append("adv %d" % w)
        now += w
        for _ in range(p):
            c += 1
            ops += ["arrive %d inner=%s" % (c, rng.choice(["500:ok", "0:never", "30:ok", "30:err1"])), "poll %d" % c]
            live.append(c)
            marks.append(now + 30)
    for i in range(rng.randint(6, 30)):
        r = rng.random()
        if r < 0.40:
            c += 1
            fb = fbscript(rng, d, 0.8)
            ops.append("arrive %d inner=%d:ok%s" % (c, rng.choice([0, 5]), fb))
            live.append(c)
            if rng.random() < 0.85:
                ops.append("poll %d" % c)
                if fb:
                    marks.append(now + int(fb.split("=")[1].split(":")[0]))
        elif r < 0.52 and live:
            ops.append("poll %d" % rng.choice(live))
        elif r < 0.58 and live:
            x = rng.choice(live)
            ops.append("drop %d" % x)
            live.remove(x)
        elif r < 0.72:
            ops.append("probe views")
        elif r < 0.80:
            ops.append("manual " + rng.choice(["force_open", "force_closed", "reset", "force_open"]))
        elif r < 0.93:
            fut = [m for m in marks if m >= now]
            dt = max(0, rng.choice(fut) - now + rng.choice([-1, 0, 0, 1])) if fut and rng.random() < 0.7 else rng.choice([0, 1, 5, w - 1, w])
            ops.append("adv %d" % dt)
            now += dt
        else:
            ops.append("settle")
    ops += ["settle", "probe views"]
    return {"header": header(d), "ops": ops}



def gen_health(rng, tier, sequential=False):
    """health signals (`HealthTriggerable`, cargo feature health-integration): `trigger_unhealthy()` / `trigger_healthy()`
    return at once and leave a spawned task behind that applies force_open / force_closed when the scheduler gets to it
    (`manual yield`). In the window between the two the breaker is probed (state(), state_sync(), is_open(), http_status(),
    health_status(), metrics) and callers arrive and are polled: nobody may see the breaker open before it is — and once
    anybody has seen it open no call may get through. `sequential`: every call completes before the next operation (C04)."""
    d = gen_cfg(rng, "seq" if sequential else "conc")
    w = _w(d)
    ops = []
    c = [0]
    live = []

    def call(p_late=0.0):
        c[0] += 1
        o = outcome(rng, rng.choice([0.1, 0.5]))
        tag = " tag=%d" % rng.randint(0, 9) if d["cls"] == 2 else ""
        lat = 0 if sequential or rng.random() < 0.6 else rng.choice([1, 5, 20, 50])
        ops.append("arrive %d inner=%d:%s%s%s" % (c[0], lat, o, tag, fbscript(rng, d, 0.3)))
        if rng.random() >= p_late or sequential:
            ops.append("poll %d" % c[0])
            if lat:
                live.append(c[0])
        else:
            live.append(c[0])

    for _ in range(rng.randint(0, 3)):
        call()
    for _ in range(rng.randint(2, 6)):
        sig = rng.choice(["trigger_unhealthy", "trigger_unhealthy", "trigger_unhealthy", "trigger_healthy"])
        ops.append("manual " + sig)
        # the window: the signal has been given, the task has not run
        for _ in range(rng.choice([0, 0, 1, 2, 3, 4])):
            r = rng.random()
            if r < 0.3:
                ops.append("probe views")
            elif r < 0.8:
                call(0.2)
            elif r < 0.9 and live:
                ops.append("poll %d" % rng.choice(live))
            else:
                ops.append("manual " + rng.choice(["trigger_unhealthy", "trigger_healthy", "force_open", "force_closed", "reset"]))
        ops.append("manual yield")
        ops.append("probe views")
        for _ in range(rng.randint(0, 4)):
            r = rng.random()
            if r < 0.5:
                call(0.1)
            elif r < 0.75:
                ops.append("adv %d" % rng.choice([w - 1, w, w, w + 1, 1, 5]))
            elif r < 0.85 and live and not sequential:
                ops.append("poll %d" % rng.choice(live))
            elif r < 0.92:
                ops.append("manual yield")
            else:
                ops.append("probe views")
    ops += ["settle", "probe views"]
    if sequential:
        check_f64(d, c[0])
    return {"header": header(d), "ops": ops}


def gen_unready(rng, tier, halfopen=False):
    """the wrapped service loses its readiness (`manual inner_down` / `inner_fail`: a connection-backed client whose link
    drops, a drained pool) AFTER callers obtained readiness and created their call futures and BEFORE those futures are first
    polled; then the breaker opens (force_open, a health signal, or the calls in flight failing); then the wrapped service
    comes back (`inner_up`). An admitted call is inside the wrapped service from the poll that admits it; requests arriving
    while it is not ready never get to the breaker. `halfopen`: the same around a half-open episode (trial slots)."""
    d = gen_cfg(rng, "conc")
    d["size"] = rng.choice([1, 2, 3])
    d.pop("min", None)
    d["fr"] = rng.choice(["1/2", "1/1"])
    if d["wait"] == "max":
        d["wait"] = 50
    w = d["wait"]
    ops = []
    c = [0]

    def arrive(inner, poll=False):
        c[0] += 1
        tag = " tag=%d" % (2 * rng.randint(0, 4)) if d["cls"] == 2 else ""
        ops.append("arrive %d inner=%s%s%s" % (c[0], inner, tag, fbscript(rng, d, 0.3)))
        if poll:
            ops.append("poll %d" % c[0])
        return c[0]

    if halfopen:
        ops += ["manual force_open", "adv %d" % rng.choice([w, w + 1])]
    flying = [arrive("%d:%s" % (rng.choice([5, 20, 50]), rng.choice(["err1", "err1", "ok"])), True) for _ in range(rng.randint(0, d["size"] + 1))]
    parked = [arrive(rng.choice(["0:ok", "5:ok", "50:ok", "0:err1"])) for _ in range(rng.randint(1, 3))]
    ops.append("manual " + rng.choice(["inner_down", "inner_down", "inner_fail"]))
    order = list(parked)
    rng.shuffle(order)
    late = []
    for x in order:
        if rng.random() < 0.85:
            ops.append("poll %d" % x)       # first poll with the wrapped service not ready any more
        else:
            late.append(x)
    if rng.random() < 0.5:
        arrive("0:ok")                       # arrives while not ready: turned away before the breaker
    r = rng.random()
    if r < 0.4:
        ops.append("manual force_open")
    elif r < 0.6:
        ops += ["manual trigger_unhealthy"] + (["probe views"] if rng.random() < 0.5 else []) + ["manual yield"]
    else:
        ops.append("adv 50")
        for x in flying:
            ops.append("poll %d" % x)
        if rng.random() < 0.4:
            ops.append("manual force_open")
    ops.append("probe views")
    if rng.random() < 0.3:
        ops += ["manual inner_fail", "arrive %d inner=0:ok" % (c[0] + 1)]
        c[0] += 1
    ops.append("manual inner_up")
    for x in order + late:
        if rng.random() < 0.9:
            ops.append("poll %d" % x)
    ops.append("probe views")
    for _ in range(rng.randint(1, 3)):
        arrive(rng.choice(["0:ok", "20:ok"]), True)
    ops += ["adv %d" % rng.choice([w - 1, w, w + 1, 50]), "settle"]
    for _ in range(rng.randint(1, 3)):
        arrive(rng.choice(["0:ok", "20:ok", "0:err1"]), True)
        if rng.random() < 0.3:
            ops.append("manual " + rng.choice(["inner_down", "inner_up"]))
    ops += ["manual inner_up", "adv 60", "settle", "probe views"]
    return {"header": header(d), "ops": ops}


def gen_preset(rng, tier):
    """the preset constructors (`CircuitBreakerLayer::standard() / fast_fail() / tolerant()`), `circuit_breaker_builder()` and
    the bare builder, as they are or customised afterwards (a smaller window: the minimum follows it; another wait; a custom
    classifier installed before or after): a sequential history that fills the window with the failure count one below / at /
    one above the documented threshold, waits the documented wait (−1 / exactly), runs the permitted trial calls."""
    p = rng.choice(["standard", "fast_fail", "tolerant", "fn", "builder", "fast_fail"])
    eff = {"fr": BUILDER["fr"], "size": int(BUILDER["size"]), "wait": BUILDER["wait"], "permitted": int(BUILDER["permitted"])}
    for a, b in PRESETS.get(p, {}).items():
        eff[a] = b if a == "fr" else int(b)
    d = {"preset": p}
    if rng.random() < 0.55:
        d["size"] = rng.choice([2, 3, 4, 5, 8, 12])
    if rng.random() < 0.35:
        d["wait"] = rng.choice([10, 50, 100])
    if rng.random() < 0.2:
        d["permitted"] = rng.choice([1, 2, 3])
    if rng.random() < 0.2:
        d["fr"] = rng.choice(["1/2", "1/4", "3/4", "1/1", "3/10"])
    if rng.random() < 0.15:
        d["min"] = rng.choice([1, 2, d.get("size", eff["size"])])
    if rng.random() < 0.3:
        d["cls"] = rng.choice([1, 2])
    if rng.random() < 0.25:
        d["listen"] = rng.choice([0, 0, 2])
    if rng.random() < 0.2:
        d["fallback"] = 1
    for a in ("fr", "size", "wait", "permitted"):
        if a in d:
            eff[a] = d[a]
    n = int(eff["size"])
    num, den = frac(eff["fr"], "1/2")
    k = -(-num * n // den)
    m = max(0, min(n, k + rng.choice([-1, 0, 0, 1])))
    marks = [True] * m + [False] * (n - m)
    rng.shuffle(marks)
    ops = []
    c = [0]

    def call(fail, probe=False):
        c[0] += 1
        # err1 is a failure for every classifier; an even tag keeps `ok` a success for classifier 2
        ops.extend(["arrive %d inner=0:%s tag=%d" % (c[0], "err1" if fail else "ok", 2 * rng.randint(0, 4)), "poll %d" % c[0]])
        if probe or rng.random() < 0.05:
            ops.append("probe views")

    for i, mk in enumerate(marks):
        call(mk, probe=(i >= n - 2))
    for _ in range(rng.randint(0, 3)):
        call(rng.random() < 0.5, probe=True)
    W = int(eff["wait"])
    ops += ["adv %d" % rng.choice([W, W, W - 1, W + 1]), "probe views"]
    for _ in range(int(eff["permitted"]) + rng.choice([0, 1])):
        call(rng.random() < 0.15, probe=True)
    if rng.random() < 0.5:
        ops += ["adv 1"]
        call(False, probe=True)
    e2 = dict(eff, fr=eff["fr"], size=n)
    e2.update({x: d[x] for x in ("wtype", "slow", "sr") if x in d})
    check_f64(e2, c[0])
    return {"header": header(d), "ops": ops}


def gen_preset_halfopen(rng, tier):
    """a preset's documented `permitted_calls_in_half_open` (standard 3, fast_fail 1, tolerant 5; the builder's default 1) and
    its documented wait: forced open, the wait elapses (−1 / exactly), more callers than permitted arrive together with slow
    trial calls, some are dropped, the rest complete"""
    p = rng.choice(["standard", "fast_fail", "tolerant", "fn", "builder"])
    permitted = int(PRESETS.get(p, BUILDER)["permitted"])
    W = PRESETS.get(p, BUILDER)["wait"]
    d = {"preset": p}
    if rng.random() < 0.5:
        W = d["wait"] = rng.choice([10, 50])
    if rng.random() < 0.3:
        d["listen"] = rng.choice([0, 0, 2])
    if rng.random() < 0.3:
        d["fallback"] = 1
    ops = ["manual force_open", "adv %d" % (W - 1), "arrive 1 inner=0:ok", "poll 1", "adv 1"]
    c = 1
    live = []
    for _ in range(permitted + rng.randint(1, 3)):
        c += 1
        ops += ["arrive %d inner=%s%s" % (c, rng.choice(["500:ok", "500:ok", "0:never", "30:ok"]), fbscript(rng, d, 0.3)), "poll %d" % c]
        live.append(c)
    ops.append("probe views")
    for _ in range(rng.randint(0, 2)):
        x = rng.choice(live)
        live.remove(x)
        c += 1
        ops += ["drop %d" % x, "arrive %d inner=500:ok" % c, "poll %d" % c]
        live.append(c)
    ops += ["adv 500", "settle", "probe views"]
    c += 1
    ops += ["arrive %d inner=0:ok" % c, "poll %d" % c, "probe views"]
    return {"header": header(d), "ops": ops}


def _other(rng):
    """more traffic for a second service made from the same layer"""
    r = rng.random()
    if r < 0.5:
        return gen_conc(rng, "quick", halfopen_bias=rng.random() < 0.5)
    if r < 0.75:
        return gen_health(rng, "quick")
    return gen_seq_short(rng)


def gen_seq_short(rng):
    case = gen_seq(rng, "quick")
    return dict(case, ops=case["ops"][:60])


def gen_c03(rng, tier):
    r = rng.random()
    if r < 0.12:
        case = gen_pending_fallback(rng, tier, halfopen=rng.random() < 0.25)
    elif r < 0.22:
        return finalize(rng, early_overrides(rng, gen_us(rng, tier)), gen_other=_other)
    elif r < 0.34:
        case = gen_health(rng, tier)
    elif r < 0.46:
        case = gen_unready(rng, tier, halfopen=rng.random() < 0.25)
    elif r < 0.50:
        return finalize(rng, gen_preset(rng, tier), gen_other=_other)
    else:
        case = gen_conc(rng, tier) if r < 0.88 else gen_seq(rng, tier)
    if rng.random() < 0.1:
        case = scale_us(rng, case)
    return finalize(rng, early_overrides(rng, case), gen_other=_other)


def _other_seq(rng):
    return gen_seq_short(rng) if rng.random() < 0.7 else gen_health(rng, "quick", sequential=True)


def gen_c04(rng, tier):
    r = rng.random()
    if r < 0.20:
        return finalize(rng, gen_boundary(rng, tier), gen_other=_other_seq)
    if r < 0.30:
        return finalize(rng, early_overrides(rng, gen_us(rng, tier)), gen_other=_other_seq)
    if r < 0.38:
        return finalize(rng, gen_preset(rng, tier), gen_other=_other_seq)
    if r < 0.47:
        return finalize(rng, early_overrides(rng, gen_health(rng, tier, sequential=True)), gen_other=_other_seq)
    if r < 0.59:
        # "… the failure rate or the enabled slow-call rate over the sliding window reaches its threshold": by expiry
        return finalize(rng, early_overrides(rng, gen_expiry(rng, tier)), gen_other=_other_seq)
    if r < 0.67:
        # "half-open to closed after permitted successes and back to open on any failure" with the trial calls in flight
        # together and more callers arriving meanwhile: whether the inner service is invoked is part of the observable state
        case = gen_episodes(rng, tier) if rng.random() < 0.4 else gen_conc(rng, tier, halfopen_bias=True)
        return finalize(rng, early_overrides(rng, case), gen_other=_other)
    return finalize(rng, early_overrides(rng, gen_seq(rng, tier)), gen_other=_other_seq)


def gen_stale_trial(rng, tier):
    """a trial admitted in one half-open episode is still in flight when the breaker re-opens and half-opens again;
    the later episode is filled; only then is the old trial cancelled (or completes) — it must not free a slot"""
    d = gen_cfg(rng, "conc")
    d["size"] = rng.choice([1, 2, 3])
    d.pop("min", None)
    d.pop("slow", None)
    d.pop("sr", None)
    d["fr"] = rng.choice(["1/2", "1/1"])
    p = d["permitted"] = rng.choice([1, 2, 2, 3])
    if d["wait"] == "max":
        d["wait"] = 50
    w = d["wait"]
    ops = ["manual force_open", "adv %d" % w]
    c = 1
    old = []
    for _ in range(rng.randint(1, max(1, p - 1)) if p > 1 else 1):
        ops += ["arrive %d inner=%s" % (c, rng.choice(["0:never", "5000:ok", "5000:err1"])), "poll %d" % c]
        old.append(c)
        c += 1
    if p > 1 and rng.random() < 0.7:
        ops += ["arrive %d inner=0:err1" % c, "poll %d" % c]       # a failing trial re-opens the breaker
        c += 1
    else:
        ops.append("manual force_open")
    if rng.random() < 0.3:
        ops.append("probe views")
    ops.append("adv %d" % rng.choice([w, w, w + 1]))
    fill = []
    for _ in range(p):
        ops += ["arrive %d inner=%s" % (c, rng.choice(["500:ok", "500:ok", "0:never"])), "poll %d" % c]
        fill.append(c)
        c += 1
    for x in old:
        r = rng.random()
        if r < 0.6:
            ops.append("drop %d" % x)
        elif r < 0.8:
            ops += ["adv 1", "poll %d" % x]
    for _ in range(rng.randint(1, 3)):
        ops += ["arrive %d inner=%s" % (c, rng.choice(["500:ok", "0:ok"])), "poll %d" % c]
        c += 1
    if rng.random() < 0.5:
        ops += ["drop %d" % rng.choice(fill), "arrive %d inner=0:ok" % c, "poll %d" % c]
        c += 1
    ops += ["adv 500", "settle", "probe views"]
    return {"header": header(d), "ops": ops}


def gen_episodes(rng, tier):
    """several half-open episodes in one history. In each earlier episode some trials are admitted and stay in flight
    ("leftovers"); the episode is ended in the middle by an operator (`reset`, `force_closed`, `force_open`) or by a
    failing trial; the breaker is tripped again (failures or force_open) and half-opens again. In the last episode all
    `permitted` slots are taken by trials that stay in flight; only then are the leftovers of the earlier episodes
    dropped (some with a caller arriving during their tear-down) or completed, each followed by a late caller: a
    leftover holds no slot of the current episode, so nothing it does may admit anybody. Finally a trial of the current
    episode is dropped (again possibly with an arrival during its tear-down: still rejected) and the next caller gets
    its slot."""
    d = gen_cfg(rng, "conc")
    size = d["size"] = rng.choice([1, 2, 3])
    d.pop("min", None)
    d.pop("slow", None)
    d.pop("sr", None)
    d["fr"] = rng.choice(["1/2", "1/1"])
    p = d["permitted"] = rng.choice([1, 1, 2, 2, 3])
    if d["wait"] == "max":
        d["wait"] = 50
    w = d["wait"]
    ops = []
    c = [0]
    state = ["closed"]

    def arrive(inner, poll=True):
        c[0] += 1
        tag = " tag=%d" % (2 * rng.randint(0, 4)) if d["cls"] == 2 else ""      # even tags: `ok` is a success for every classifier
        ops.append("arrive %d inner=%s%s%s" % (c[0], inner, tag, fbscript(rng, d, 0.3)))
        if poll:
            ops.append("poll %d" % c[0])
        return c[0]

    def trip():
        if state[0] == "closed":
            if rng.random() < 0.6:
                for _ in range(size):
                    arrive("0:err1")        # a failure for every classifier; `size` of them fill the window at rate 1
            else:
                ops.append("manual force_open")
        state[0] = "open"
        ops.append("adv %d" % rng.choice([w, w, w + 1]))

    leftovers = []
    for _ in range(rng.choice([1, 1, 1, 2, 2, 3])):
        trip()
        j = rng.randint(1, p)
        for _ in range(j):
            leftovers.append(arrive(rng.choice(["0:never", "5000:ok", "5000:err1", "700:ok"])))
        if rng.random() < 0.3:
            ops.append("probe views")
        ends = ["reset", "reset", "force_closed", "force_open"] + (["fail", "fail"] if j < p else [])
        end = rng.choice(ends)
        if end == "fail":
            arrive("0:err1")                # a failing trial re-opens the breaker
            state[0] = "open"
        else:
            ops.append("manual " + end)
            state[0] = "open" if end == "force_open" else "closed"
        if state[0] == "closed" and rng.random() < 0.3:
            arrive(rng.choice(["0:ok", "300:ok"]))      # ordinary traffic while closed
    trip()
    fill = [arrive(rng.choice(["500:ok", "500:ok", "0:never"])) for _ in range(p)]
    rng.shuffle(leftovers)
    for x in leftovers:
        r = rng.random()
        if r < 0.65:
            if rng.random() < 0.5:
                c[0] += 1
                ops.append(ondrop(rng, d, x, c[0], 0.2))
            ops.append("drop %d" % x)
        elif r < 0.8:
            ops += ["adv 1", "poll %d" % x]
        else:
            continue
        for _ in range(rng.randint(1, 2)):
            arrive(rng.choice(["500:ok", "0:ok"]))      # late caller: every slot is taken by a live trial
    if rng.random() < 0.7:
        x = rng.choice(fill)
        if rng.random() < 0.6:
            c[0] += 1
            ops.append(ondrop(rng, d, x, c[0], 0.2))    # arrives during the tear-down of a trial of THIS episode: slot still held
        ops.append("drop %d" % x)
        arrive(rng.choice(["500:ok", "0:ok"]))          # after the tear-down: gets the slot
        arrive("0:ok")
    ops += ["adv %d" % rng.choice([500, 700, 5000]), "settle", "probe views"]
    return {"header": header(d), "ops": ops}


def gen_c09(rng, tier):
    r = rng.random()
    if r < 0.1:
        case = gen_stale_trial(rng, tier)
    elif r < 0.3:
        case = gen_episodes(rng, tier)
    elif r < 0.36:
        case = gen_pending_fallback(rng, tier, halfopen=True)
    elif r < 0.42:
        case = gen_unready(rng, tier, halfopen=True)
    elif r < 0.46:
        case = gen_health(rng, tier)
    elif r < 0.50:
        return finalize(rng, gen_preset_halfopen(rng, tier), gen_other=_other)
    else:
        case = gen_conc(rng, tier, halfopen_bias=True) if r < 0.88 else gen_conc(rng, tier)
    if rng.random() < 0.1:
        case = scale_us(rng, case)
    return finalize(rng, early_overrides(rng, case), gen_other=_other)


# ----------------------------------------------------------------------------- monitors

def _wait_of(cfg):
    w = cfg.get("wait", "1000")
    return 10 ** 30 if w == "max" else int(w)


def _wdur_of(cfg):
    """`wdur=max`: sliding_window_duration(Duration::MAX) — no recorded outcome ever leaves the window"""
    w = cfg.get("wdur", "1000")
    return 10 ** 30 if w == "max" else int(w)


def frac(s, d):
    a, b = (s or d).split("/")
    return int(a), int(b)


# ----------------------------------------------------------------------------- several services made from one layer
#
# Every `layer()` call makes a breaker of its own. The monitors state their clauses per breaker: the log of a case with
# `svc=` operations is split into one log per service and every monitor runs on each of them. A line belongs to the service of
# its caller (`arrive c … svc=k`, `manual ondrop … by=c2 … svc=k`), `manual` / `probe` lines say ` svc=k` themselves, a
# `transition` line (the listener is registered on the builder: one closure for all services) belongs to the operation that
# caused it — the `manual` line (override, `yield`) or the `inner_done` just before it, else the admission right after it.

def split_services(case, lines, meta):
    """None for a single-service case; else {svc: (lines, meta)} with the meta positions remapped"""
    if not any(" svc=" in o for o in case["ops"]):
        return None
    owner = {}
    for o in case["ops"]:
        w = o.split()
        if w[0] == "arrive":
            owner[w[1]] = kvs(o).get("svc", "0")
        elif w[:2] == ["manual", "ondrop"]:
            k = kvs(o)
            owner[k.get("by")] = k.get("svc", "0")
    svc = []
    last_manual = "0"
    for i, l in enumerate(lines):
        _, w = tparse(l)
        if not w:
            svc.append("0")
        elif w[0] in ("manual", "probe"):
            svc.append(kvs(l).get("svc", "0"))
            last_manual = svc[-1]
        elif w[0] == "manual_blocked":
            svc.append(last_manual)
        elif w[0] == "transition":
            svc.append(None)
        else:
            svc.append(owner.get(w[1] if len(w) > 1 else "", "0"))
    state = {}          # per service: the state its own transitions have led to
    for i, l in enumerate(lines):
        if svc[i] is not None:
            continue
        _, w = tparse(l)
        _, pw = tparse(lines[i - 1]) if i > 0 else (None, [])
        if w[2] != "halfopen" and i > 0 and pw and pw[0] in ("manual", "inner_done", "transition"):
            # an override / a scheduled health signal / a recorded outcome: the line just before it
            k = svc[i - 1]
        else:
            # open -> half-open happens in the admission of the caller whose inner call follows
            j = i + 1
            while j < len(lines) and svc[j] is None:
                j += 1
            k = svc[j] if j < len(lines) else "0"
        if state.get(k, "closed") != w[1]:
            others = [x for x in set(svc) - {None, k} if state.get(x, "closed") == w[1]]
            if len(others) == 1:
                k = others[0]
        svc[i] = k
        state[k] = w[2]
    parts = {}
    index = []          # per original line: (svc, position in that service's log)
    for i, l in enumerate(lines):
        ls, _ = parts.setdefault(svc[i], ([], []))
        index.append((svc[i], len(ls)))
        ls.append(l)
    for pos, m in meta or ():
        mw = m.split()
        k = owner.get(mw[1], "0") if len(mw) > 1 and mw[0] not in ("#slow", "#unwoken_progress") else (svc[pos - 1] if 0 < pos <= len(lines) else "0")
        if k not in parts:
            parts[k] = ([], [])
        if pos < 0:
            npos = -1
        else:
            npos = len(parts[k][0])
            for q in range(pos, len(lines)):
                if index[q][0] == k:
                    npos = index[q][1]
                    break
        parts[k][1].append((npos, m))
    return parts


def per_service(mon):
    def f(case, lines, meta):
        parts = split_services(case, lines, meta)
        if parts is None:
            return mon(case, lines, meta)
        for k in sorted(parts):
            r = mon(case, parts[k][0], parts[k][1])
            if r:
                return "service %s of the layer: %s" % (k, r)
        return None
    f.__doc__ = mon.__doc__
    return f


def views_agree(l):
    """one `probe views` line: the async view, the lock-free view, `is_open()`, the metrics snapshot, `http_status()` and
    `health_status()` must all tell the same state"""
    kv = kvs(l)
    st = kv.get("state")
    want = {"sync": st, "mstate": st, "is_open": "1" if st == "open" else "0"}
    if "http" in kv:
        want["http"] = "503" if st == "open" else "200"
        want["health"] = {"closed": "healthy", "halfopen": "degraded", "open": "unhealthy"}.get(st)
    bad = [k for k, v in want.items() if kv.get(k) != v]
    if bad:
        return "state()=%s but %s" % (st, ", ".join("%s=%s" % (k, kv.get(k)) for k in bad))
    return None


def _override(word, pend):
    """what a `manual <word>` line does to the breaker: a list of 'open' / 'closed' (forced transitions, in order); health
    signals only queue a task (`pend`), `yield` runs the queued ones"""
    if word == "force_open":
        return ["open"]
    if word in ("force_closed", "reset"):
        return ["closed"]
    if word == "trigger_unhealthy":
        pend.append("open")
    elif word == "trigger_healthy":
        pend.append("closed")
    elif word == "yield":
        did = list(pend)
        del pend[:]
        return did
    return []


def mon_c03(case, lines, meta):
    """no inner call starts between an observed transition to open at t0 and min(t0+wait, next transition)"""
    cfg = cfgof(case)
    wait = _wait_of(cfg)
    open_since = None
    for i, l in enumerate(lines):
        t, w = tparse(l)
        if not w:
            continue
        if w[0] == "transition":
            open_since = t if w[2] == "open" else None
        elif w[0] == "inner_call" and open_since is not None:
            return "line %d: inner call %s started at t=%d while the breaker has been open since t=%d (wait_duration_in_open=%d, no transition in between)" % (
                i, w[1], t, open_since, wait)
        elif w[0] == "probe" and open_since is not None:
            if "sync=open" not in l or "state=open" not in l:
                return "line %d: views disagree with the observed open state: %s" % (i, l)
    # a transition out of open that is not manual must not happen before t0+wait
    by_operator = False         # the lines since the last `manual` line are all transitions (an override, or `yield` running health tasks)
    t_open = None
    for i, l in enumerate(lines):
        t, w = tparse(l)
        if not w:
            continue
        if w[0] == "transition":
            if w[1] == "open" and t_open is not None and t < t_open + wait:
                if not by_operator:
                    return "line %d: left the open state at t=%d, opened at t=%d, wait=%d, without a manual override" % (i, t, t_open, wait)
            t_open = t if w[2] == "open" else None
        else:
            by_operator = w[0] == "manual"
    return _c03_lockfree(lines, wait) or _c03_unheard(lines, wait)


def _c03_lockfree(lines, wait):
    """"observed open" through the lock-free view: once `state_sync()` / `is_open()` / `http_status()` have reported open, the
    breaker has been open since some instant t_open >= the last instant at which it was demonstrably NOT open (a new breaker, a
    probe saying otherwise, an admitted call, force_closed / reset): until t_open + wait no new call may reach the wrapped
    service unless an operator (or a scheduled health signal) closes it first. Needs no listener."""
    not_open_at = 0
    seen_open = None
    for i, l in enumerate(lines):
        t, w = tparse(l)
        if not w:
            continue
        if w[0] == "probe" and len(w) > 1 and w[1] != "blocked":
            kv = kvs(l)
            if kv.get("sync") == "open" or kv.get("is_open") == "1" or kv.get("http") == "503":
                if seen_open is None:
                    seen_open = t
            else:
                seen_open, not_open_at = None, t
        elif w[0] == "manual":
            if w[1] in ("force_closed", "reset", "yield"):
                seen_open = None
                if w[1] != "yield":
                    not_open_at = t
        elif w[0] == "transition":
            seen_open = None
            if w[2] != "open":
                not_open_at = t
        elif w[0] == "inner_call":
            if seen_open is not None and t - not_open_at < wait:
                return ("line %d: inner call %s started at t=%d although the lock-free view (state_sync / is_open / http_status) reported the breaker "
                        "open at t=%d; it cannot have opened before t=%d, wait_duration_in_open=%d has not elapsed and nothing closed it in "
                        "between" % (i, w[1], t, seen_open, not_open_at, wait))
            seen_open, not_open_at = None, t
    return None


def _c03_unheard(lines, wait):
    """the same clause without listening to the breaker's events: a breaker known to be closed (a new one, or after
    force_closed() / reset(), as long as no outcome has been recorded since) that is forced open at t0 is open from exactly t0:
    until t0 + wait no call may reach the wrapped service unless an override closes it first. Outcomes recorded by an open breaker
    (calls admitted before it opened) change nothing."""
    known = "closed"
    t0 = 0
    pend = []
    for i, l in enumerate(lines):
        t, w = tparse(l)
        if not w:
            continue
        if w[0] == "manual":
            for what in _override(w[1], pend):
                if what == "open":
                    if known == "closed":
                        known, t0 = "open", t
                    elif known != "open":
                        known = None
                else:
                    known = "closed"
        elif w[0] == "inner_done" and known == "closed" and w[3] != "panic":
            known = None
        elif w[0] == "inner_call" and known == "open":
            if t - t0 < wait:
                return ("line %d: inner call %s started at t=%d, but the breaker was forced open at t=%d (it was closed until then) and "
                        "wait_duration_in_open=%d has not elapsed; no override in between" % (i, w[1], t, t0, wait))
            known = None
        elif w[0] == "probe" and known == "open" and t - t0 < wait:
            if "sync=open" not in l or "state=open" not in l:
                return "line %d: forced open at t=%d (wait %d), views at t=%d disagree: %s" % (i, t0, wait, t, l)
    return None


def mon_at_once(case, lines, meta):
    """"answered at once": (a) a caller's first poll either reaches the inner service, or answers it (open-circuit error),
    or invokes its fallback — in that very poll, whatever other callers' fallbacks are doing; (b) state()/metrics()/
    force_open()/force_closed()/reset() complete at once (the harness is single threaded: if one of them has to wait,
    the breaker's mutex is being held across somebody's await)"""
    for i, l in enumerate(lines):
        t, w = tparse(l)
        if not w:
            continue
        if w[0] == "probe" and len(w) > 1 and w[1] == "blocked":
            return "line %d: state()/metrics() did not complete at t=%d: the breaker's lock is held across an await (by a pending fallback?)" % (i, t)
        if w[0] == "manual_blocked":
            return "line %d: %s() did not complete at t=%d: the breaker's lock is held across an await (by a pending fallback?)" % (i, w[1], t)
    for j, (pos, m) in enumerate(meta):
        w = m.split()
        if w[0] != "#fp" or pos < 0:
            continue
        c = w[1]
        end = len(lines)
        if j + 1 < len(meta) and meta[j + 1][0] >= 0:
            end = meta[j + 1][0]
        got = None
        for l in lines[pos:end]:
            _, x = tparse(l)
            if x and x[0] != "transition":
                got = x
                break
        if got is None or len(got) < 2 or got[1] != c or got[0] not in ("inner_call", "fallback_call", "result"):
            return ("caller %s, first polled at t=%s, was neither admitted nor rejected nor handed to its fallback in that poll "
                    "(next event: %s): it is waiting for something inside the breaker" % (c, w[2], " ".join(got) if got else "none"))
    return None


class Spec:
    """the documented state machine (reference implementation, independent of the Lean model)"""

    def __init__(self, cfg):
        self.count = cfg.get("wtype", "count") != "time"
        self.size = int(cfg.get("size", "10"))
        self.wdur = _wdur_of(cfg)
        self.min = int(cfg.get("min", self.size))
        self.fr = frac(cfg.get("fr"), "1/2")
        self.slow = int(cfg["slow"]) if "slow" in cfg else None
        self.sr = frac(cfg.get("sr"), "1/1")
        self.wait = _wait_of(cfg)
        self.permitted = int(cfg.get("permitted", "1"))
        self.cls = int(cfg.get("cls", "0"))
        self.state = "closed"
        self.since = 0
        self.window = []      # (t, fail, slow)
        self.succ = 0
        self.why = ""         # why it last opened by itself
        self.notes = []       # coverage: evaluations at / one below the exact boundary
        self.pend = []        # health signals given, their tasks not yet scheduled

    def goto(self, s, t):
        if s != self.state:
            self.state = s
            self.since = t
            self.window = []
            self.succ = 0
            return True
        return False

    def view(self, t, prune):
        if self.count:
            return self.window[-max(self.size, 1):]
        return [r for r in self.window if t - r[0] <= self.wdur] if prune else self.window

    def record(self, t, fail, dur):
        slow = self.slow is not None and dur >= self.slow
        before = None
        if self.count:
            self.window = (self.window + [(t, fail, slow)])[-max(self.size, 1):]
        else:
            before = self.window + [(t, fail, slow)]
            self.window = [r for r in self.window if t - r[0] <= self.wdur] + [(t, fail, slow)]
        if self.state == "halfopen":
            if fail:
                self.goto("open", t)
            else:
                self.succ += 1
                if self.succ >= self.permitted:
                    self.goto("closed", t)
            return
        win = self.view(t, True)
        if not self.count:
            self.window = win
        n = len(win)
        # coverage (time-based windows): what the expiry of old records did to this evaluation. `would` = the verdict had
        # nothing expired; `evaluable` = the minimum was in the window already before this call was recorded
        would = evaluable = False
        if before is not None and len(before) > n:
            n0 = len(before)
            would = n0 >= self.min and (sum(1 for r in before if r[1]) * self.fr[1] >= self.fr[0] * n0 or
                                        (self.slow is not None and sum(1 for r in before if r[2]) * self.sr[1] >= self.sr[0] * n0))
            evaluable = n0 - 1 >= self.min
            self.notes.append("expiry-partial" if n > 1 else "expiry-total")
            if n < self.min and would:
                self.notes.append("expiry-drops-below-minimum")
        if n < self.min or (self.count and n < self.size) or n == 0:
            return
        f = sum(1 for r in win if r[1])
        s = sum(1 for r in win if r[2])
        byf = f * self.fr[1] >= self.fr[0] * n
        bys = self.slow is not None and s * self.sr[1] >= self.sr[0] * n
        if before is not None and len(before) > n:
            if (byf or bys) and not would:
                # the threshold is reached by expiry, not by the outcome being recorded: the rate that trips is one this
                # call does not add to (a success for the failure rate, a fast call for the slow-call rate)
                quiet = (byf and not fail) or (bys and not slow and not byf)
                self.notes.append("expiry-trips-on-%s%s" % (
                    ("success" if byf else "fast-call") if quiet else ("failure" if byf else "slow-call"), "-evaluable-before" if evaluable and quiet else ""))
            elif would and not (byf or bys):
                self.notes.append("expiry-averts-trip")
        if byf or bys:
            eqf = byf and f * self.fr[1] == self.fr[0] * n
            eqs = bys and s * self.sr[1] == self.sr[0] * n
            if (eqf and not (bys and not eqs)) or (eqs and not (byf and not eqf)):
                self.notes.append("trip-rate-equals-threshold" if n >= 10 else "trip-rate-equals-threshold-small")
            self.why = ("the documented machine opened at t=%d: %s in a window of %d calls" % (
                t, " and ".join((["failure rate %d/%d %s threshold %d/%d" % (f, n, "EQUALS" if eqf else "above", self.fr[0], self.fr[1])] if byf else []) +
                                (["slow-call rate %d/%d %s threshold %d/%d" % (s, n, "EQUALS" if eqs else "above", self.sr[0], self.sr[1])] if bys else [])), n))
            self.goto("open", t)
        elif n >= 10 and ((f + 1) * self.fr[1] >= self.fr[0] * n or (self.slow is not None and (s + 1) * self.sr[1] >= self.sr[0] * n)):
            self.notes.append("closed-one-below-threshold")

    def admit(self, t):
        if self.state == "open":
            if t - self.since >= self.wait:
                self.goto("halfopen", t)
                return True
            return False
        return True    # half-open admission is C09's business


def classify(cls, out, tag):
    if cls == 0:
        return out.startswith("err")
    if cls == 1:
        return out == "err1"
    return out.startswith("err") or (out == "ok" and tag % 2 == 1)


def mon_c04(case, lines, meta):
    """sequential histories: the observable state follows the documented machine, all views agree"""
    for i, l in enumerate(lines):
        _, w = tparse(l)
        if w and w[0] == "probe" and len(w) > 1 and w[1] != "blocked":
            bad = views_agree(l)
            if bad:
                return "line %d: the views of the breaker disagree with each other: %s (%s)" % (i, bad, l)
    return _run_c04(case, lines, Spec(cfgof(case))) or _slow_listener(case, lines, meta)


def _slow_listener(case, lines, meta):
    """`on_slow_call`: called exactly for the recorded calls that lasted at least slow_call_duration_threshold, with that duration"""
    cfg = cfgof(case)
    if "lis:slow" not in kvs(case["header"]).get("chain", ""):
        return None
    S = int(cfg["slow"]) if "slow" in cfg else None
    told = {}
    for pos, m in meta or ():
        mw = m.split()
        if mw[0] == "#slow" and pos >= 0:
            told.setdefault(pos, []).append(int(mw[1]))
    start = {}
    for i, l in enumerate(lines):
        t, w = tparse(l)
        if not w:
            continue
        if w[0] == "inner_call":
            start[w[2]] = t
        elif w[0] == "inner_done" and w[3] != "panic" and w[2] in start:
            dur = t - start.pop(w[2])
            got = told.pop(i + 1, [])
            want = [dur] if S is not None and dur >= S else []
            if got != want:
                return "line %d: call %s lasted %d (slow_call_duration_threshold=%s): on_slow_call was called with %s, expected %s" % (i, w[1], dur, S, got, want)
    if told:
        return "on_slow_call was called where no call completed: %s" % sorted(told.items())[:3]
    return None


def _run_c04(case, lines, sp):
    tags = {}
    for o in case["ops"]:
        w = o.split()
        if w[0] == "arrive":
            k = kvs(o)
            tags[w[1]] = int(k.get("tag", w[1]))
    start = {}
    for i, l in enumerate(lines):
        t, w = tparse(l)
        if not w:
            continue
        if w[0] == "inner_call":
            if len(start) > 0:
                sp.notes = []
                return None   # not a sequential history: outside this monitor's quantifier
            start[w[1]] = t
            if not sp.admit(t) or (sp.state == "open"):
                sp.notes = []
                return "line %d: call %s reached the inner service although the documented machine is open (since t=%d)%s" % (
                    i, w[1], sp.since, "; " + sp.why if sp.why else "")
        elif w[0] == "inner_done":
            if w[3] in ("panic",):
                start.pop(w[1], None)
                continue
            fail = classify(sp.cls, w[3], tags.get(w[1], 0))
            sp.record(t, fail, t - start.pop(w[1], t))
        elif w[0] == "inner_drop":
            start.pop(w[1], None)
        elif (w[0] == "result" and w[2] == "err:open") or w[0] == "fallback_call":
            # a rejection (decided when the fallback is invoked — its value may arrive much later): the documented
            # machine must be open (or half-open with its trials used up)
            if sp.state == "closed":
                return "line %d: call %s rejected while the documented machine is closed" % (i, w[1])
            if sp.state == "open" and t - sp.since >= sp.wait:
                return "line %d: call %s rejected although wait_duration_in_open has elapsed (open since %d, now %d)" % (i, w[1], sp.since, t)
        elif w[0] == "manual":
            for what in _override(w[1], sp.pend):
                sp.why = ""
                sp.goto(what, t)
            if w[1] == "reset":
                sp.window = []
        elif w[0] == "probe":
            kv = kvs(l)
            exp = sp.state
            got = (kv.get("state"), kv.get("sync"), kv.get("mstate"))
            if got != (exp, exp, exp) or kv.get("is_open") != ("1" if exp == "open" else "0"):
                return "line %d: documented machine is %s, views report state=%s sync=%s metrics=%s is_open=%s%s" % (
                    i, exp, got[0], got[1], got[2], kv.get("is_open"), "; " + sp.why if exp == "open" and sp.why else "")
            win = sp.view(t, False)
            n, f, s = len(win), sum(1 for r in win if r[1]), sum(1 for r in win if r[2])
            if sp.state == "closed" and (int(kv["total"]), int(kv["fail"]), int(kv["slow"])) != (n, f, s):
                if sp.count or all(t - r[0] <= sp.wdur for r in sp.window):
                    return "line %d: window of the documented machine has total=%d fail=%d slow=%d, metrics report %s/%s/%s" % (
                        i, n, f, s, kv["total"], kv["fail"], kv["slow"])
    return None


def mon_c09(case, lines, meta):
    """per half-open episode: trial calls that reached the inner service and were not cancelled <= permitted. A cancelled
    trial counts until its inner call has been destroyed (`inner_drop` is logged at the end of that destructor), so a
    caller admitted during the tear-down (`#ondrop`) is in the wrapped service together with the cancelled one."""
    cfg = cfgof(case)
    permitted = int(cfg.get("permitted", "1"))
    teardown = {}       # caller that arrived from inside the destructor of a cancelled call -> that call's caller
    for _, m in meta or ():
        mw = m.split()
        if mw[0] == "#ondrop":
            teardown[mw[2]] = mw[1]
    in_half = False
    trials = set()      # serials of trial calls of this episode, not cancelled
    older = set()       # serials of calls started before this episode, still in flight
    flying = set()
    hint = ""
    for i, l in enumerate(lines):
        t, w = tparse(l)
        if not w:
            continue
        if w[0] == "transition":
            in_half = (w[2] == "halfopen")
            trials = set()
            older = set(flying)
            hint = ""
        elif w[0] == "inner_call":
            flying.add(w[2])
            if in_half:
                trials.add(w[2])
                if len(trials) > max(permitted, 1):
                    if w[1] in teardown:
                        hint = "; caller %s arrived during the tear-down of the cancelled call of caller %s, which had not yet left the wrapped service" % (w[1], teardown[w[1]])
                    return "line %d: %d trial calls reached the inner service in one half-open episode (permitted_calls_in_half_open=%d)%s" % (
                        i, len(trials), permitted, hint)
        elif w[0] == "inner_drop" or w[0] == "inner_done":
            flying.discard(w[2])
            if w[0] == "inner_drop" or w[3] == "panic":
                trials.discard(w[2])
            if w[0] == "inner_drop" and in_half and w[2] in older:
                hint = "; the last call cancelled before that (caller %s, serial %s at t=%d) had been admitted before this episode began and held none of its slots" % (w[1], w[2], t)
            older.discard(w[2])
    return _c09_unheard(lines, permitted)


def _c09_unheard(lines, permitted):
    """the same clause without listening to the breaker's events (a breaker built without any listener logs no transition):
    after `force_open()` — or a `state()` probe answering open — the breaker stays open until a call is admitted (whatever
    completes meanwhile is recorded by an open breaker and changes nothing); the first call admitted after that begins a
    half-open episode, and as long as no call has completed and no override was issued the episode cannot have been
    decided: the calls admitted since, minus those cancelled, are trials of that one episode"""
    phase = None            # None: unknown; "open"; "half"
    trials = set()
    t0 = 0
    pend = []
    for i, l in enumerate(lines):
        t, w = tparse(l)
        if not w:
            continue
        if w[0] == "manual":
            for what in _override(w[1], pend):
                phase, trials = ("open" if what == "open" else None), set()
                t0 = t
        elif w[0] == "probe" and phase is None and "state=open" in l:
            phase, trials, t0 = "open", set(), t
        elif w[0] == "inner_call" and phase is not None:
            phase = "half"
            trials.add(w[2])
            if len(trials) > max(permitted, 1):
                return ("line %d: %d calls admitted since the breaker was seen open at t=%d are inside the wrapped service together, none of them "
                        "cancelled, no call completed and no override issued since the first of them was admitted: %d trial calls in one "
                        "half-open episode (permitted_calls_in_half_open=%d)" % (i, len(trials), t0, len(trials), permitted))
        elif w[0] == "inner_drop":
            trials.discard(w[2])
        elif w[0] == "inner_done":
            if w[3] == "panic":
                trials.discard(w[2])
            elif phase == "half":
                phase, trials = None, set()
    return None


def transitions(case, lines, meta=()):
    tags = []
    pending = set()       # callers whose fallback has been invoked and has not finished
    called_now = set()    # … invoked by the previous line (a result right after it = finished at once)
    # arrivals during the tear-down of a cancelled call (`manual ondrop`): what happened to the arriving caller
    for pos, m in meta or ():
        mw = m.split()
        if mw[0] != "#ondrop" or pos < 0:
            continue
        for l in lines[pos:]:
            _, x = tparse(l)
            if x and len(x) > 1 and x[1] == mw[2] and x[0] in ("inner_call", "fallback_call", "result"):
                tags.append("teardown-arrival-" + ("admitted" if x[0] == "inner_call" else "rejected"))
                break
    # half-open episodes: leftovers of earlier episodes, operator overrides in the middle of an episode
    ntr = 0
    state = "closed"
    born = {}             # serial of a call in flight -> (number of transitions seen when it started, trial?)
    for l in lines:
        _, w = tparse(l)
        if not w:
            continue
        if w[0] == "transition":
            ntr += 1
            state = w[2]
        elif w[0] == "inner_call":
            born[w[2]] = (ntr, state == "halfopen")
        elif w[0] in ("inner_drop", "inner_done") and w[2] in born:
            b, trial = born.pop(w[2])
            if trial and state == "halfopen":
                full = sum(1 for bb, tt in born.values() if tt and bb == ntr) >= int(cfgof(case).get("permitted", "1"))
                if b != ntr:
                    tags.append("leftover-%s%s" % ("dropped" if w[0] == "inner_drop" else "completed", "-while-full" if full else ""))
                elif w[0] == "inner_drop":
                    tags.append("trial-dropped")
        elif w[0] == "manual" and state == "halfopen" and any(tt and bb == ntr for bb, tt in born.values()):
            tags.append("manual-%s-midepisode" % w[1])
    sp = Spec(cfgof(case))
    multi = any(" svc=" in o for o in case["ops"])
    if not multi and _run_c04(case, lines, sp) is None:
        tags += sorted(set(sp.notes))        # sequential histories: evaluations exactly at / one below a threshold
    tags += build_tags(case, lines, multi)
    for l in lines:
        _, w = tparse(l)
        if not w:
            continue
        if w[0] == "transition":
            tags.append("tr-%s-%s" % (w[1], w[2]))
        elif w[0] == "result":
            tags.append("result-" + ("open" if w[2] == "err:open" else "fallback" if "fallback" in w[2] else w[2].split(":")[0]))
        elif w[0] == "inner_drop":
            tags.append("inner_drop")
        elif w[0] == "manual":
            tags.append("manual-" + w[1])
            if pending:
                tags.append("manual-during-pending-fallback")
        elif w[0] == "probe" and pending:
            tags.append("probe-during-pending-fallback")
        elif w[0] == "inner_done" and pending:
            tags.append("record-during-pending-fallback")
        elif w[0] == "inner_call" and pending:
            tags.append("admit-during-pending-fallback")
        if w[0] == "fallback_call":
            if pending:
                tags.append("reject-during-pending-fallback")
            pending.add(w[1])
        elif w[0] == "result":
            if w[1] in pending and w[1] not in called_now:
                tags.append("fallback-late-" + ("ok" if "fallback" in w[2] else "panic" if w[2] == "panic" else "err"))
            elif w[2] == "err:open" and pending:
                tags.append("reject-during-pending-fallback")
            pending.discard(w[1])
        elif w[0] == "fallback_drop":
            tags.append("fallback_drop")
            pending.discard(w[1])
        called_now = {w[1]} if w[0] == "fallback_call" else set()
    return tags


def build_tags(case, lines, multi):
    """coverage of the construction / operation dimensions: how the breaker was built, health signals, readiness, services"""
    tags = []
    k = kvs(case["header"])
    if "preset" in k:
        tags.append("preset-" + k["preset"])
    if "via" in k:
        tags.append("via-" + k["via"])
    if "chain" in k:
        items = k["chain"].split(",")
        tags.append("chain")
        keys = [x.split(":")[0] for x in items]
        for c in ("cls", "clsr"):
            if c in keys and "size" in keys:
                tags.append("chain-%s-%s-size" % (c, "before" if keys.index(c) < len(keys) - 1 - keys[::-1].index("size") else "after"))
        if "min" not in keys:
            tags.append("chain-default-minimum")
        if len(set(keys)) < len(keys):
            tags.append("chain-overridden-setter")
    if any(" sync=" in l and tparse(l)[1][:1] == ["transition"] for l in lines):
        tags.append("listener-reads-lockfree-view")
    if multi:
        tags.append("services-several")
    if any(" h=" in o for o in case["ops"]):
        tags.append("handle-reused")
    pend = 0
    down = False
    fresh_after_down = set()
    for o in case["ops"]:
        w = o.split()
        if w[0] == "arrive" and not down:
            fresh_after_down.add(w[1])
        elif w[0] == "manual" and w[1] in ("inner_down", "inner_fail"):
            down = True
        elif w[0] == "manual" and w[1] == "inner_up":
            down = False
            fresh_after_down = set()
        elif w[0] == "poll" and down and w[1] in fresh_after_down:
            tags.append("first-poll-while-inner-not-ready")
            fresh_after_down.discard(w[1])
        elif w[0] == "poll":
            fresh_after_down.discard(w[1])
    for l in lines:
        _, w = tparse(l)
        if not w:
            continue
        if w[0] == "manual" and w[1].startswith("trigger_"):
            pend += 1
            tags.append("health-" + w[1])
        elif w[0] == "manual" and w[1] == "yield":
            if pend:
                tags.append("health-task-scheduled")
            pend = 0
        elif w[0] == "inner_call" and pend:
            tags.append("admitted-before-health-task-ran")
        elif w[0] == "probe" and pend:
            tags.append("probe-before-health-task-ran")
        elif w[0] == "result" and w[2] == "notready":
            tags.append("result-notready")
        elif w[0] == "result" and w[2] == "err:inner9:0":
            tags.append("result-readiness-error")
        elif w[0] == "manual" and w[1].startswith("inner_"):
            tags.append("manual-" + w[1])
    return tags


def nontrivial(case, lines, tags):
    return sum(1 for t in tags if t.startswith("tr-")) >= 2


ALL_TR = ["tr-closed-open", "tr-open-halfopen", "tr-halfopen-closed", "tr-halfopen-open", "tr-open-closed", "tr-halfopen-closed",
          "result-open", "result-fallback", "result-ok", "result-err", "inner_drop", "manual-reset", "manual-force_open", "manual-force_closed",
          "fallback-late-ok", "fallback-late-err", "fallback-late-panic", "fallback_drop", "reject-during-pending-fallback",
          "admit-during-pending-fallback", "record-during-pending-fallback", "probe-during-pending-fallback", "manual-during-pending-fallback"]

TR_BOUNDARY = ["trip-rate-equals-threshold", "closed-one-below-threshold"]
# time-based windows: old records expire between two recordings (Spec.record)
TR_EXPIRY = ["expiry-partial", "expiry-total", "expiry-trips-on-success-evaluable-before", "expiry-trips-on-fast-call-evaluable-before",
             "expiry-trips-on-failure", "expiry-trips-on-slow-call", "expiry-averts-trip", "expiry-drops-below-minimum"]
TR_BUILD = ["preset-standard", "preset-fast_fail", "preset-tolerant", "preset-fn", "preset-builder", "via-layer", "via-for_request", "via-layer_fn",
            "chain", "chain-cls-before-size", "chain-cls-after-size", "chain-clsr-before-size", "chain-clsr-after-size", "chain-default-minimum",
            "chain-overridden-setter", "services-several", "handle-reused", "health-trigger_unhealthy", "health-trigger_healthy", "health-task-scheduled",
            "admitted-before-health-task-ran", "probe-before-health-task-ran", "listener-reads-lockfree-view"]
TR_READY = ["first-poll-while-inner-not-ready", "result-notready", "result-readiness-error", "manual-inner_down", "manual-inner_up", "manual-inner_fail"]
TR_TEARDOWN = ["teardown-arrival-rejected", "teardown-arrival-admitted"]
TR_EPISODES = ["leftover-dropped-while-full", "leftover-completed-while-full", "trial-dropped",
               "manual-reset-midepisode", "manual-force_open-midepisode", "manual-force_closed-midepisode"]

LEVEL_NOTE = ("Trusted: Lean kernel; the transcription of circuit.rs / lib.rs in TR.Model.Circuit (validated only by the sampled "
              "correspondence check); thresholds are exact rationals num/den (equal to the code's f64 comparison k/n >= fl(num/den): both sides are correctly "
              "rounded values of rationals that differ by >= 1/(n*den); checked by gen.circuit.f64_agrees on every generated threshold and total); "
              "tokio::sync::Mutex is uncontended in the single-threaded harness (each critical section is one model function); the harness "
              "(virtual clock, manual poller) and python diff/monitors.")

COMMON = {
    "group": "circuit",
    "transitions": transitions,
    "nontrivial": nontrivial,
    "all_transitions": ALL_TR,
    "model_modules": ["TR.Model.Circuit", "TR.Lemmas.Circuit", "TR.Lemmas.CircuitState", "TR.Lemmas.CircuitWindow", "TR.Lemmas.CircuitRefine", "TR.Lemmas.CircuitTrace", "TR.Lemmas.CircuitEmbed", "TR.Spec.Breaker"],
    "lean_files": ["TR.Model.Circuit", "TR.Lemmas.Circuit", "TR.Lemmas.CircuitState", "TR.Lemmas.CircuitWindow", "TR.Lemmas.CircuitRefine", "TR.Lemmas.CircuitTrace", "TR.Lemmas.CircuitEmbed", "TR.Spec.Breaker"],
    "sizes": (400, 20000),
    "trusted": ["transcription of Circuit / CircuitBreaker::call / the config builder / health_integration.rs in TR.Model.Circuit (sampled by the correspondence check)",
                "tasks spawned by the health triggers run on a runtime of their own, driven only by `manual yield` (harness/src/mw_circuit.rs: Tasks)",
                "exact-rational threshold comparison = the code's f64 comparison (argument in gen/circuit.py; checked by f64_agrees on every generated threshold/total)",
                "harness: clock_gettime interposition, manual poller; python diff/monitors"],
    "assumptions": ["each critical section under the breaker's mutex is atomic", "usize as unbounded Nat"],
    "level_note": LEVEL_NOTE,
}

SPECS = {
    "C03": dict(COMMON, module="TR.Props.C03", gen=gen_c03, all_transitions=ALL_TR + TR_TEARDOWN + TR_BUILD + TR_READY,
                monitors=[("c03-open-shields", per_service(mon_c03)), ("c03-answered-at-once", per_service(mon_at_once)),
                          ("c03-open-shields-contended", mon_contend)],
                rule="concurrent callers on clones (arrive/poll/drop/adv/settle/manual/probe), opening by failure rate, slow-call rate and "
                     "force_open, advances biased to wait-1/wait/wait+1; fallbacks that are futures of their own (fb=<lat>:<ok|errK|panic|never>) left pending "
                     "while other callers arrive, earlier calls are recorded, views are probed and manual overrides issued; callers arriving from inside the "
                     "destructor of a cancelled call (manual ondrop); health signals (HealthTriggerable::trigger_unhealthy / trigger_healthy, cargo feature "
                     "health-integration) with probes and calls in the window before the spawned task is scheduled (manual yield); the wrapped service losing its "
                     "readiness between poll_ready and the first poll of the call future, the breaker opening, the service coming back (manual inner_down / inner_fail / "
                     "inner_up); 40%: the configuration written as the builder chain itself (setters in any order, classifier setters before / after the window size, "
                     "overridden setters), presets, circuit_breaker_builder(), Layer::layer / layer_fn / for_request; 10%: a second / third service made from the same "
                     "layer value (svc=k); 15%: persistent handles reused for several calls (h=j); 17%: the on_state_transition listener reads state_sync() inside its "
                     "callback and logs it (listen=2 / lis:trs); "
                     "distinct = distinct implementation log; non-trivial = >= 2 state transitions",
                level_text="Theorems TR.Props.C03.*: in every reachable state and for every step, an inner call is started only if the breaker "
                           "was not open before the admission or wait_duration_in_open had elapsed (and it first moved to half-open); a rejected "
                           "caller gets err:open / the fallback is invoked in the same step (whatever other callers' fallbacks are doing) and never an inner call; "
                           "a pending fallback touches nothing of the breaker and no other step depends on it; the lock-free mirror always equals the state; "
                           "a health trigger changes nothing until its task is scheduled and is then exactly the override (so whoever sees the lock-free view open is "
                           "shielded: lockfree_view_open_shields, status_accessors_agree); admission and the start of the inner call are one step whatever the readiness "
                           "of the wrapped service (admitted_call_starts_at_once), a request arriving while it is not ready never reaches the breaker; services made from "
                           "one layer are independent breakers, each a run of the single-breaker model (services_are_independent, open_shields_per_service). "
                           "Trace level (every event-level prefix of every reachable log, Lemmas/CircuitTrace.lean): after a ->open transition event at t0 no inner_call "
                           "event until the next transition event, which leaves open for half-open at >= t0 + wait or for closed right after manual force_closed / reset / "
                           "yield (open_window, open_interval, open_shields_every_prefix, observed_open_has_its_event, log_only_grows); one poll may go open -> half-open -> "
                           "open and does start an inner call, between two transition events (no_inner_call_while_no_transition); calls admitted earlier complete while open "
                           "(running_completes_while_open); a listener reading state_sync() in its callback reads the state being left (listener_sees_state_before_transition)."),
    "C04": dict(COMMON, module="TR.Props.C04", gen=gen_c04, all_transitions=ALL_TR + TR_BOUNDARY + TR_EXPIRY + TR_BUILD,
                monitors=[("c04-documented-machine", per_service(mon_c04)), ("c04-halfopen-trials", per_service(mon_c09)),
                          ("c04-open-shields-contended", mon_contend)],
                rule="sequential histories (length 10..300) over success/failure/slow success/slow failure/wait/force_open/force_closed/reset with "
                     "probe views after every step; both window types; thresholds incl. 0 and 1; min calls below/equal/above the window; three classifiers; "
                     "25%: exact-boundary configurations (thresholds with 2-3 decimals, windows up to 100, count- and time-based, failure and slow-call rate) whose "
                     "window ends exactly at / one below / one above the threshold, directly or by sliding; half of them float-sensitive boundaries (gen.circuit.boundaries); "
                     "12%: time-based windows that roll over their records between calls (gen_expiry): bursts of successes / failures / slow calls separated by "
                     "fractions of the window duration, ages aimed at wdur-1 / wdur / wdur+1; planned histories in which the threshold is reached by expiry on a success / "
                     "a fast call, only thanks to the new failure, missed because failures aged out, or the window falls under the minimum; "
                     "40%: the configuration written as the builder chain itself (any order of setters, failure_classifier / classify_response before or after "
                     "sliding_window_size, overridden setters, defaults left unset); 8%: the presets standard / fast_fail / tolerant, circuit_breaker_builder() and the bare "
                     "builder, as they are or customised, driven to their documented threshold / wait / permitted calls; 9%: health signals (trigger_unhealthy / "
                     "trigger_healthy) with probes and calls before the task is scheduled; 8%: half-open episodes with the trial calls in flight together and more callers "
                     "arriving (inner service invoked or not); several services from one layer value; reused handles; on_slow_call checked against the measured durations",
                level_text="Theorems TR.Props.C04.*: the model's window is exactly the last sliding_window_size outcomes (count) / the outcomes no older "
                           "than the window duration (time); the incrementally maintained counters equal the counts over that window; closed->open exactly when the "
                           "documented condition holds; open->half-open at the first call after the wait; half-open->closed after permitted successes, ->open on a failure; "
                           "a rate exactly equal to the threshold trips, one below stays closed (exact rational comparison); "
                           "reset empties the window; all views (state, state_sync, is_open, metrics, http_status, health_status) are the same function of the state; "
                           "the builder: an unset minimum_number_of_calls is the FINAL window size wherever the classifier setter stands "
                           "(builder_minimum_defaults_to_final_window, classifier_setter_commutes), the setting given last wins, the presets are their documented values. "
                           "Whole sequential histories: the FULL model run on the operations of a sequential client (arrive / poll / adv / poll per call) ends in the circuit "
                           "the sequential driver computes (seq_embeds) whose abstraction is the documented machine on the same history (refines_run); metrics(): count-based = "
                           "counts over the documented window, time-based = the documented window plus expired records not pruned yet, exact right after a recording "
                           "(metrics_match_window, metrics_time_window, metrics_exact_after_record); inside an on_state_transition callback the lock-free view still shows the "
                           "state being left (listener_view_lags); the recorded duration holds for failures too (recorded_duration); time-based expiry: the next recording, "
                           "whatever its outcome, opens the breaker exactly when the PRUNED window plus that outcome meets the condition (expiry_decides_next_recording), so a "
                           "success trips on a rate raised by expiry alone (success_trips_on_expired_window)."),
    "C09": dict(COMMON, module="TR.Props.C09", gen=gen_c09, all_transitions=ALL_TR + TR_TEARDOWN + TR_EPISODES + TR_BUILD + TR_READY,
                monitors=[("c09-halfopen-trials", per_service(mon_c09)), ("c09-excess-answered-at-once", per_service(mon_at_once)),
                          ("c09-open-shields-contended", mon_contend)],
                rule="breaker driven to half-open, then many callers arriving together with slow trial calls, mixed outcomes, drops and panics of "
                     "trial futures; both window types; 20%: several half-open episodes in one history, ended in the middle by reset / force_closed / force_open / a failing "
                     "trial with trials still in flight, the last episode filled, then the leftovers dropped or completed with late callers after each; callers arriving "
                     "from inside the destructor of a cancelled trial (manual ondrop) with all slots taken; the wrapped service not ready around a half-open "
                     "episode; health signals; presets' documented permitted calls; builder chains, Layer::layer / for_request, several services from one layer, reused handles",
                level_text="Theorems TR.Props.C09.*: in every reachable half-open state, trial calls started in the episode minus those cancelled equals "
                           "half_open_admitted <= permitted; excess callers are rejected in the same step; no wedge: when no trial of the episode is in flight a slot is free; "
                           "every taken slot belongs to a live (or succeeded) trial of the current episode, overrides never rewind the episode counter, cancelling a leftover frees nothing; "
                           "a caller arriving during the tear-down of a cancelled trial (before its drop) is rejected when all slots are taken; a rejected caller "
                           "leaves the breaker untouched, so the next caller is rejected as well (rejected_caller_frees_nothing); each service made from a layer counts its own trials. "
                           "Over the log alone: the ghost `released` is the number of trials of the episode the log shows cancelled (inner_drop) or panicked "
                           "(released_is_cancelled_since); in every event-level prefix whose last transition went to half-open, inner calls since minus those cancelled <= permitted "
                           "(trials_bounded_every_prefix, trials_in_flight_bounded_log); without drop operations and panicking scripts nothing is released and inner calls per "
                           "episode <= permitted (trials_bounded_no_cancellations); the decision counts successes of leftover calls too (half_open_decision); a release lost by "
                           "TrialGuard::drop's bounded try_lock spin admits nobody more but leaks the slot (lost_release_admits_nobody; modelled, not verified)."),
}
