"""C03 / C04 / C09 — circuit breaker: generators, implementation-side monitors"""
from gen.util import kvs, tparse

HUGE_WAIT = "max"     # Duration::MAX ("stay open until a manual reset")


def _w(d):
    """the wait used to choose time advances (a huge wait is never elapsed: advance by ordinary amounts)"""
    return d["wait"] if d["wait"] != "max" else 100


FRACS = ["0/1", "1/4", "1/2", "1/2", "3/4", "1/1", "1/10", "3/10", "3/5", "1/8", "5/8"]


def gen_cfg(rng, mode):
    time_based = rng.random() < (0.4 if mode != "seq" else 0.45)
    size = rng.choice([1, 2, 3, 4, 4, 5, 8])
    # now and then "stay open until a manual reset": the largest representable wait
    d = {"size": size, "fr": rng.choice(FRACS), "wait": rng.choice([10, 50, 100]) if rng.random() < 0.94 else HUGE_WAIT,
         "permitted": rng.choice([1, 1, 2, 2, 3, 4])}
    if time_based:
        d["wtype"] = "time"
        d["wdur"] = rng.choice([20, 50, 100, 400])
    r = rng.random()
    if r < 0.5:
        d["min"] = rng.choice([1, max(1, size - 1), size, size + 1, size + 3])
    if rng.random() < 0.4:
        d["slow"] = rng.choice([5, 10, 20])
        d["sr"] = rng.choice(FRACS)
    d["cls"] = rng.choice([0, 0, 0, 1, 2])
    if rng.random() < 0.35:
        d["fallback"] = 1
    return d


def header(d):
    return "circuit " + " ".join("%s=%s" % (k, v) for k, v in d.items())


def fbscript(rng, d, p=0.5):
    """script of this caller's fallback future (only meaningful with a fallback configured): a fallback is a future of
    its own — a replica read, a remote cache — that need not finish on its first poll, may fail, panic or hang"""
    if not d.get("fallback") or rng.random() >= p:
        return ""
    lat = rng.choice([0, 1, 5, 5, 20, 50, 200])
    r = rng.random()
    out = "ok" if r < 0.7 else rng.choice(["err1", "err2"]) if r < 0.85 else "never" if r < 0.95 else "panic"
    return " fb=%d:%s" % (lat, out)


def outcome(rng, pfail):
    if rng.random() < pfail:
        return rng.choice(["err1", "err1", "err2"])
    return "ok"


def gen_seq(rng, tier):
    """C04: sequential histories — every call completes before the next operation"""
    d = gen_cfg(rng, "seq")
    ops = []
    c = 0
    n = rng.randint(10, 60) if rng.random() < 0.85 else rng.randint(100, 300)
    pfail = rng.choice([0.1, 0.3, 0.5, 0.7, 0.9])
    slow = d.get("slow")
    for i in range(n):
        r = rng.random()
        if r < 0.70:
            c += 1
            o = outcome(rng, pfail)
            tag = " tag=%d" % rng.randint(0, 9) if d["cls"] == 2 else ""
            tag += fbscript(rng, d, 0.25)     # if rejected: a fallback that may stay pending across the later operations
            if slow and rng.random() < 0.4:
                lat = rng.choice([slow - 1, slow, slow + 1, slow * 2])
                ops += ["arrive %d inner=%d:%s%s" % (c, lat, o, tag), "poll %d" % c, "adv %d" % lat, "poll %d" % c]
            else:
                ops += ["arrive %d inner=0:%s%s" % (c, o, tag), "poll %d" % c]
        elif r < 0.82:
            w = _w(d)
            ops.append("adv %d" % rng.choice([w - 1, w, w, w + 1, 1, w // 2, d.get("wdur", 7), d.get("wdur", 7) + 1]))
        elif r < 0.86:
            ops.append("manual force_open")
        elif r < 0.90:
            ops.append("manual force_closed")
        elif r < 0.95:
            ops.append("manual reset")
        else:
            pfail = rng.choice([0.0, 0.2, 0.5, 0.8, 1.0])
        ops.append("probe views")
    return {"header": header(d), "ops": ops}


def gen_conc(rng, tier, halfopen_bias=False):
    """C03 / C09: concurrent callers on clones, all interleavings of admission, completion, recording"""
    d = gen_cfg(rng, "conc")
    if halfopen_bias:
        d["size"] = rng.choice([1, 2, 3])
        d.pop("min", None)
        d["fr"] = rng.choice(["1/2", "1/1", "1/4"])
    ops = []
    c = 0
    live = []
    now = 0
    marks = []
    w = _w(d)
    n = rng.randint(15, 70)
    pfail = rng.choice([0.3, 0.6, 0.9, 1.0]) if not halfopen_bias else rng.choice([0.0, 0.2, 0.5])
    if halfopen_bias:
        # open it quickly: failures until open (or force), then wait
        if rng.random() < 0.5:
            ops.append("manual force_open")
        else:
            for _ in range(d["size"] + 1):
                c += 1
                ops += ["arrive %d inner=0:err1" % c, "poll %d" % c]
            if rng.random() < 0.5:
                ops.append("manual force_open")
        ops.append("adv %d" % rng.choice([w, w, w + 1, w - 1]))
        now += w
    for i in range(n):
        r = rng.random()
        if r < 0.30:
            c += 1
            lat = rng.choice([0, 0, 1, 5, 10, 20, 50])
            o = outcome(rng, pfail)
            if rng.random() < 0.06:
                o = rng.choice(["panic", "never"])
            tag = " tag=%d" % rng.randint(0, 9) if d["cls"] == 2 else ""
            fb = fbscript(rng, d)
            ops.append("arrive %d inner=%d:%s%s%s" % (c, lat, o, tag, fb))
            live.append(c)
            if rng.random() < (0.8 if halfopen_bias else 0.6):
                ops.append("poll %d" % c)
                marks.append(now + lat)
                if fb:
                    marks.append(now + int(fb.split("=")[1].split(":")[0]))
        elif r < 0.55 and live:
            x = rng.choice(live)
            ops.append("poll %d" % x)
        elif r < 0.62 and live:
            x = rng.choice(live)
            ops.append("drop %d" % x)
            live.remove(x)
        elif r < 0.80:
            fut = [m for m in marks if m >= now]
            q = rng.random()
            if fut and q < 0.5:
                dt = max(0, rng.choice(fut) - now + rng.choice([-1, 0, 0, 1]))
            elif q < 0.8:
                dt = rng.choice([w - 1, w, w + 1, w // 2])
            else:
                dt = rng.choice([0, 1, 3, 10])
            ops.append("adv %d" % dt)
            now += dt
        elif r < 0.88:
            ops.append("settle")
        elif r < 0.91:
            ops.append("manual " + rng.choice(["force_open", "force_open", "force_closed", "reset"]))
        else:
            ops.append("probe views")
    ops.append("settle")
    ops.append("probe views")
    return {"header": header(d), "ops": ops}


def gen_pending_fallback(rng, tier, halfopen=False):
    """"each is answered at once with the open-circuit error, or by the configured fallback": the breaker is open (or
    half-open with its trial slots taken) and rejects callers whose fallback futures stay pending; meanwhile other callers
    (clones) arrive, calls admitted before the breaker opened complete and are recorded, state()/metrics() are probed and
    force_open / force_closed / reset are issued — none of that may wait for somebody's fallback"""
    d = gen_cfg(rng, "conc")
    d["fallback"] = 1
    if d["wait"] != "max" and rng.random() < 0.6:
        d["wait"] = rng.choice([100, 1000])
    w = _w(d)
    ops = []
    c = 0
    live = []
    marks = []
    now = 0
    # calls admitted while still closed, in flight when the breaker opens
    for _ in range(rng.choice([0, 0, 1, 2])):
        c += 1
        lat = rng.choice([1, 5, 20])
        ops += ["arrive %d inner=%d:%s" % (c, lat, rng.choice(["ok", "err1"])), "poll %d" % c]
        live.append(c)
        marks.append(lat)
    ops.append("manual force_open")
    if halfopen:
        p = d["permitted"]
        ops.append("adv %d" % w)
        now += w
        for _ in range(p):
            c += 1
            ops += ["arrive %d inner=%s" % (c, rng.choice(["500:ok", "0:never", "30:ok", "30:err1"])), "poll %d" % c]
            live.append(c)
            marks.append(now + 30)
    for i in range(rng.randint(6, 30)):
        r = rng.random()
        if r < 0.40:
            c += 1
            fb = fbscript(rng, d, 0.8)
            ops.append("arrive %d inner=%d:ok%s" % (c, rng.choice([0, 5]), fb))
            live.append(c)
            if rng.random() < 0.85:
                ops.append("poll %d" % c)
                if fb:
                    marks.append(now + int(fb.split("=")[1].split(":")[0]))
        elif r < 0.52 and live:
            ops.append("poll %d" % rng.choice(live))
        elif r < 0.58 and live:
            x = rng.choice(live)
            ops.append("drop %d" % x)
            live.remove(x)
        elif r < 0.72:
            ops.append("probe views")
        elif r < 0.80:
            ops.append("manual " + rng.choice(["force_open", "force_closed", "reset", "force_open"]))
        elif r < 0.93:
            fut = [m for m in marks if m >= now]
            dt = max(0, rng.choice(fut) - now + rng.choice([-1, 0, 0, 1])) if fut and rng.random() < 0.7 else rng.choice([0, 1, 5, w - 1, w])
            ops.append("adv %d" % dt)
            now += dt
        else:
            ops.append("settle")
    ops += ["settle", "probe views"]
    return {"header": header(d), "ops": ops}


def gen_c03(rng, tier):
    r = rng.random()
    if r < 0.15:
        return gen_pending_fallback(rng, tier, halfopen=rng.random() < 0.25)
    return gen_conc(rng, tier) if r < 0.83 else gen_seq(rng, tier)


def gen_c04(rng, tier):
    return gen_seq(rng, tier)


def gen_stale_trial(rng, tier):
    """a trial admitted in one half-open episode is still in flight when the breaker re-opens and half-opens again;
    the later episode is filled; only then is the old trial cancelled (or completes) — it must not free a slot"""
    d = gen_cfg(rng, "conc")
    d["size"] = rng.choice([1, 2, 3])
    d.pop("min", None)
    d.pop("slow", None)
    d.pop("sr", None)
    d["fr"] = rng.choice(["1/2", "1/1"])
    p = d["permitted"] = rng.choice([1, 2, 2, 3])
    if d["wait"] == "max":
        d["wait"] = 50
    w = d["wait"]
    ops = ["manual force_open", "adv %d" % w]
    c = 1
    old = []
    for _ in range(rng.randint(1, max(1, p - 1)) if p > 1 else 1):
        ops += ["arrive %d inner=%s" % (c, rng.choice(["0:never", "5000:ok", "5000:err1"])), "poll %d" % c]
        old.append(c)
        c += 1
    if p > 1 and rng.random() < 0.7:
        ops += ["arrive %d inner=0:err1" % c, "poll %d" % c]       # a failing trial re-opens the breaker
        c += 1
    else:
        ops.append("manual force_open")
    if rng.random() < 0.3:
        ops.append("probe views")
    ops.append("adv %d" % rng.choice([w, w, w + 1]))
    fill = []
    for _ in range(p):
        ops += ["arrive %d inner=%s" % (c, rng.choice(["500:ok", "500:ok", "0:never"])), "poll %d" % c]
        fill.append(c)
        c += 1
    for x in old:
        r = rng.random()
        if r < 0.6:
            ops.append("drop %d" % x)
        elif r < 0.8:
            ops += ["adv 1", "poll %d" % x]
    for _ in range(rng.randint(1, 3)):
        ops += ["arrive %d inner=%s" % (c, rng.choice(["500:ok", "0:ok"])), "poll %d" % c]
        c += 1
    if rng.random() < 0.5:
        ops += ["drop %d" % rng.choice(fill), "arrive %d inner=0:ok" % c, "poll %d" % c]
        c += 1
    ops += ["adv 500", "settle", "probe views"]
    return {"header": header(d), "ops": ops}


def gen_c09(rng, tier):
    r = rng.random()
    if r < 0.2:
        return gen_stale_trial(rng, tier)
    if r < 0.26:
        return gen_pending_fallback(rng, tier, halfopen=True)
    return gen_conc(rng, tier, halfopen_bias=True) if r < 0.88 else gen_conc(rng, tier)


# ----------------------------------------------------------------------------- monitors

def _wait_of(cfg):
    w = cfg.get("wait", "1000")
    return 10 ** 30 if w == "max" else int(w)


def frac(s, d):
    a, b = (s or d).split("/")
    return int(a), int(b)


def mon_c03(case, lines, meta):
    """no inner call starts between an observed transition to open at t0 and min(t0+wait, next transition)"""
    cfg = kvs(case["header"])
    wait = _wait_of(cfg)
    open_since = None
    for i, l in enumerate(lines):
        t, w = tparse(l)
        if not w:
            continue
        if w[0] == "transition":
            open_since = t if w[2] == "open" else None
        elif w[0] == "inner_call" and open_since is not None:
            return "line %d: inner call %s started at t=%d while the breaker has been open since t=%d (wait_duration_in_open=%d, no transition in between)" % (
                i, w[1], t, open_since, wait)
        elif w[0] == "probe" and open_since is not None:
            if "sync=open" not in l or "state=open" not in l:
                return "line %d: views disagree with the observed open state: %s" % (i, l)
    # a transition out of open that is not manual must not happen before t0+wait
    prev = None
    t_open = None
    for i, l in enumerate(lines):
        t, w = tparse(l)
        if not w:
            continue
        if w[0] == "transition":
            if w[1] == "open" and t_open is not None and t < t_open + wait:
                if not (prev and prev[0] == "manual"):
                    return "line %d: left the open state at t=%d, opened at t=%d, wait=%d, without a manual override" % (i, t, t_open, wait)
            t_open = t if w[2] == "open" else None
        prev = w
    return None


def mon_at_once(case, lines, meta):
    """"answered at once": (a) a caller's first poll either reaches the inner service, or answers it (open-circuit error),
    or invokes its fallback — in that very poll, whatever other callers' fallbacks are doing; (b) state()/metrics()/
    force_open()/force_closed()/reset() complete at once (the harness is single threaded: if one of them has to wait,
    the breaker's mutex is being held across somebody's await)"""
    for i, l in enumerate(lines):
        t, w = tparse(l)
        if not w:
            continue
        if w[0] == "probe" and len(w) > 1 and w[1] == "blocked":
            return "line %d: state()/metrics() did not complete at t=%d: the breaker's lock is held across an await (by a pending fallback?)" % (i, t)
        if w[0] == "manual_blocked":
            return "line %d: %s() did not complete at t=%d: the breaker's lock is held across an await (by a pending fallback?)" % (i, w[1], t)
    for j, (pos, m) in enumerate(meta):
        w = m.split()
        if w[0] != "#fp" or pos < 0:
            continue
        c = w[1]
        end = len(lines)
        if j + 1 < len(meta) and meta[j + 1][0] >= 0:
            end = meta[j + 1][0]
        got = None
        for l in lines[pos:end]:
            _, x = tparse(l)
            if x and x[0] != "transition":
                got = x
                break
        if got is None or len(got) < 2 or got[1] != c or got[0] not in ("inner_call", "fallback_call", "result"):
            return ("caller %s, first polled at t=%s, was neither admitted nor rejected nor handed to its fallback in that poll "
                    "(next event: %s): it is waiting for something inside the breaker" % (c, w[2], " ".join(got) if got else "none"))
    return None


class Spec:
    """the documented state machine (reference implementation, independent of the Lean model)"""

    def __init__(self, cfg):
        self.count = cfg.get("wtype", "count") != "time"
        self.size = int(cfg.get("size", "10"))
        self.wdur = int(cfg.get("wdur", "1000"))
        self.min = int(cfg.get("min", self.size))
        self.fr = frac(cfg.get("fr"), "1/2")
        self.slow = int(cfg["slow"]) if "slow" in cfg else None
        self.sr = frac(cfg.get("sr"), "1/1")
        self.wait = _wait_of(cfg)
        self.permitted = int(cfg.get("permitted", "1"))
        self.cls = int(cfg.get("cls", "0"))
        self.state = "closed"
        self.since = 0
        self.window = []      # (t, fail, slow)
        self.succ = 0

    def goto(self, s, t):
        if s != self.state:
            self.state = s
            self.since = t
            self.window = []
            self.succ = 0
            return True
        return False

    def view(self, t, prune):
        if self.count:
            return self.window[-max(self.size, 1):]
        return [r for r in self.window if t - r[0] <= self.wdur] if prune else self.window

    def record(self, t, fail, dur):
        slow = self.slow is not None and dur >= self.slow
        if self.count:
            self.window = (self.window + [(t, fail, slow)])[-max(self.size, 1):]
        else:
            self.window = [r for r in self.window if t - r[0] <= self.wdur] + [(t, fail, slow)]
        if self.state == "halfopen":
            if fail:
                self.goto("open", t)
            else:
                self.succ += 1
                if self.succ >= self.permitted:
                    self.goto("closed", t)
            return
        win = self.view(t, True)
        if not self.count:
            self.window = win
        n = len(win)
        if n < self.min or (self.count and n < self.size) or n == 0:
            return
        f = sum(1 for r in win if r[1])
        s = sum(1 for r in win if r[2])
        if f * self.fr[1] >= self.fr[0] * n or (self.slow is not None and s * self.sr[1] >= self.sr[0] * n):
            self.goto("open", t)

    def admit(self, t):
        if self.state == "open":
            if t - self.since >= self.wait:
                self.goto("halfopen", t)
                return True
            return False
        return True    # half-open admission is C09's business


def classify(cls, out, tag):
    if cls == 0:
        return out.startswith("err")
    if cls == 1:
        return out == "err1"
    return out.startswith("err") or (out == "ok" and tag % 2 == 1)


def mon_c04(case, lines, meta):
    """sequential histories: the observable state follows the documented machine, all views agree"""
    cfg = kvs(case["header"])
    sp = Spec(cfg)
    tags = {}
    for o in case["ops"]:
        w = o.split()
        if w[0] == "arrive":
            k = kvs(o)
            tags[w[1]] = int(k.get("tag", w[1]))
    start = {}
    for i, l in enumerate(lines):
        t, w = tparse(l)
        if not w:
            continue
        if w[0] == "inner_call":
            if len(start) > 0:
                return None   # not a sequential history: outside this monitor's quantifier
            start[w[1]] = t
            if not sp.admit(t) or (sp.state == "open"):
                return "line %d: call %s reached the inner service although the documented machine is open (since t=%d)" % (i, w[1], sp.since)
        elif w[0] == "inner_done":
            if w[3] in ("panic",):
                start.pop(w[1], None)
                continue
            fail = classify(sp.cls, w[3], tags.get(w[1], 0))
            sp.record(t, fail, t - start.pop(w[1], t))
        elif w[0] == "inner_drop":
            start.pop(w[1], None)
        elif (w[0] == "result" and w[2] == "err:open") or w[0] == "fallback_call":
            # a rejection (decided when the fallback is invoked — its value may arrive much later): the documented
            # machine must be open (or half-open with its trials used up)
            if sp.state == "closed":
                return "line %d: call %s rejected while the documented machine is closed" % (i, w[1])
            if sp.state == "open" and t - sp.since >= sp.wait:
                return "line %d: call %s rejected although wait_duration_in_open has elapsed (open since %d, now %d)" % (i, w[1], sp.since, t)
        elif w[0] == "manual":
            if w[1] == "force_open":
                sp.goto("open", t)
            elif w[1] == "force_closed":
                sp.goto("closed", t)
            elif w[1] == "reset":
                sp.goto("closed", t)
                sp.window = []
        elif w[0] == "probe":
            kv = kvs(l)
            exp = sp.state
            got = (kv.get("state"), kv.get("sync"), kv.get("mstate"))
            if got != (exp, exp, exp) or kv.get("is_open") != ("1" if exp == "open" else "0"):
                return "line %d: documented machine is %s, views report state=%s sync=%s metrics=%s is_open=%s" % (
                    i, exp, got[0], got[1], got[2], kv.get("is_open"))
            win = sp.view(t, False)
            n, f, s = len(win), sum(1 for r in win if r[1]), sum(1 for r in win if r[2])
            if sp.state == "closed" and (int(kv["total"]), int(kv["fail"]), int(kv["slow"])) != (n, f, s):
                if sp.count or all(t - r[0] <= sp.wdur for r in sp.window):
                    return "line %d: window of the documented machine has total=%d fail=%d slow=%d, metrics report %s/%s/%s" % (
                        i, n, f, s, kv["total"], kv["fail"], kv["slow"])
    return None


def mon_c09(case, lines, meta):
    """per half-open episode: trial calls that reached the inner service and were not cancelled <= permitted"""
    cfg = kvs(case["header"])
    permitted = int(cfg.get("permitted", "1"))
    in_half = False
    trials = set()      # serials of trial calls of this episode, not cancelled
    everything = 0
    for i, l in enumerate(lines):
        t, w = tparse(l)
        if not w:
            continue
        if w[0] == "transition":
            in_half = (w[2] == "halfopen")
            trials = set()
            everything = 0
        elif w[0] == "inner_call" and in_half:
            trials.add(w[2])
            everything += 1
            if len(trials) > max(permitted, 1):
                return "line %d: %d trial calls reached the inner service in one half-open episode (permitted_calls_in_half_open=%d)" % (i, len(trials), permitted)
        elif w[0] == "inner_drop" or (w[0] == "inner_done" and w[3] == "panic"):
            trials.discard(w[2])
    return None


def transitions(case, lines):
    tags = []
    pending = set()       # callers whose fallback has been invoked and has not finished
    called_now = set()    # … invoked by the previous line (a result right after it = finished at once)
    for l in lines:
        _, w = tparse(l)
        if not w:
            continue
        if w[0] == "transition":
            tags.append("tr-%s-%s" % (w[1], w[2]))
        elif w[0] == "result":
            tags.append("result-" + ("open" if w[2] == "err:open" else "fallback" if "fallback" in w[2] else w[2].split(":")[0]))
        elif w[0] == "inner_drop":
            tags.append("inner_drop")
        elif w[0] == "manual":
            tags.append("manual-" + w[1])
            if pending:
                tags.append("manual-during-pending-fallback")
        elif w[0] == "probe" and pending:
            tags.append("probe-during-pending-fallback")
        elif w[0] == "inner_done" and pending:
            tags.append("record-during-pending-fallback")
        elif w[0] == "inner_call" and pending:
            tags.append("admit-during-pending-fallback")
        if w[0] == "fallback_call":
            if pending:
                tags.append("reject-during-pending-fallback")
            pending.add(w[1])
        elif w[0] == "result":
            if w[1] in pending and w[1] not in called_now:
                tags.append("fallback-late-" + ("ok" if "fallback" in w[2] else "panic" if w[2] == "panic" else "err"))
            elif w[2] == "err:open" and pending:
                tags.append("reject-during-pending-fallback")
            pending.discard(w[1])
        elif w[0] == "fallback_drop":
            tags.append("fallback_drop")
            pending.discard(w[1])
        called_now = {w[1]} if w[0] == "fallback_call" else set()
    return tags


def nontrivial(case, lines, tags):
    return sum(1 for t in tags if t.startswith("tr-")) >= 2


ALL_TR = ["tr-closed-open", "tr-open-halfopen", "tr-halfopen-closed", "tr-halfopen-open", "tr-open-closed", "tr-halfopen-closed",
          "result-open", "result-fallback", "result-ok", "result-err", "inner_drop", "manual-reset", "manual-force_open", "manual-force_closed",
          "fallback-late-ok", "fallback-late-err", "fallback-late-panic", "fallback_drop", "reject-during-pending-fallback",
          "admit-during-pending-fallback", "record-during-pending-fallback", "probe-during-pending-fallback", "manual-during-pending-fallback"]

LEVEL_NOTE = ("Trusted: Lean kernel; the transcription of circuit.rs / lib.rs in TR.Model.Circuit (validated only by the sampled "
              "correspondence check); thresholds are exact rationals num/den (equal to the f64 comparison for the window sizes exercised); "
              "tokio::sync::Mutex is uncontended in the single-threaded harness (each critical section is one model function); the harness "
              "(virtual clock, manual poller) and python diff/monitors.")

COMMON = {
    "group": "circuit",
    "transitions": transitions,
    "nontrivial": nontrivial,
    "all_transitions": ALL_TR,
    "model_modules": ["TR.Model.Circuit", "TR.Lemmas.Circuit", "TR.Lemmas.CircuitState", "TR.Lemmas.CircuitWindow", "TR.Lemmas.CircuitRefine", "TR.Spec.Breaker"],
    "lean_files": ["TR.Model.Circuit", "TR.Lemmas.Circuit", "TR.Lemmas.CircuitState", "TR.Lemmas.CircuitWindow", "TR.Lemmas.CircuitRefine", "TR.Spec.Breaker"],
    "sizes": (400, 20000),
    "trusted": ["transcription of Circuit / CircuitBreaker::call in TR.Model.Circuit (sampled by the correspondence check)",
                "exact-rational threshold comparison = f64 comparison for the generated window sizes",
                "harness: clock_gettime interposition, manual poller; python diff/monitors"],
    "assumptions": ["each critical section under the breaker's mutex is atomic", "usize as unbounded Nat"],
    "level_note": LEVEL_NOTE,
}

SPECS = {
    "C03": dict(COMMON, module="TR.Props.C03", gen=gen_c03, monitors=[("c03-open-shields", mon_c03), ("c03-answered-at-once", mon_at_once)],
                rule="concurrent callers on clones (arrive/poll/drop/adv/settle/manual/probe), opening by failure rate, slow-call rate and "
                     "force_open, advances biased to wait-1/wait/wait+1; fallbacks that are futures of their own (fb=<lat>:<ok|errK|panic|never>) left pending "
                     "while other callers arrive, earlier calls are recorded, views are probed and manual overrides issued; distinct = distinct implementation log; non-trivial = >= 2 state transitions",
                level_text="Theorems TR.Props.C03.*: in every reachable state and for every step, an inner call is started only if the breaker "
                           "was not open before the admission or wait_duration_in_open had elapsed (and it first moved to half-open); a rejected "
                           "caller gets err:open / the fallback is invoked in the same step (whatever other callers' fallbacks are doing) and never an inner call; "
                           "a pending fallback touches nothing of the breaker and no other step depends on it; the lock-free mirror always equals the state."),
    "C04": dict(COMMON, module="TR.Props.C04", gen=gen_c04, monitors=[("c04-documented-machine", mon_c04)],
                rule="sequential histories (length 10..300) over success/failure/slow success/slow failure/wait/force_open/force_closed/reset with "
                     "probe views after every step; both window types; thresholds incl. 0 and 1; min calls below/equal/above the window; three classifiers",
                level_text="Theorems TR.Props.C04.*: the model's window is exactly the last sliding_window_size outcomes (count) / the outcomes no older "
                           "than the window duration (time); the incrementally maintained counters equal the counts over that window; closed->open exactly when the "
                           "documented condition holds; open->half-open at the first call after the wait; half-open->closed after permitted successes, ->open on a failure; "
                           "reset empties the window; all views are the same function of the state."),
    "C09": dict(COMMON, module="TR.Props.C09", gen=gen_c09, monitors=[("c09-halfopen-trials", mon_c09), ("c09-excess-answered-at-once", mon_at_once)],
                rule="breaker driven to half-open, then many callers arriving together with slow trial calls, mixed outcomes, drops and panics of "
                     "trial futures; both window types",
                level_text="Theorems TR.Props.C09.*: in every reachable half-open state, trial calls started in the episode minus those cancelled equals "
                           "half_open_admitted <= permitted; excess callers are rejected in the same step; no wedge: when no trial of the episode is in flight a slot is free."),
}
