#!/bin/sh
# usage: try_patch.sh [-R] <patch> <prop> [<prop>...]   apply patch to /repo, run quick checks, restore /repo
REV=""
if [ "$1" = "-R" ]; then REV="-R"; shift; fi
P=$1; shift
cd /repo || exit 2
if ! git diff --quiet; then echo "/repo has uncommitted changes"; exit 2; fi
git apply $REV "$P" || { echo "patch does not apply"; exit 2; }
cd /verif
for p in "$@"; do
  ./check $p 2>&1 | grep -E "VIOLATION|KNOWN|quick:|INFRA" 
done
git -C /repo checkout -- . 
git -C /repo status --short | head -3
