#!/usr/bin/env python3
"""confirm_seed.py <ID> <m1|m2> : confirm a seeded change produced by a sub-agent, in a scratch worktree:
   (1) the patch applies and compiles; the existing tests of that crate and of the repository's integration test for
       that pattern still pass with it; (2) the demonstration fails with the patch and (3) passes without it.
   On success copies it to /verif/seeded/<ID>-<m>/ with meta.json (what was run, results)."""
import sys, os, re, json, subprocess, shutil

CONF = os.environ.get("CONFIRM_DIR", "/tmp/confirm")
ENV = dict(os.environ, CARGO_TARGET_DIR=CONF + "/target", CARGO_NET_OFFLINE="true")


def sh(cmd, cwd, timeout=3600):
    p = subprocess.run(cmd, cwd=cwd, env=ENV, stdout=subprocess.PIPE, stderr=subprocess.STDOUT, text=True, timeout=timeout)
    return p.returncode, p.stdout


def main():
    pid, m = sys.argv[1], sys.argv[2]
    outdir = sys.argv[3] if len(sys.argv) > 3 else "out"       # wave 2 delivers under out2
    tag = "" if outdir == "out" else "w" + outdir[3:]
    src = f"/tmp/seed/{pid}/{outdir}/{m}"
    wt = CONF + "/repo"
    os.makedirs(CONF, exist_ok=True)
    if not os.path.exists(wt):
        subprocess.run(["git", "-C", "/repo", "worktree", "add", "--detach", wt, "HEAD"], check=True, capture_output=True)
    head = subprocess.run(["git", "-C", "/repo", "rev-parse", "HEAD"], capture_output=True, text=True).stdout.strip()
    sh(["git", "checkout", "--", "."], wt)
    sh(["git", "checkout", "--detach", head], wt)
    for d in os.popen(f"find {wt}/crates {wt}/tests -name 'seed_*' 2>/dev/null").read().split():
        os.remove(d)
    txt = open(src + "/demo_path.txt").read()
    mpath = re.search(r"((?:crates/[\w-]+/)?tests/[\w/-]+\.rs)", txt)
    demo_rel = mpath.group(1)
    crates = sorted(set(re.findall(r"crates/tower-resilience-([a-z]+)/", open(src + "/patch.diff").read())))
    res = {"patch_crates": crates, "demo": demo_rel}
    rc, out = sh(["git", "apply", src + "/patch.diff"], wt)
    if rc != 0:
        print("PATCH DOES NOT APPLY", out[:500]); return 1
    existing = []
    for c in crates:
        existing.append(["cargo", "test", "-p", "tower-resilience-" + c, "--offline", "--lib", "--tests"])
        if os.path.exists(f"{wt}/tests/{c}.rs"):
            existing.append(["cargo", "test", "--offline", "--test", c])
    ok_existing = True
    for cmd in existing:
        rc, out = sh(cmd, wt)
        tail = [l for l in out.splitlines() if l.startswith("test result") or l.startswith("error")][-6:]
        res.setdefault("existing", []).append({"cmd": " ".join(cmd), "rc": rc, "tail": tail})
        if rc != 0:
            ok_existing = False
    os.makedirs(os.path.dirname(f"{wt}/{demo_rel}"), exist_ok=True)
    shutil.copy(src + "/demo.rs", f"{wt}/{demo_rel}")
    name = os.path.basename(demo_rel)[:-3]
    if demo_rel.startswith("crates/"):
        dcmd = ["cargo", "test", "-p", demo_rel.split("/")[1], "--offline", "--test", name]
    else:
        dcmd = ["cargo", "test", "--offline", "--test", name]
    runline = next((l for l in txt.splitlines() if "cargo test" in l), "")
    feat = re.search(r"--features[ =]([\w/,-]+)", runline) or re.search(r"--features[ =]([\w/,-]+)", txt)
    if feat:
        dcmd += ["--features", feat.group(1)]
    rc1, out1 = sh(dcmd, wt)
    res["demo_with_patch"] = {"cmd": " ".join(dcmd), "rc": rc1, "tail": out1.splitlines()[-8:]}
    sh(["git", "apply", "-R", src + "/patch.diff"], wt)
    rc2, out2 = sh(dcmd, wt)
    res["demo_without_patch"] = {"rc": rc2, "tail": [l for l in out2.splitlines() if l.startswith("test result") or l.startswith("error")][-3:]}
    os.remove(f"{wt}/{demo_rel}")
    sh(["git", "checkout", "--", "."], wt)
    confirmed = ok_existing and rc1 != 0 and rc2 == 0
    res["confirmed"] = confirmed
    print(pid, m, "confirmed=%s existing_ok=%s demo_with_patch_rc=%s demo_without_rc=%s crates=%s" % (confirmed, ok_existing, rc1, rc2, crates))
    if confirmed:
        dst = f"/verif/seeded/{pid}-{tag}{m}"
        os.makedirs(dst, exist_ok=True)
        for f in ("patch.diff", "demo.rs", "README.md"):
            shutil.copy(src + "/" + f, dst + "/" + f)
        meta = {"property": pid, "checks": [pid], "origin": "seeded by an independent sub-agent given only the property text",
                "needs": open(src + "/README.md").read()[:1500], "demo_path": demo_rel, "confirmation": res,
                "ran": "tools/confirm_seed.py %s %s %s (scratch worktree, private target dir)" % (pid, m, outdir)}
        json.dump(meta, open(dst + "/meta.json", "w"), indent=1)
    else:
        json.dump(res, open(src + "/confirm_failed.json", "w"), indent=1)
    return 0 if confirmed else 1


if __name__ == "__main__":
    sys.exit(main())
