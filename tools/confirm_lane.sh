#!/bin/bash
# usage: confirm_lane.sh <lane> <outdir> <ID>...
lane=$1; shift; out=$1; shift
export CONFIRM_DIR=/tmp/confirm$lane
for id in "$@"; do
  for m in m1 m2 m3; do
    [ -d /tmp/seed/$id/$out/$m ] || continue
    python3 /verif/tools/confirm_seed.py $id $m $out
  done
done
