#!/usr/bin/env python3
"""merge_agent.py <workspace name> <group> <Model> <prop ids...> : copy an agent's new files into /verif and register them"""
import sys, os, shutil, subprocess, re
wk, group, model = sys.argv[1], sys.argv[2], sys.argv[3]
props = sys.argv[4:]
src = "/tmp/wk/%s/verif" % wk
dst = "/verif"
out = subprocess.run(["git", "-C", src, "status", "--porcelain"], capture_output=True, text=True).stdout
for l in out.splitlines():
    st, path = l[:2], l[3:]
    if st != "??":
        continue
    if path.startswith(("evidence/", "replays", "work", "harness/Cargo.lock")):
        continue
    s, d = os.path.join(src, path), os.path.join(dst, path)
    if os.path.isdir(s):
        shutil.copytree(s, d, dirs_exist_ok=True)
    else:
        os.makedirs(os.path.dirname(d), exist_ok=True)
        shutil.copy(s, d)
    print("copied", path)
models = model.split(",")
# Driver.lean
p = os.path.join(dst, "lean/Driver.lean"); s = open(p).read()
for m in models:
    if "import TR.Model.%s\n" % m not in s:
        s = s.replace("import TR.Model.Bulkhead\n", "import TR.Model.Bulkhead\nimport TR.Model.%s\n" % m)
agent_driver = open(os.path.join(src, "lean/Driver.lean")).read()
for line in agent_driver.splitlines():
    m = re.match(r'\s*\| "(\w+)" => some (\w+)\.machine', line)
    if m and line.strip() not in s:
        s = s.replace('  | _ => none\n\nstructure Run', line.rstrip() + '\n  | _ => none\n\nstructure Run')
open(p, "w").write(s)
# TR.lean
p = os.path.join(dst, "lean/TR.lean"); s = open(p).read()
for line in open(os.path.join(src, "lean/TR.lean")).read().splitlines():
    if line.startswith("import") and line not in s:
        s += line + "\n"
open(p, "w").write(s)
# main.rs
p = os.path.join(dst, "harness/src/main.rs"); s = open(p).read()
for line in open(os.path.join(src, "harness/src/main.rs")).read().splitlines():
    if re.match(r"mod mw_\w+;", line) and line not in s:
        s = s.replace("mod mw_bulkhead;\n", "mod mw_bulkhead;\n" + line + "\n")
    if "=> Some(Box::new(mw_" in line and line.strip() not in s:
        s = s.replace("        _ => None,", line.rstrip() + "\n        _ => None,")
open(p, "w").write(s)
# registry
p = os.path.join(dst, "gen/registry.py"); s = open(p).read()
for pr in props:
    if '"%s"' % pr not in s:
        s = s.replace("GROUPS = {\n", 'GROUPS = {\n    "%s": "%s",\n' % (pr, group))
open(p, "w").write(s)
print("registered", props)
