#!/usr/bin/env python3
"""import_benign.py <outdir> <PID>... : take the behaviour-preserving refactors a sub-agent delivered under /tmp/benign/<PID>/<outdir>/r*,
confirm in a scratch worktree that each applies to /repo's HEAD and that the crates it touches still pass their own tests and the
repository's integration test for that pattern, and record it as benign/<PID>-w2r<N>/ (patch.diff, README.md, meta.json)."""
import sys, os, re, json, glob, shutil, subprocess
ROOT = os.path.dirname(os.path.dirname(os.path.abspath(__file__)))
CONF = os.environ.get("CONFIRM_DIR", "/tmp/confirmB")
ENV = dict(os.environ, CARGO_TARGET_DIR=CONF + "/target", CARGO_NET_OFFLINE="true")


def sh(cmd, cwd):
    p = subprocess.run(cmd, cwd=cwd, env=ENV, stdout=subprocess.PIPE, stderr=subprocess.STDOUT, text=True)
    return p.returncode, p.stdout


def main():
    outdir = sys.argv[1]
    wt = CONF + "/repo"
    os.makedirs(CONF, exist_ok=True)
    if not os.path.exists(wt):
        subprocess.run(["git", "-C", "/repo", "worktree", "add", "--detach", wt, "HEAD"], check=True, capture_output=True)
    head = subprocess.run(["git", "-C", "/repo", "rev-parse", "HEAD"], capture_output=True, text=True).stdout.strip()
    for pid in sys.argv[2:]:
        old = json.load(open(os.path.join(ROOT, "benign", pid + "-r1", "meta.json")))
        for src in sorted(glob.glob("/tmp/benign/%s/%s/r*" % (pid, outdir))):
            r = os.path.basename(src)
            if not os.path.exists(src + "/patch.diff"):
                continue
            sh(["git", "checkout", "--", "."], wt); sh(["git", "clean", "-fdq"], wt); sh(["git", "checkout", "--detach", head], wt)
            rc, out = sh(["git", "apply", src + "/patch.diff"], wt)
            if rc != 0:
                print(pid, r, "PATCH DOES NOT APPLY", out[:200]); continue
            crates = sorted(set(re.findall(r"crates/tower-resilience-([a-z]+)/", open(src + "/patch.diff").read())))
            ok = True
            ran = []
            for c in crates:
                cmds = [["cargo", "test", "-p", "tower-resilience-" + c, "--offline", "--lib", "--tests"]]
                if os.path.exists("%s/tests/%s.rs" % (wt, c)):
                    cmds.append(["cargo", "test", "--offline", "--test", c])
                for cmd in cmds:
                    rc, out = sh(cmd, wt)
                    ran.append({"cmd": " ".join(cmd), "rc": rc})
                    ok = ok and rc == 0
            readme = open(src + "/README.md").read() if os.path.exists(src + "/README.md") else ""
            label = ""
            for lab in ("atomic-sequence-visible", "rng-sequence-visible", "timing-visible"):
                if re.search(r"label[^\n]{0,40}" + lab, readme, re.I) or re.search(r"\*\*" + lab, readme, re.I):
                    label = lab
            print(pid, r, "confirmed=%s crates=%s label=%s" % (ok, crates, label), flush=True)
            if not ok:
                continue
            dst = os.path.join(ROOT, "benign", "%s-w2%s" % (pid, r))
            os.makedirs(dst, exist_ok=True)
            shutil.copy(src + "/patch.diff", dst + "/patch.diff")
            open(dst + "/README.md", "w").write(readme)
            json.dump({"property": pid, "checks": old["checks"], "label": label, "crates": crates, "what": readme[:900],
                       "origin": "written by an independent sub-agent given only the property text, asked for a behaviour-preserving refactor (second wave: construction / cloning, error and event plumbing, arithmetic rewrites)",
                       "confirmation": ran}, open(dst + "/meta.json", "w"), indent=1)
    sh(["git", "checkout", "--", "."], wt)


if __name__ == "__main__":
    main()
