#!/usr/bin/env python3
"""merge_changes.py <workspace name>: copy the files an agent changed or added in /tmp/wk/<name>/verif into /verif
(skipping generated files); lean/TR.lean is merged as the union of imports. Refuses a file that also changed in /verif
since the agent's copy was taken (compares with the committed version the copy started from)."""
import sys, os, shutil, subprocess
wk = sys.argv[1]
src, dst = "/tmp/wk/%s/verif" % wk, "/verif"
SKIP = ("evidence/", "replays", "work", "harness/Cargo.toml", "harness/Cargo.lock", "harness/target", "MANIFEST.json", "seeded/", "benign/",
        "lean/.lake", "__pycache__")
base = subprocess.run(["git", "-C", src, "rev-parse", "HEAD"], capture_output=True, text=True).stdout.strip()
out = subprocess.run(["git", "-C", src, "status", "--porcelain", "-uall"], capture_output=True, text=True).stdout
for l in out.splitlines():
    st, path = l[:2], l[3:]
    if any(path.startswith(s) or s in path for s in SKIP) or st.strip() == "D":
        continue
    s, d = os.path.join(src, path), os.path.join(dst, path)
    if path == "lean/TR.lean":
        cur = open(d).read()
        for line in open(s).read().splitlines():
            if line.startswith("import") and line not in cur.splitlines():
                cur += line + "\n"
        open(d, "w").write(cur)
        print("merged", path)
        continue
    if os.path.exists(d) and st != "??":
        committed = subprocess.run(["git", "-C", dst, "show", base + ":" + path], capture_output=True).stdout
        if committed != open(d, "rb").read():
            print("CONFLICT (changed in /verif too):", path)
            continue
    os.makedirs(os.path.dirname(d), exist_ok=True)
    shutil.copy(s, d)
    print("copied", path)
