#!/usr/bin/env python3
"""coverage.py [--cases N] [Cxx …] — which lines of /repo's crates do the correspondence runs execute?

Builds the harness with `-C instrument-coverage` (nightly toolchain, its own target dir), runs the corpus and N
generated cases of every property's generator through the REAL middleware (implementation side only), merges the
profiles and writes coverage/SUMMARY.md (per crate / per file line coverage) and coverage/uncovered.txt (functions
of the crates that were never entered). A measurement that guides where the models and generators are extended; it
is not a check and decides nothing."""
import os, sys, json, glob, subprocess, random, hashlib, shutil
ROOT = os.path.dirname(os.path.dirname(os.path.abspath(__file__)))
sys.path.insert(0, ROOT)
COV = os.path.join(ROOT, "harness", "target-cov")
BIN = os.path.join(COV, "debug", "trh")
os.environ["VERIF_TRH"] = BIN
from vlib import core  # noqa: E402
from gen import registry  # noqa: E402
TOOLS = glob.glob(os.path.expanduser("~/.rustup/toolchains/nightly-x86_64-unknown-linux-gnu/lib/rustlib/*/bin"))[0]


def main():
    args = sys.argv[1:]
    n = 1500
    if args and args[0] == "--cases":
        n = int(args[1]); args = args[2:]
    props = args or ["C%02d" % i for i in range(1, 21)]
    env = dict(os.environ, RUSTFLAGS="-C instrument-coverage", CARGO_TARGET_DIR=COV, CARGO_NET_OFFLINE="true",
               LLVM_PROFILE_FILE=os.path.join(COV, "build-%p.profraw"))   # build scripts are instrumented too: keep their profiles out of /repo
    shutil.copy("/repo/Cargo.lock", os.path.join(ROOT, "harness", "Cargo.lock"))
    subprocess.run(["cargo", "+nightly", "build", "--offline", "--quiet"], cwd=os.path.join(ROOT, "harness"), env=env, check=True)
    prof = os.path.join(COV, "prof")
    shutil.rmtree(prof, ignore_errors=True)
    os.makedirs(prof)
    os.makedirs(core.WORK, exist_ok=True)
    for p in props:
        spec = registry.get(p)
        if spec is None or "gen" not in spec:
            continue
        rng = random.Random(int(hashlib.sha1(p.encode()).hexdigest()[:8], 16))
        cases = core.corpus_cases(spec) + [spec["gen"](rng, "thorough" if i % 2 else "quick") for i in range(n)]
        path = os.path.join(core.WORK, "cov-%s.ops" % p)
        core.write_cases(path, cases)
        e = dict(os.environ, LLVM_PROFILE_FILE=os.path.join(prof, p + "-%p.profraw"), TRH_HANG_MS="20000")
        r = subprocess.run([BIN, path], env=e, stdout=subprocess.DEVNULL, stderr=subprocess.DEVNULL)
        print(p, "cases", len(cases), "rc", r.returncode, flush=True)
        os.remove(path)
    out = os.path.join(ROOT, "coverage")
    os.makedirs(out, exist_ok=True)
    pd = os.path.join(prof, "all.profdata")
    subprocess.run([TOOLS + "/llvm-profdata", "merge", "-sparse", "-o", pd] + glob.glob(prof + "/*.profraw"), check=True)
    rep = subprocess.run([TOOLS + "/llvm-cov", "export", "-format=text", "-instr-profile", pd, BIN,
                          "-ignore-filename-regex", r"(\.cargo|/rustc/|harness/src)"], capture_output=True, text=True, check=True).stdout
    data = json.loads(rep)["data"][0]
    rows = []
    for f in data["files"]:
        fn = f["filename"]
        if "/crates/" not in fn:
            continue
        s = f["summary"]
        rows.append((fn.split("/crates/")[1], s["lines"]["covered"], s["lines"]["count"], s["functions"]["covered"], s["functions"]["count"]))
    rows.sort()
    percrate = {}
    for fn, lc, ln, fc, fcn in rows:
        c = fn.split("/")[0]
        a = percrate.setdefault(c, [0, 0, 0, 0])
        a[0] += lc; a[1] += ln; a[2] += fc; a[3] += fcn
    md = ["# Source lines of /repo's crates executed by the correspondence runs", "",
          "Measured by `tools/coverage.py` (%d generated cases per property + corpus, implementation side, features metrics+tracing+verif-hooks)." % n,
          "`#[cfg(test)]` modules are not compiled into the harness and do not count.", "",
          "| crate | lines executed | lines | % | functions entered | functions |", "|---|---|---|---|---|---|"]
    for c, a in sorted(percrate.items()):
        md.append("| %s | %d | %d | %.1f | %d | %d |" % (c, a[0], a[1], 100.0 * a[0] / max(1, a[1]), a[2], a[3]))
    md += ["", "| file | lines executed | lines | % |", "|---|---|---|---|"]
    for fn, lc, ln, fc, fcn in rows:
        md.append("| %s | %d | %d | %.1f |" % (fn, lc, ln, 100.0 * lc / max(1, ln)))
    open(os.path.join(out, "SUMMARY.md"), "w").write("\n".join(md) + "\n")
    # functions never entered
    unc = []
    for fnc in data["functions"]:
        files = [x for x in fnc["filenames"] if "/crates/" in x]
        if files and fnc["count"] == 0:
            r0 = fnc["regions"][0]
            unc.append("%s:%d %s" % (files[0].split("/crates/")[1], r0[0], fnc["name"]))
    # a generic function has one record per instantiation: keep a source location only if no instantiation ran
    ran = set()
    for fnc in data["functions"]:
        files = [x for x in fnc["filenames"] if "/crates/" in x]
        if files and fnc["count"] > 0:
            ran.add("%s:%d" % (files[0].split("/crates/")[1], fnc["regions"][0][0]))
    seen = set(); res = []
    for u in sorted(unc):
        loc = u.split()[0]
        if loc in ran or loc in seen:
            continue
        seen.add(loc); res.append(u)
    open(os.path.join(out, "uncovered.txt"), "w").write("\n".join(res) + "\n")
    # line-level: uncovered line ranges per file
    show = subprocess.run([TOOLS + "/llvm-cov", "show", "-instr-profile", pd, BIN, "-ignore-filename-regex",
                           r"(\.cargo|/rustc/|harness/src)", "-show-line-counts-or-regions=false"], capture_output=True, text=True).stdout
    open(os.path.join(COV, "show.txt"), "w").write(show)
    print("\n".join(md[5:5 + 3 + len(percrate)]))


if __name__ == "__main__":
    main()
