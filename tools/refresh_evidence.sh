#!/bin/bash
# Re-run every quick check on the (clean) tree so that the committed evidence files describe a plain quick run.
cd "$(dirname "$0")/.."
if [ -n "$(git -C /repo status --porcelain)" ]; then echo "/repo is not clean"; exit 2; fi
mkdir -p /tmp/q
for i in 01 02 03 04 05 06 07 08 09 10 11 12 13 14 15 16 17 18 19 20; do
  ( ./check C$i --tier quick > /tmp/q/C$i.log 2>&1; echo "C$i rc=$? $(tail -n 1 /tmp/q/C$i.log)" ) &
done
wait
grep -l "VIOLATION" /tmp/q/*.log
