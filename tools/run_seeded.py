#!/usr/bin/env python3
"""run_seeded.py [name-substring …]: apply every seeded change (seeded/*/patch.diff) to /repo in turn, run the quick
checks of the properties named in its meta.json (`checks`), record which of them report a VIOLATION, restore /repo.
Writes seeded/<name>/result.json and prints a table."""
import sys, os, json, subprocess, glob
ROOT = os.path.dirname(os.path.dirname(os.path.abspath(__file__)))


def sh(cmd, **kw):
    return subprocess.run(cmd, stdout=subprocess.PIPE, stderr=subprocess.STDOUT, text=True, **kw)


def main():
    sel = sys.argv[1:]
    if sh(["git", "-C", "/repo", "status", "--porcelain"]).stdout.strip():
        print("/repo is not clean")
        return 2
    rows = []
    for d in sorted(glob.glob(os.path.join(ROOT, "seeded", "*"))):
        name = os.path.basename(d)
        if sel and not any(s in name for s in sel):
            continue
        meta = json.load(open(os.path.join(d, "meta.json")))
        patch = os.path.join(d, "patch.diff")
        args = ["git", "-C", "/repo", "apply"] + (["-R"] if meta.get("reverse") else []) + [patch]
        r = sh(args)
        if r.returncode != 0:
            rows.append((name, "PATCH-DOES-NOT-APPLY", r.stdout.strip()[:100]))
            continue
        res = {}
        try:
            for p in meta.get("checks", [meta["property"]]):
                out = sh([os.path.join(ROOT, "check"), p], cwd=ROOT).stdout
                viol = [l for l in out.splitlines() if l.startswith("VIOLATION")]
                summ = [l for l in out.splitlines() if " quick:" in l]
                res[p] = {"violation": bool(viol), "concrete": any("no-failing-input-found" not in v for v in viol),
                          "lines": viol[:3], "summary": summ[-1] if summ else out[-300:]}
        finally:
            sh(["git", "-C", "/repo", "checkout", "--", "."])
            sh(["git", "-C", "/repo", "clean", "-fdq", "crates", "tests"])
        json.dump(res, open(os.path.join(d, "result.json"), "w"), indent=1)
        caught = [p for p, v in res.items() if v["violation"]]
        concrete = [p for p, v in res.items() if v["concrete"]]
        rows.append((name, "caught by " + ",".join(caught) if caught else "MISSED", "concrete replay: " + (",".join(concrete) or "-")))
    # rebuild the harness against the clean tree
    sh([os.path.join(ROOT, "check"), "C01"], cwd=ROOT)
    for r in rows:
        print("%-44s %-28s %s" % r)
    return 0


if __name__ == "__main__":
    sys.exit(main())
