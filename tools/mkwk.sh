#!/bin/sh
# usage: mkwk.sh <name>
set -e
n=$1
mkdir -p /tmp/wk/$n
git -C /repo worktree add --detach /tmp/wk/$n/repo HEAD >/dev/null 2>&1
cp -r /verif /tmp/wk/$n/verif
sed -i "s#/repo/crates#/tmp/wk/$n/repo/crates#g" /tmp/wk/$n/verif/harness/Cargo.toml
rm -rf /tmp/wk/$n/verif/work /tmp/wk/$n/verif/replays
echo /tmp/wk/$n
