#!/usr/bin/env python3
"""anchors.py — record the fingerprint of /repo/crates' sources that the models were last validated against
(run after the checks are green on a new /repo HEAD; the checks widen their search when the tree differs from it)."""
import os, sys, json, subprocess
ROOT = os.path.dirname(os.path.dirname(os.path.abspath(__file__)))
sys.path.insert(0, ROOT)
from vlib import core
head = subprocess.run(["git", "-C", core.REPO, "rev-parse", "HEAD"], capture_output=True, text=True).stdout.strip()
dirty = subprocess.run(["git", "-C", core.REPO, "status", "--porcelain"], capture_output=True, text=True).stdout.strip()
if dirty:
    print("refusing: /repo is not clean"); sys.exit(1)
json.dump({"repo_head": head, "repo_src_sha256": core.source_fingerprint()}, open(os.path.join(ROOT, "anchors.json"), "w"), indent=1)
print(open(os.path.join(ROOT, "anchors.json")).read())
