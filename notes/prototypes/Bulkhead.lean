namespace Bulkhead

abbrev Id := Nat

structure Cfg where
  max     : Nat
  maxWait : Option Nat      -- none = wait forever

inductive Out | ok | err | panic | never
deriving DecidableEq, Repr

structure Script where
  lat : Nat
  out : Out
deriving Repr

inductive Ev
  | innerCall (c : Id)
  | innerDone (c : Id)
  | innerDrop (c : Id)
  | result (c : Id) (r : String)
deriving Repr, DecidableEq

structure State where
  now      : Nat := 0
  free     : Nat
  queue    : List Id := []          -- waiting, FIFO, no permit yet
  assigned : List Id := []          -- handed a permit by a release, not yet polled
  running  : List Id := []          -- inner call exists
  fresh    : List Id := []          -- created, never polled
  deadline : List (Id × Nat) := []
  doneAt   : List (Id × Nat) := []  -- instant the inner call finishes (running callers)
  script   : List (Id × Script) := []
  log      : List Ev := []
deriving Repr

def lookup (l : List (Id × α)) (c : Id) : Option α := (l.find? (·.1 == c)).map (·.2)

/-- give one permit back: to the head of the queue if any, else to the pool -/
def release (s : State) : State :=
  match s.queue with
  | []      => { s with free := s.free + 1 }
  | h :: tl => { s with queue := tl, assigned := s.assigned ++ [h] }

def startInner (s : State) (c : Id) : State :=
  let lat := match lookup s.script c with | some sc => sc.lat | none => 0
  { s with running := s.running ++ [c], doneAt := (c, s.now + lat) :: s.doneAt,
           log := s.log ++ [.innerCall c] }

inductive Op
  | arrive (c : Id) (sc : Script)
  | poll (c : Id)
  | drop (c : Id)
  | adv (ms : Nat)
deriving Repr

def known (s : State) (c : Id) : Bool :=
  s.fresh.contains c || s.queue.contains c || s.assigned.contains c || s.running.contains c
  || (lookup s.script c).isSome

def pollFresh (cfg : Cfg) (s : State) (c : Id) : State :=
  let s := { s with fresh := s.fresh.erase c }
  if s.free > 0 then startInner { s with free := s.free - 1 } c
  else match cfg.maxWait with
    | some 0 => { s with log := s.log ++ [.result c "err:timeout"] }
    | some w => { s with queue := s.queue ++ [c], deadline := (c, s.now + w) :: s.deadline }
    | none   => { s with queue := s.queue ++ [c] }

def pollAssigned (s : State) (c : Id) : State :=
  startInner { s with assigned := s.assigned.erase c } c

def pollQueued (s : State) (c : Id) : State :=
  match lookup s.deadline c with
  | some d => if s.now ≥ d then
                { s with queue := s.queue.erase c, log := s.log ++ [.result c "err:timeout"] }
              else s
  | none => s

def finishRunning (s : State) (c : Id) (evs : List Ev) : State :=
  let s := release { s with running := s.running.erase c }
  { s with log := s.log ++ evs }

def pollRunning (s : State) (c : Id) : State :=
  match lookup s.doneAt c, lookup s.script c with
  | some t, some sc =>
      if s.now ≥ t ∧ sc.out ≠ .never then finishRunning s c [.innerDone c, .result c (reprStr sc.out)]
      else s
  | _, _ => s

def step (cfg : Cfg) (s : State) (op : Op) : State :=
  match op with
  | .adv ms => { s with now := s.now + ms }
  | .arrive c sc =>
      if known s c then s else { s with fresh := s.fresh ++ [c], script := (c, sc) :: s.script }
  | .poll c =>
      if s.fresh.contains c then pollFresh cfg s c
      else if s.assigned.contains c then pollAssigned s c
      else if s.queue.contains c then pollQueued s c
      else if s.running.contains c then pollRunning s c
      else s
  | .drop c =>
      if s.fresh.contains c then { s with fresh := s.fresh.erase c }
      else if s.queue.contains c then { s with queue := s.queue.erase c }
      else if s.assigned.contains c then release { s with assigned := s.assigned.erase c }
      else if s.running.contains c then finishRunning s c [.innerDrop c]
      else s

def init (cfg : Cfg) : State := { free := cfg.max }
def run (cfg : Cfg) (ops : List Op) : State := ops.foldl (step cfg) (init cfg)

/-- the counting invariant -/
def Inv (cfg : Cfg) (s : State) : Prop :=
  s.free + s.assigned.length + s.running.length = cfg.max ∧ (s.free > 0 → s.queue = [])

theorem release_inv (cfg : Cfg) (s : State)
    (h : s.free + s.assigned.length + s.running.length + 1 = cfg.max) (hq : s.free > 0 → s.queue = []) :
    Inv cfg (release s) := by
  unfold release Inv
  split <;> simp_all <;> omega

theorem length_erase_of_contains {l : List Id} {c : Id} (h : l.contains c = true) :
    (l.erase c).length + 1 = l.length := by
  have hm : c ∈ l := by simpa using h
  have := List.length_erase_of_mem hm
  have : l.length > 0 := List.length_pos_of_mem hm
  omega

theorem pollFresh_inv (cfg : Cfg) (s : State) (c : Id) (h : Inv cfg s) : Inv cfg (pollFresh cfg s c) := by
  obtain ⟨hc, hq⟩ := h
  unfold pollFresh
  simp only
  split
  · rename_i hf
    simp only [startInner, Inv, List.length_append, List.length_cons, List.length_nil]
    exact ⟨by omega, fun hpos => hq (by omega)⟩
  · rename_i hf
    have hf0 : s.free = 0 := by omega
    split <;> exact ⟨hc, fun hpos => by simp [hf0] at hpos⟩

theorem pollAssigned_inv (cfg : Cfg) (s : State) (c : Id) (ha : s.assigned.contains c = true)
    (h : Inv cfg s) : Inv cfg (pollAssigned s c) := by
  obtain ⟨hc, hq⟩ := h
  have := length_erase_of_contains ha
  simp only [pollAssigned, startInner, Inv, List.length_append, List.length_cons, List.length_nil]
  exact ⟨by omega, hq⟩

theorem pollQueued_inv (cfg : Cfg) (s : State) (c : Id) (h : Inv cfg s) : Inv cfg (pollQueued s c) := by
  obtain ⟨hc, hq⟩ := h
  unfold pollQueued
  split
  · split
    · exact ⟨hc, fun hpos => by have := hq hpos; simp_all⟩
    · exact ⟨hc, hq⟩
  · exact ⟨hc, hq⟩

theorem finishRunning_inv (cfg : Cfg) (s : State) (c : Id) (evs : List Ev)
    (hr : s.running.contains c = true) (h : Inv cfg s) : Inv cfg (finishRunning s c evs) := by
  obtain ⟨hc, hq⟩ := h
  have hl := length_erase_of_contains hr
  have := release_inv cfg { s with running := s.running.erase c } (by simp; omega) hq
  unfold finishRunning Inv at *
  simpa using this

theorem pollRunning_inv (cfg : Cfg) (s : State) (c : Id) (hr : s.running.contains c = true)
    (h : Inv cfg s) : Inv cfg (pollRunning s c) := by
  unfold pollRunning
  split
  · split
    · exact finishRunning_inv cfg s c _ hr h
    · exact h
  · exact h

theorem step_inv (cfg : Cfg) (s : State) (op : Op) (h : Inv cfg s) : Inv cfg (step cfg s op) := by
  cases op with
  | adv ms => exact h
  | arrive c sc => simp only [step]; split <;> exact h
  | poll c =>
    simp only [step]
    split
    · exact pollFresh_inv cfg s c h
    · split
      · rename_i ha; exact pollAssigned_inv cfg s c ha h
      · split
        · exact pollQueued_inv cfg s c h
        · split
          · rename_i hr; exact pollRunning_inv cfg s c hr h
          · exact h
  | drop c =>
    simp only [step]
    obtain ⟨hc, hq⟩ := h
    split
    · exact ⟨hc, hq⟩
    · split
      · exact ⟨hc, fun hpos => by have := hq hpos; simp_all⟩
      · split
        · rename_i ha
          have hl := length_erase_of_contains ha
          exact release_inv cfg { s with assigned := s.assigned.erase c } (by simp; omega) hq
        · split
          · rename_i hr; exact finishRunning_inv cfg s c _ hr ⟨hc, hq⟩
          · exact ⟨hc, hq⟩

theorem inv_reachable (cfg : Cfg) (ops : List Op) : Inv cfg (run cfg ops) := by
  unfold run
  suffices ∀ s, Inv cfg s → Inv cfg (ops.foldl (step cfg) s) from
    this _ ⟨by simp [init], fun _ => rfl⟩
  induction ops with
  | nil => intro s h; simpa
  | cons o os ih => intro s h; exact ih _ (step_inv cfg s o h)

/-- C01: never more than `max` callers inside the inner service, for every operation sequence -/
theorem C01_bound (cfg : Cfg) (ops : List Op) : (run cfg ops).running.length ≤ cfg.max := by
  have := (inv_reachable cfg ops).1; omega

/-- C07: once nothing is in flight or waiting with a permit, all capacity is back -/
theorem C07_quiescent_full (cfg : Cfg) (ops : List Op)
    (h1 : (run cfg ops).running = []) (h2 : (run cfg ops).assigned = []) :
    (run cfg ops).free = cfg.max := by
  have := (inv_reachable cfg ops).1; simp [h1, h2] at this; exact this

#print axioms C01_bound
end Bulkhead
