namespace SlidingLog

structure St where
  log    : List Nat := []   -- oldest first (the VecDeque)
  grants : List Nat := []   -- ghost: every admission instant so far, in order
  last   : Nat := 0         -- ghost: latest instant seen

def expire (W now : Nat) : List Nat → List Nat
  | [] => []
  | t :: ts => if now - t ≥ W then expire W now ts else t :: ts

/-- one `try_acquire` at instant `now` (returns whether a slot was taken) -/
def acquire (L W : Nat) (s : St) (now : Nat) : St × Bool :=
  let log' := expire W now s.log
  if log'.length < L then
    ({ log := log' ++ [now], grants := s.grants ++ [now], last := now }, true)
  else ({ s with log := log', last := now }, false)

def run (L W : Nat) : St → List Nat → St
  | s, [] => s
  | s, t :: ts => run L W (acquire L W s t).1 ts

/-- invariant: the log is the part of the admission history that has not expired -/
structure Inv (L W : Nat) (s : St) : Prop where
  split  : ∃ dropped, s.grants = dropped ++ s.log ∧ ∀ d ∈ dropped, d + W ≤ s.last
  le     : ∀ g ∈ s.grants, g ≤ s.last
  span   : ∀ i, (h : i + L < s.grants.length) → s.grants[i]'(by omega) + W ≤ s.grants[i + L]

theorem expire_split (W now : Nat) (l : List Nat) (hle : ∀ t ∈ l, t ≤ now) :
    ∃ e, l = e ++ expire W now l ∧ ∀ t ∈ e, t + W ≤ now := by
  induction l with
  | nil => exact ⟨[], rfl, by simp⟩
  | cons t ts ih =>
    unfold expire
    split
    · obtain ⟨e, he, hd⟩ := ih (fun x hx => hle x (List.mem_cons_of_mem _ hx))
      refine ⟨t :: e, by rw [List.cons_append, ← he], ?_⟩
      intro x hx
      cases hx with
      | head => have := hle t (List.mem_cons_self); omega
      | tail _ h => exact hd x h
    · exact ⟨[], rfl, by simp⟩

theorem acquire_inv (L W : Nat) (s : St) (now : Nat) (hmono : s.last ≤ now)
    (h : Inv L W s) : Inv L W (acquire L W s now).1 := by
  obtain ⟨⟨dropped, hsplit, hdrop⟩, hle, hspan⟩ := h
  have hlog_le : ∀ t ∈ s.log, t ≤ now := fun t ht =>
    Nat.le_trans (hle t (by rw [hsplit]; exact List.mem_append_right _ ht)) hmono
  obtain ⟨e, he, hexp⟩ := expire_split W now s.log hlog_le
  unfold acquire
  simp only
  split
  · -- admitted
    rename_i hlen
    refine ⟨⟨dropped ++ e, ?_, ?_⟩, ?_, ?_⟩
    · simp only; rw [hsplit]; conv => lhs; rw [he]
      simp [List.append_assoc]
    · intro d hd
      simp only
      rcases List.mem_append.mp hd with hd | hd
      · have := hdrop d hd; omega
      · exact hexp d hd
    · intro g hg
      simp only at hg ⊢
      rcases List.mem_append.mp hg with hg | hg
      · exact Nat.le_trans (hle g hg) hmono
      · simp at hg; omega
    · intro i hi
      simp only [List.length_append, List.length_cons, List.length_nil] at hi
      simp only
      by_cases hlast : i + L < s.grants.length
      · -- both indices in the old history
        have := hspan i hlast
        rw [List.getElem_append_left (by omega), List.getElem_append_left hlast]
        exact this
      · -- the new admission is the later one: the earlier one has expired
        have hiL : i + L = s.grants.length := by omega
        have hglen : s.grants.length = dropped.length + e.length + (expire W now s.log).length := by
          rw [hsplit]; conv => lhs; rw [he]
          simp [List.length_append]; omega
        have hi_lt : i < (dropped ++ e).length := by simp [List.length_append]; omega
        have hgr : s.grants = (dropped ++ e) ++ expire W now s.log := by
          rw [hsplit]; conv => lhs; rw [he]
          simp [List.append_assoc]
        have hmem : s.grants[i]'(by omega) ∈ dropped ++ e := by
          have : s.grants[i]'(by omega) = (dropped ++ e)[i] := by
            simp only [hgr]; rw [List.getElem_append_left hi_lt]
          rw [this]; exact List.getElem_mem _
        have hold : s.grants[i]'(by omega) + W ≤ now := by
          rcases List.mem_append.mp hmem with hd | hd
          · have := hdrop _ hd; omega
          · exact hexp _ hd
        rw [List.getElem_append_left (by omega)]
        have : (s.grants ++ [now])[i + L]'(by simp; omega) = now := by
          rw [List.getElem_append_right (by omega)]; simp [hiL]
        rw [this]; exact hold
  · -- not admitted: only expiry happened
    refine ⟨⟨dropped ++ e, ?_, ?_⟩, ?_, ?_⟩
    · simp only; rw [hsplit]; conv => lhs; rw [he]
      simp [List.append_assoc]
    · intro d hd
      simp only
      rcases List.mem_append.mp hd with hd | hd
      · have := hdrop d hd; omega
      · exact hexp d hd
    · intro g hg; exact Nat.le_trans (hle g hg) hmono
    · exact hspan

/-- instants fed to the limiter never go backwards (monotonic clock) -/
def Mono : Nat → List Nat → Prop
  | _, [] => True
  | last, t :: ts => last ≤ t ∧ Mono t ts

theorem run_inv (L W : Nat) (s : St) (ts : List Nat) (hm : Mono s.last ts) (h : Inv L W s) :
    Inv L W (run L W s ts) := by
  induction ts generalizing s with
  | nil => exact h
  | cons t ts ih =>
    unfold run
    have hl : (acquire L W s t).1.last = t := by unfold acquire; simp only; split <;> rfl
    exact ih _ (by rw [hl]; exact hm.2) (acquire_inv L W s t hm.1 h)

/-- C02 (sliding log): any L+1 consecutive admissions span at least one full period,
    for every sequence of instants and every number of callers. -/
theorem C02_log_span (L W : Nat) (ts : List Nat) (hm : Mono 0 ts) (i : Nat)
    (h : i + L < (run L W {} ts).grants.length) :
    (run L W {} ts).grants[i]'(by omega) + W ≤ (run L W {} ts).grants[i + L] :=
  (run_inv L W {} ts hm ⟨⟨[], by simp, by simp⟩, by simp, by simp⟩).span i h

-- non-vacuity: L = 2, W = 100; 0,0 admitted; 50 refused; 100,100 admitted
example : (run 2 100 {} [0, 0, 50, 100, 100, 150]).grants = [0, 0, 100, 100] := by decide
#print axioms C02_log_span
end SlidingLog
