namespace Lru

/-- LRU store: (key, value), most recently used first -/
structure St where
  cap    : Nat
  items  : List (Nat × Nat) := []
  latest : Nat → Option Nat := fun _ => none     -- ghost: last value stored for each key

def rm (k : Nat) (l : List (Nat × Nat)) : List (Nat × Nat) := l.filter (fun p => p.1 != k)

/-- `push`: replaces and promotes a present key, evicts the least recently used when full -/
def push (s : St) (k v : Nat) : St :=
  { s with items := (k, v) :: ((rm k s.items).take (s.cap - 1)),
           latest := fun j => if j = k then some v else s.latest j }

/-- `get`: promotes on a hit -/
def get (s : St) (k : Nat) : St × Option Nat :=
  match s.items.find? (fun p => p.1 == k) with
  | some p => ({ s with items := p :: rm k s.items }, some p.2)
  | none   => (s, none)

structure Inv (s : St) : Prop where
  cap_pos : 0 < s.cap
  size    : s.items.length ≤ s.cap
  uniq    : (s.items.map (·.1)).Nodup
  fresh   : ∀ p ∈ s.items, s.latest p.1 = some p.2

theorem rm_sub (k : Nat) (l : List (Nat × Nat)) : List.Sublist (rm k l) l := List.filter_sublist

theorem mem_rm {k : Nat} {l : List (Nat × Nat)} {p : Nat × Nat} (h : p ∈ rm k l) : p ∈ l ∧ p.1 ≠ k := by
  simp [rm] at h; exact h

theorem nodup_keys_sub {a b : List (Nat × Nat)} (h : List.Sublist a b) (hb : (b.map (·.1)).Nodup) :
    (a.map (·.1)).Nodup := (h.map _).nodup hb

theorem push_inv (s : St) (k v : Nat) (h : Inv s) : Inv (push s k v) := by
  obtain ⟨hc, hs, hu, hf⟩ := h
  have hsub : List.Sublist ((rm k s.items).take (s.cap - 1)) s.items :=
    (List.take_sublist _ _).trans (rm_sub k s.items)
  refine ⟨hc, ?_, ?_, ?_⟩
  · simp only [push, List.length_cons, List.length_take]; omega
  · simp only [push, List.map_cons, List.nodup_cons]
    refine ⟨?_, nodup_keys_sub hsub hu⟩
    intro hk
    obtain ⟨p, hp, hpk⟩ := List.mem_map.mp hk
    have := mem_rm (List.mem_of_mem_take hp)
    exact this.2 hpk
  · intro p hp
    simp only [push, List.mem_cons] at hp
    rcases hp with rfl | hp
    · simp [push]
    · have hm := mem_rm (List.mem_of_mem_take hp)
      simp only [push, hm.2, if_false]
      exact hf p hm.1

theorem get_inv (s : St) (k : Nat) (h : Inv s) : Inv (get s k).1 := by
  obtain ⟨hc, hs, hu, hf⟩ := h
  unfold get
  split
  · rename_i p hfind
    have hp : p ∈ s.items := List.mem_of_find?_eq_some hfind
    have hpk : p.1 = k := by have := List.find?_some hfind; simpa using this
    refine ⟨hc, ?_, ?_, ?_⟩
    · -- removing the (unique) entry for k and putting it in front keeps the length
      simp only [List.length_cons]
      have hlt : (rm k s.items).length < s.items.length := by
        unfold rm
        apply List.length_filter_lt_length_iff_exists.mpr
        exact ⟨p, hp, by simp [hpk]⟩
      omega
    · simp only [List.map_cons, List.nodup_cons]
      refine ⟨?_, nodup_keys_sub (rm_sub k s.items) hu⟩
      intro hk
      obtain ⟨q, hq, hqk⟩ := List.mem_map.mp hk
      have := (mem_rm hq).2
      rw [hqk, hpk] at this; exact this rfl
    · intro q hq
      simp only [List.mem_cons] at hq
      rcases hq with rfl | hq
      · exact hf _ hp
      · exact hf q (mem_rm hq).1
  · exact ⟨hc, hs, hu, hf⟩

/-- C10 (LRU part): a hit returns exactly the value most recently stored under that key -/
theorem hit_is_latest (s : St) (k : Nat) (h : Inv s) (v : Nat) (hv : (get s k).2 = some v) :
    s.latest k = some v := by
  unfold get at hv
  split at hv
  · rename_i p hfind
    have hp : p ∈ s.items := List.mem_of_find?_eq_some hfind
    have hpk : p.1 = k := by have := List.find?_some hfind; simpa using this
    have := h.fresh p hp
    simp at hv; rw [← hpk, this, hv]
  · simp at hv

inductive Op | push (k v : Nat) | get (k : Nat)

def step (s : St) : Op → St
  | .push k v => push s k v
  | .get k => (get s k).1

theorem reachable_inv (cap : Nat) (hc : 0 < cap) (ops : List Op) :
    Inv (ops.foldl step { cap := cap }) := by
  suffices ∀ s, Inv s → Inv (ops.foldl step s) from this _ ⟨hc, by simp, by simp, by simp⟩
  induction ops with
  | nil => intro s h; exact h
  | cons o os ih =>
    intro s h
    apply ih
    cases o with
    | push k v => exact push_inv s k v h
    | get k => exact get_inv s k h

theorem cap_const (s : St) (ops : List Op) : (ops.foldl step s).cap = s.cap := by
  induction ops generalizing s with
  | nil => rfl
  | cons o os ih =>
    simp only [List.foldl_cons]; rw [ih]
    cases o with
    | push k v => rfl
    | get k => simp only [step, get]; split <;> rfl

/-- size bound and key uniqueness for every history; hit = latest stored value for every history -/
theorem C10_lru (cap : Nat) (hc : 0 < cap) (ops : List Op) (k v : Nat)
    (hv : (get (ops.foldl step { cap := cap }) k).2 = some v) :
    (ops.foldl step { cap := cap }).items.length ≤ cap ∧
    (ops.foldl step { cap := cap }).latest k = some v :=
  ⟨by have := (reachable_inv cap hc ops).size; rw [cap_const] at this; exact this, hit_is_latest _ k (reachable_inv cap hc ops) v hv⟩

-- non-vacuity / policy: cap 2; a, b stored; a read; c stored ⇒ b (least recently used) is the victim
example : ((([Op.push 1 10, .push 2 20, .get 1, .push 3 30].foldl step { cap := 2 }).items).map (·.1)) = [3, 1] := by decide
#print axioms C10_lru
end Lru
