namespace Stack



/-- what happens at one service boundary: instances are numbered in creation order -/
inductive Ev
  | clone (src : Nat)              -- the new instance gets the next free id
  | poll (i : Nat) (ok : Bool)     -- poll_ready on instance i; ok = Ready(Ok(()))
  | call (i : Nat) (req : Nat)
deriving DecidableEq, Repr

def upd (f : Nat → α) (i : Nat) (v : α) : Nat → α := fun j => if j = i then v else f j

/-- the strict service's view of one boundary: how many instances exist, and which of them
    have observed readiness since their last call -/
structure Mon where
  n : Nat := 1
  ready : Nat → Bool := fun _ => false

/-- `none` = contract broken (call without readiness, or use of a non-existent instance) -/
def Mon.step (m : Mon) : Ev → Option Mon
  | .clone s   => if s < m.n then some { n := m.n + 1, ready := upd m.ready m.n false } else none
  | .poll i ok => if i < m.n then some { m with ready := upd m.ready i (ok || m.ready i) } else none
  | .call i _  => if i < m.n ∧ m.ready i = true then some { m with ready := upd m.ready i false } else none

def Mon.run : Mon → List Ev → Option Mon
  | m, [] => some m
  | m, e :: es => match m.step e with | some m' => m'.run es | none => none

def Respects (t : List Ev) : Prop := (Mon.run {} t).isSome
instance (t : List Ev) : Decidable (Respects t) := by unfold Respects; infer_instance

/-- how a layer treats the instance it wraps -/
inductive Kind
  | takeReady   -- call(): clone inner, keep the clone, call the instance that was polled  (repaired idiom)
  | direct      -- call(): call self.inner itself                                          (cache, coalesce, adaptive)
  | freshClone  -- call(): clone inner, call the clone                                      (pinned tree)
deriving DecidableEq, Repr

structure LSt where
  cur : Nat → Nat := fun _ => 0   -- outer instance ↦ the inner instance it currently holds
  nO  : Nat := 1
  nI  : Nat := 1

/-- one layer as a transducer from events at its outer boundary to events at its inner one -/
def stepL (k : Kind) (s : LSt) : Ev → LSt × List Ev
  | .clone o   => ({ cur := upd s.cur s.nO s.nI, nO := s.nO + 1, nI := s.nI + 1 }, [.clone (s.cur o)])
  | .poll o ok => (s, [.poll (s.cur o) ok])
  | .call o r  =>
    match k with
    | .takeReady  => ({ s with cur := upd s.cur o s.nI, nI := s.nI + 1 }, [.clone (s.cur o), .call (s.cur o) r])
    | .direct     => (s, [.call (s.cur o) r])
    | .freshClone => ({ s with nI := s.nI + 1 }, [.clone (s.cur o), .call s.nI r])

def runL (k : Kind) : LSt → List Ev → List Ev
  | _, [] => []
  | s, e :: es => (stepL k s e).2 ++ runL k (stepL k s e).1 es

/-- a stack, outermost layer first -/
def runStack : List Kind → List Ev → List Ev
  | [], t => t
  | k :: ks, t => runStack ks (runL k {} t)

/-- link between the two boundaries of one layer -/
structure Link (s : LSt) (mo mi : Mon) : Prop where
  nO   : mo.n = s.nO
  nI   : mi.n = s.nI
  lt   : ∀ o, o < s.nO → s.cur o < s.nI
  inj  : ∀ o o', o < s.nO → o' < s.nO → s.cur o = s.cur o' → o = o'
  rdy  : ∀ o, o < s.nO → mo.ready o = true → mi.ready (s.cur o) = true

theorem run_append (m : Mon) (a b : List Ev) :
    Mon.run m (a ++ b) = (Mon.run m a).bind (fun m' => Mon.run m' b) := by
  induction a generalizing m with
  | nil => simp [Mon.run]
  | cons e es ih =>
    simp only [List.cons_append, Mon.run]
    cases h : m.step e with
    | none => simp
    | some m' => simp [ih]

theorem step_clone_some (m m' : Mon) (o : Nat) :
    m.step (.clone o) = some m' ↔ o < m.n ∧ m' = { n := m.n + 1, ready := upd m.ready m.n false } := by
  simp only [Mon.step]
  by_cases h : o < m.n
  · simp only [h, if_true, true_and, Option.some.injEq]; exact eq_comm
  · simp [h]

theorem step_poll_some (m m' : Mon) (o : Nat) (ok : Bool) :
    m.step (.poll o ok) = some m' ↔ o < m.n ∧ m' = { m with ready := upd m.ready o (ok || m.ready o) } := by
  simp only [Mon.step]
  by_cases h : o < m.n
  · simp only [h, if_true, true_and, Option.some.injEq]; exact eq_comm
  · simp [h]

theorem step_call_some (m m' : Mon) (o : Nat) (r : Nat) :
    m.step (.call o r) = some m' ↔ (o < m.n ∧ m.ready o = true) ∧ m' = { m with ready := upd m.ready o false } := by
  simp only [Mon.step]
  by_cases h : o < m.n ∧ m.ready o = true
  · simp only [h, and_self, if_true, true_and, Option.some.injEq]; exact eq_comm
  · simp only [h, if_false, false_and]; simp

theorem run_one (m : Mon) (e : Ev) : Mon.run m [e] = m.step e := by
  simp only [Mon.run]; cases m.step e <;> rfl

theorem run_two (m m1 : Mon) (e1 e2 : Ev) (h : m.step e1 = some m1) :
    Mon.run m [e1, e2] = m1.step e2 := by
  simp only [Mon.run, h]; cases m1.step e2 <;> rfl

theorem upd_same (f : Nat → α) (i : Nat) (v : α) : upd f i v i = v := by simp [upd]
theorem upd_other (f : Nat → α) (i j : Nat) (v : α) (h : j ≠ i) : upd f i v j = f j := by simp [upd, h]

/-- one outer step that the outer monitor accepts is matched by inner steps the inner monitor accepts -/
theorem step_link (k : Kind) (hk : k ≠ .freshClone) (s : LSt) (mo mi : Mon) (e : Ev) (mo' : Mon)
    (hl : Link s mo mi) (ho : mo.step e = some mo') :
    ∃ mi', Mon.run mi (stepL k s e).2 = some mi' ∧ Link (stepL k s e).1 mo' mi' := by
  obtain ⟨hnO, hnI, hlt, hinj, hrdy⟩ := hl
  cases e with
  | clone o =>
    obtain ⟨hon, rfl⟩ := (step_clone_some _ _ _).mp ho
    have hc := hlt o (by omega)
    refine ⟨{ n := mi.n + 1, ready := upd mi.ready mi.n false }, ?_, ?_⟩
    · show Mon.run mi [Ev.clone (s.cur o)] = _
      rw [run_one]; exact (step_clone_some _ _ _).mpr ⟨by omega, rfl⟩
    · refine ⟨by simp [stepL, hnO], by simp [stepL, hnI], ?_, ?_, ?_⟩
      · intro o' ho'
        show upd s.cur s.nO s.nI o' < s.nI + 1
        by_cases h : o' = s.nO
        · rw [h, upd_same]; omega
        · rw [upd_other _ _ _ _ h]
          have ho'' : o' < s.nO + 1 := ho'
          have := hlt o' (by omega); omega
      · intro a b ha hb hab
        have ha' : a < s.nO + 1 := ha
        have hb' : b < s.nO + 1 := hb
        have hab' : upd s.cur s.nO s.nI a = upd s.cur s.nO s.nI b := hab
        by_cases h1 : a = s.nO <;> by_cases h2 : b = s.nO
        · omega
        · rw [h1, upd_same, upd_other _ _ _ _ h2] at hab'
          have := hlt b (by omega); omega
        · rw [h2, upd_same, upd_other _ _ _ _ h1] at hab'
          have := hlt a (by omega); omega
        · rw [upd_other _ _ _ _ h1, upd_other _ _ _ _ h2] at hab'
          exact hinj a b (by omega) (by omega) hab'
      · intro o' ho' hr
        have ho'' : o' < s.nO + 1 := ho'
        have hr' : upd mo.ready mo.n false o' = true := hr
        show upd mi.ready mi.n false (upd s.cur s.nO s.nI o') = true
        by_cases h : o' = mo.n
        · rw [h, upd_same] at hr'; simp at hr'
        · rw [upd_other _ _ _ _ h] at hr'
          have h' : o' ≠ s.nO := by omega
          rw [upd_other _ _ _ _ h']
          have h1 := hlt o' (by omega)
          rw [upd_other _ _ _ _ (by omega)]
          exact hrdy o' (by omega) hr'
  | poll o ok =>
    obtain ⟨hon, rfl⟩ := (step_poll_some _ _ _ _).mp ho
    have hc := hlt o (by omega)
    refine ⟨{ mi with ready := upd mi.ready (s.cur o) (ok || mi.ready (s.cur o)) }, ?_, ?_⟩
    · show Mon.run mi [Ev.poll (s.cur o) ok] = _
      rw [run_one]; exact (step_poll_some _ _ _ _).mpr ⟨by omega, rfl⟩
    · refine ⟨hnO, hnI, hlt, hinj, ?_⟩
      intro o' ho' hr
      have hr' : upd mo.ready o (ok || mo.ready o) o' = true := hr
      show upd mi.ready (s.cur o) (ok || mi.ready (s.cur o)) (s.cur o') = true
      by_cases h : o' = o
      · rw [h, upd_same] at hr'; rw [h, upd_same]
        cases ok with
        | true => rfl
        | false => simp at hr' ⊢; exact hrdy o (by omega) hr'
      · rw [upd_other _ _ _ _ h] at hr'
        have hne : s.cur o' ≠ s.cur o := fun heq => h (hinj o' o ho' (by omega) heq)
        rw [upd_other _ _ _ _ hne]; exact hrdy o' ho' hr'
  | call o r =>
    obtain ⟨hon, rfl⟩ := (step_call_some _ _ _ _).mp ho
    have hc := hlt o (by omega)
    have hr := hrdy o (by omega) hon.2
    cases k with
    | freshClone => exact absurd rfl hk
    | direct =>
      refine ⟨{ mi with ready := upd mi.ready (s.cur o) false }, ?_, ?_⟩
      · show Mon.run mi [Ev.call (s.cur o) r] = _
        rw [run_one]; exact (step_call_some _ _ _ _).mpr ⟨⟨by omega, hr⟩, rfl⟩
      · refine ⟨hnO, hnI, hlt, hinj, ?_⟩
        intro o' ho' hr'
        have hr'' : upd mo.ready o false o' = true := hr'
        show upd mi.ready (s.cur o) false (s.cur o') = true
        by_cases h : o' = o
        · rw [h, upd_same] at hr''; simp at hr''
        · rw [upd_other _ _ _ _ h] at hr''
          have hne : s.cur o' ≠ s.cur o := fun heq => h (hinj o' o ho' (by omega) heq)
          rw [upd_other _ _ _ _ hne]; exact hrdy o' ho' hr''
    | takeReady =>
      let m1 : Mon := { n := mi.n + 1, ready := upd mi.ready mi.n false }
      have h1 : mi.step (.clone (s.cur o)) = some m1 := (step_clone_some _ _ _).mpr ⟨by omega, rfl⟩
      have hr1 : m1.ready (s.cur o) = true := by
        show upd mi.ready mi.n false (s.cur o) = true
        rw [upd_other _ _ _ _ (by omega)]; exact hr
      refine ⟨{ m1 with ready := upd m1.ready (s.cur o) false }, ?_, ?_⟩
      · show Mon.run mi [Ev.clone (s.cur o), Ev.call (s.cur o) r] = _
        rw [run_two _ _ _ _ h1]
        exact (step_call_some _ _ _ _).mpr ⟨⟨by show s.cur o < mi.n + 1; omega, hr1⟩, rfl⟩
      · refine ⟨hnO, by show mi.n + 1 = s.nI + 1; omega, ?_, ?_, ?_⟩
        · intro o' ho'
          show upd s.cur o s.nI o' < s.nI + 1
          by_cases h : o' = o
          · rw [h, upd_same]; omega
          · rw [upd_other _ _ _ _ h]; have := hlt o' ho'; omega
        · intro a b ha hb hab
          have hab' : upd s.cur o s.nI a = upd s.cur o s.nI b := hab
          by_cases h1 : a = o <;> by_cases h2 : b = o
          · omega
          · rw [h1, upd_same, upd_other _ _ _ _ h2] at hab'
            have := hlt b hb; omega
          · rw [h2, upd_same, upd_other _ _ _ _ h1] at hab'
            have := hlt a ha; omega
          · rw [upd_other _ _ _ _ h1, upd_other _ _ _ _ h2] at hab'
            exact hinj a b ha hb hab'
        · intro o' ho' hr'
          have hr'' : upd mo.ready o false o' = true := hr'
          show upd (upd mi.ready mi.n false) (s.cur o) false (upd s.cur o s.nI o') = true
          by_cases h : o' = o
          · rw [h, upd_same] at hr''; simp at hr''
          · rw [upd_other _ _ _ _ h] at hr''
            rw [upd_other _ _ _ _ h]
            have hne : s.cur o' ≠ s.cur o := fun heq => h (hinj o' o ho' (by omega) heq)
            have hlt' := hlt o' ho'
            rw [upd_other _ _ _ _ hne, upd_other _ _ _ _ (by omega)]
            exact hrdy o' ho' hr''

theorem run_link (k : Kind) (hk : k ≠ .freshClone) (t : List Ev) (s : LSt) (mo mi mo' : Mon)
    (hl : Link s mo mi) (ho : Mon.run mo t = some mo') :
    ∃ mi', Mon.run mi (runL k s t) = some mi' := by
  induction t generalizing s mo mi with
  | nil => exact ⟨mi, rfl⟩
  | cons e es ih =>
    simp only [Mon.run] at ho
    cases h : mo.step e with
    | none => simp [h] at ho
    | some m1 =>
      simp only [h] at ho
      obtain ⟨mi1, hrun, hl1⟩ := step_link k hk s mo mi e m1 hl h
      obtain ⟨mi2, h2⟩ := ih _ _ _ hl1 ho
      refine ⟨mi2, ?_⟩
      simp only [runL, run_append, hrun, Option.bind]
      exact h2

/-- one repaired layer: if its user honours the readiness contract, it honours it towards its inner service -/
theorem layer_contract (k : Kind) (hk : k ≠ .freshClone) (t : List Ev) (h : Respects t) :
    Respects (runL k {} t) := by
  unfold Respects at *
  obtain ⟨mo', hmo⟩ := Option.isSome_iff_exists.mp h
  have hl : Link {} {} {} := ⟨rfl, rfl, by intro o h; simp at h ⊢, by intro a b ha hb _; simp at ha hb; omega,
    by intro o _ h; simp at h⟩
  obtain ⟨mi', hmi⟩ := run_link k hk t {} {} {} mo' hl hmo
  simp [hmi]

/-- C20 (readiness): EVERY stack built from repaired layers honours the contract at the bottom -/
theorem stack_contract (ks : List Kind) (hks : ∀ k ∈ ks, k ≠ .freshClone) (t : List Ev) (h : Respects t) :
    Respects (runStack ks t) := by
  induction ks generalizing t with
  | nil => exact h
  | cons k ks ih =>
    exact ih (fun k' hk' => hks k' (List.mem_cons_of_mem _ hk')) _
      (layer_contract k (hks k List.mem_cons_self) t h)

/-- the pinned idiom breaks it on the very first request -/
theorem freshClone_violates : ¬ Respects (runStack [.freshClone] [.poll 0 true, .call 0 7]) := by
  decide

-- non-vacuity: a contract-respecting driver exists, and a 3-layer stack passes it through
example : Respects [.poll 0 true, .call 0 7, .clone 0, .poll 1 true, .poll 0 true, .call 1 8, .call 0 9] := by decide
example : runStack [.takeReady, .direct, .takeReady] [.poll 0 true, .call 0 7]
    = [.poll 0 true, .clone 0, .clone 0, .call 0 7] := by decide

#print axioms stack_contract
end Stack
