#!/bin/sh
# Build the framework offline from files on disk: the Lean project (all proofs) and the Rust harness.
set -e
cd "$(dirname "$0")"
export CARGO_NET_OFFLINE=true
( cd lean && lake build )
cp /repo/Cargo.lock harness/Cargo.lock
( cd harness && cargo build --offline --quiet )
harness/target/debug/trh --selftest
