//! Tells the harness which optional verification hooks the repository copy it is built against offers
//! (`tower-resilience-core/src/verif.rs`, cargo feature `verif-hooks`): `cfg(weak_hook)` iff `set_weak_fail_hook`
//! exists there (spurious failures of `compare_exchange_weak` as schedulable turns, C13). Without it the harness still
//! builds; a `f<tid>` turn of a schedule is then an ordinary turn of thread `tid`.
use std::path::PathBuf;

fn main() {
    println!("cargo:rustc-check-cfg=cfg(weak_hook)");
    println!("cargo:rerun-if-changed=Cargo.toml");
    println!("cargo:rerun-if-changed=build.rs");
    let manifest = std::fs::read_to_string("Cargo.toml").unwrap_or_default();
    let mut core: Option<PathBuf> = None;
    for l in manifest.lines() {
        if l.trim_start().starts_with("tower-resilience-core") {
            if let Some(i) = l.find("path = \"") {
                let rest = &l[i + 8..];
                if let Some(j) = rest.find('"') {
                    core = Some(PathBuf::from(&rest[..j]));
                }
            }
        }
    }
    if let Some(p) = core {
        let f = p.join("src").join("verif.rs");
        println!("cargo:rerun-if-changed={}", f.display());
        if std::fs::read_to_string(&f).map(|s| s.contains("pub fn set_weak_fail_hook")).unwrap_or(false) {
            println!("cargo:rustc-cfg=weak_hook");
        }
    }
}
