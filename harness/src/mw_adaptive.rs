//! C13 (part B): the real `AdaptiveLimiterLayer` / `AdaptiveService` over the scripted inner service.
//! header: `adaptive kind=aimd|vegas min= max= initial= inc= fnum= fden= thr_ms= alpha= beta=`
//! `arrive` = clone, `poll_ready`, `call` (refusal: `result c notready`); `manual check c=<c>` does the
//! clone + `poll_ready` now and keeps the ready clone for a later `arrive c` (which then only calls);
//! `manual warm prog=…` feeds the algorithm directly (sequential); probes `in_flight`, `limit`, `ready`.
//! `arrive … keep=1` (world.rs): the caller keeps the resolved `AdaptiveFuture` alive (it is wrapped by `held`) until
//! `release <c>` — the slot must be free from the completion on, not from the release on.
//!
//! An inner service that is not ready at once (`Inner::strict`): persistent handles `h=1,2,…` (clones that live across
//! operations). `manual ready h=<h> rdy=<r|p|e>` = one `poll_ready` on handle h, the inner service answering this poll
//! with ready / pending / error *if it is asked* (`ready <h> ready|refused|pending|error`: `refused` = Pending without
//! the inner service having been asked, i.e. the capacity check said no); `arrive <c> … h=<h> [rdy=…]` = the caller
//! uses handle h: `call` if its last `poll_ready` said Ready, otherwise one `poll_ready` first (`result c notready` /
//! `notready-inner` / `notready-error`).
//!
//! Clones on several OS threads under the baton scheduler (the service's own atomics are hooked too):
//! `manual thread t=<i> prog=<A|E|P|C|D|I|S<d>|F|L…>` (A/E/P = poll_ready + call of a request whose inner call will
//! succeed / fail / panic at its first poll; C = poll the oldest call future of this thread; D = drop it unpolled;
//! I = `in_flight()`; S<d>/F/L as in `mw_limit`), `manual sched s=<tid,…>`: every operation starts with an explicit
//! yield point, then one turn per hooked atomic. What a thread still holds at the end is dropped after the round.
//!
//! `arrive … callpanic=1` (on a fresh clone, a checked clone or a persistent handle): the wrapped service's
//! `Service::call` itself panics for this request (`CallPanic`: what Buffer / ConcurrencyLimit do when called without
//! readiness, a `service_fn` closure that panics before its async block) — no future is ever returned; the adapter
//! catches the unwind around `svc.call(req)` and logs `result c panic`. The limiter's handles stay in use afterwards.
//!
//! Construction paths and several services (header options, all defaulting to what the older op files meant):
//! `via=builder|new|layer` how the algorithm is built (see `mw_limit`), `alg=enum|direct` whether the service runs over the
//! `Algorithm` enum or over the concrete `Aimd` / `Vegas`, `lay=new|into` `AdaptiveLimiterLayer::new(a)` or
//! `a.into_layer()`, `lclone=1` service 0 comes from a CLONE of the layer. `svc=<k>` on `arrive`, `probe`, `manual check /
//! ready / thread / sched`: service k, built at its first use from the same layer value (even k) or from the clone of the
//! layer (odd k; with `lclone=1` the other way round) over a clone of the same scripted inner service. As documented, the
//! services of one layer SHARE the algorithm (the layer holds it in an `Arc`) and nothing else: each has its own
//! `in_flight` counter, mirror and handles. Probes of a service other than 0 say which (`… svc=<k>`).
//!
//! Protocol level: every `manual sched` round and every `manual warm` records the value-level trace of the hooked
//! atomics with the begin / end of every thread operation (`@tr=`), the limit cell and the in-flight cell being the ones
//! `limit()` / `in_flight()` load; the model's verified checker confirms or refutes the claim `trace-ok`.
use crate::mw_limit::{
    build_algorithm, lat_ns, log_protocol, parse_prog, render_outs, run_prog_traced, trace_text, traced_sequential, FOp,
};
use crate::sched::{atrace_push, atrace_take, observe_here, probe_cell, run_scheduled_with, unobserve_here};
use crate::world::*;
use std::collections::{BTreeMap, BTreeSet, VecDeque};
use std::future::Future;
use std::panic::{catch_unwind, AssertUnwindSafe};
use std::pin::Pin;
use std::sync::atomic::Ordering;
use std::sync::{Arc, Mutex};
use std::task::{Context, Poll, Waker};
use tower::{Layer, Service};
use tower_resilience_adaptive::{
    AdaptiveError, AdaptiveLimiterLayer, AdaptiveService, Aimd, Algorithm, ConcurrencyAlgorithm, IntoLayer, Vegas,
};

/// The scripted inner service, except that `call()` itself panics for a request marked `callpanic=1` (the panic
/// happens inside `Service::call`, before any future exists). Nothing is logged and no serial number is consumed:
/// the scripted service is not reached.
#[derive(Clone)]
pub struct CallPanic {
    inner: Inner,
}
const CALL_PANIC: u64 = u64::MAX;
impl Service<Req> for CallPanic {
    type Response = Resp;
    type Error = IErr;
    type Future = <Inner as Service<Req>>::Future;
    fn poll_ready(&mut self, cx: &mut Context<'_>) -> Poll<Result<(), IErr>> {
        self.inner.poll_ready(cx)
    }
    fn call(&mut self, req: Req) -> Self::Future {
        if req.tag == CALL_PANIC {
            panic!("scripted panic inside call()");
        }
        self.inner.call(req)
    }
}

/// the algorithm types a service can be built over through the public API (`Algorithm`, `Aimd`, `Vegas`)
pub trait Alg: ConcurrencyAlgorithm + IntoLayer<Algorithm = Self> + Sized + 'static {}
impl<T: ConcurrencyAlgorithm + IntoLayer<Algorithm = T> + Sized + 'static> Alg for T {}

type Svc<A> = AdaptiveService<CallPanic, A>;
type Fut = tower_resilience_adaptive::AdaptiveFuture<Resp, IErr>;

pub struct Adapter<A: Alg> {
    /// the layer value every service is built from, and a clone of it taken before any service was built (service 0 comes
    /// from it with `lclone=1`); the other services of odd index (even with `lclone=1`) are built from a clone of the layer
    /// taken at that moment — after the services before them have been built from the original
    layer: AdaptiveLimiterLayer<A>,
    layer2: AdaptiveLimiterLayer<A>,
    lclone: usize,
    inner: Inner,
    svcs: BTreeMap<usize, Svc<A>>,
    /// the inner service's shared state: the readiness answer for the next scripted poll is put there
    shared: Arc<Mutex<InnerShared>>,
    checked: BTreeMap<usize, Svc<A>>,
    arrived: BTreeSet<usize>,
    /// a caller stays with the service it first named (ahead-of-time check or arrival)
    home: BTreeMap<usize, usize>,
    /// persistent handles (per service): the clone and whether its most recent `poll_ready` answered Ready (no call since)
    handles: BTreeMap<(usize, usize), (Svc<A>, bool)>,
    progs: BTreeMap<usize, Vec<String>>,
}

/// the adapter over the algorithm type the header asks for
pub fn make(kv: &Kv) -> Box<dyn Mw> {
    if kv.str("alg", "enum") == "direct" {
        match build_algorithm(kv) {
            Algorithm::Aimd(a) => Box::new(Adapter::<Aimd>::new(kv, a)),
            Algorithm::Vegas(v) => Box::new(Adapter::<Vegas>::new(kv, v)),
        }
    } else {
        Box::new(Adapter::<Algorithm>::new(kv, build_algorithm(kv)))
    }
}

impl<A: Alg> Adapter<A> {
    pub fn new(kv: &Kv, alg: A) -> Adapter<A> {
        let layer = if kv.str("lay", "new") == "into" { alg.into_layer() } else { AdaptiveLimiterLayer::new(alg) };
        let layer2 = layer.clone();
        let inner = Inner::strict("");
        let shared = inner.shared.clone();
        let mut a = Adapter {
            layer,
            layer2,
            lclone: kv.u64("lclone", 0) as usize,
            inner,
            svcs: BTreeMap::new(),
            shared,
            checked: BTreeMap::new(),
            arrived: BTreeSet::new(),
            home: BTreeMap::new(),
            handles: BTreeMap::new(),
            progs: BTreeMap::new(),
        };
        a.svc(0);
        a
    }
    /// service k, built at its first use
    fn svc(&mut self, k: usize) -> &mut Svc<A> {
        if !self.svcs.contains_key(&k) {
            let s = if (k + self.lclone) % 2 == 0 {
                self.layer.layer(CallPanic { inner: self.inner.clone() })
            } else if k == 0 {
                // a clone of the layer taken before any service existed
                self.layer2.layer(CallPanic { inner: self.inner.clone() })
            } else {
                // a clone of the layer taken now, after other services were built from the original
                self.layer.clone().layer(CallPanic { inner: self.inner.clone() })
            };
            self.svcs.insert(k, s);
        }
        self.svcs.get_mut(&k).unwrap()
    }
}

fn svc_of(kv: &Kv) -> usize {
    kv.u64("svc", 0) as usize
}
fn svc_suffix(k: usize) -> String {
    if k == 0 {
        String::new()
    } else {
        format!(" svc={}", k)
    }
}

pub fn render(r: Result<Resp, AdaptiveError<IErr>>) -> String {
    match r {
        Ok(x) => format!("ok:{}", x.v),
        Err(AdaptiveError::Service(e)) => format!("err:inner{}:{}", e.kind, e.v),
        Err(AdaptiveError::LimitReached) => "err:limit".into(),
    }
}

/// `poll_ready` once on `s`: Some(true) ready, Some(false) refused (Pending) and the waker fired,
/// None = Pending without a wake-up (nobody would ever poll again) or an error.
fn ready_once<A: Alg>(s: &mut Svc<A>) -> Option<bool> {
    let flag = Arc::new(Flag::new(false));
    let w = Waker::from(flag.clone());
    let mut cx = Context::from_waker(&w);
    match <Svc<A> as Service<Req>>::poll_ready(s, &mut cx) {
        Poll::Ready(Ok(())) => Some(true),
        Poll::Ready(Err(_)) => None,
        Poll::Pending => {
            if flag.0.load(Ordering::SeqCst) {
                Some(false)
            } else {
                None
            }
        }
    }
}

/// answer of one `poll_ready` whose inner answer is scripted
#[derive(Clone, Copy, PartialEq)]
enum Rd {
    Ready,
    /// Pending, woken, the inner service was not asked: the capacity check refused
    Refused,
    /// Pending, woken, the inner service was asked (and said pending)
    Pending,
    Error,
    Lost,
}
impl Rd {
    fn word(self) -> &'static str {
        match self {
            Rd::Ready => "ready",
            Rd::Refused => "refused",
            Rd::Pending => "pending",
            Rd::Error => "error",
            Rd::Lost => "lost-wakeup",
        }
    }
}

/// `poll_ready` once on `s`; the inner service answers this poll with `ans` ('r' / 'p' / 'e') if it is asked
fn ready_scripted<A: Alg>(shared: &Arc<Mutex<InnerShared>>, s: &mut Svc<A>, ans: char) -> Rd {
    shared.lock().unwrap().ready_script = VecDeque::from(vec![ans]);
    let flag = Arc::new(Flag::new(false));
    let w = Waker::from(flag.clone());
    let mut cx = Context::from_waker(&w);
    let r = <Svc<A> as Service<Req>>::poll_ready(s, &mut cx);
    let asked = {
        let mut sh = shared.lock().unwrap();
        let a = sh.ready_script.is_empty();
        sh.ready_script.clear();
        a
    };
    match r {
        Poll::Ready(Ok(())) => Rd::Ready,
        Poll::Ready(Err(_)) => Rd::Error,
        Poll::Pending => {
            if !flag.0.load(Ordering::SeqCst) {
                Rd::Lost
            } else if asked {
                Rd::Pending
            } else {
                Rd::Refused
            }
        }
    }
}

/// `Service::call` on `svc` for caller `c`; with `callpanic=1` the wrapped service's `call()` panics: the unwind is
/// caught here (the caller survives and the limiter stays in use), the caller never gets a future
fn call_on<A: Alg>(svc: &mut Svc<A>, c: usize, kv: &Kv) -> Option<CallFut> {
    let mut req = Req::new(c, kv);
    if kv.u64("callpanic", 0) == 1 {
        req.tag = CALL_PANIC;
    }
    match catch_unwind(AssertUnwindSafe(|| svc.call(req))) {
        Ok(f) => Some(held(f, render)),
        Err(_) => {
            log(format!("result {} panic", c));
            None
        }
    }
}

fn ans_of(kv: &Kv) -> char {
    match kv.str("rdy", "r").as_str() {
        "p" => 'p',
        "e" => 'e',
        _ => 'r',
    }
}

// ------------------------------------------------------------------ clones on threads

#[derive(Clone, Copy)]
enum TOp {
    Acquire(&'static str),
    Finish,
    DropCall,
    ReadInFlight,
    Fb(FOp),
}

fn parse_tprog(s: &str) -> Vec<TOp> {
    let cs: Vec<char> = s.chars().collect();
    let mut v = Vec::new();
    let mut i = 0;
    while i < cs.len() {
        match cs[i] {
            'A' => v.push(TOp::Acquire("0:ok")),
            'E' => v.push(TOp::Acquire("0:err1")),
            'P' => v.push(TOp::Acquire("0:panic")),
            'C' => v.push(TOp::Finish),
            'D' => v.push(TOp::DropCall),
            'I' => v.push(TOp::ReadInFlight),
            'S' if i + 1 < cs.len() => {
                v.push(TOp::Fb(FOp::Succ(lat_ns((cs[i + 1] as u32).saturating_sub(48)))));
                i += 1;
            }
            'F' => v.push(TOp::Fb(FOp::Fail)),
            'L' => v.push(TOp::Fb(FOp::Read)),
            _ => {}
        }
        i += 1;
    }
    v
}

/// One thread with its own clone. Every operation begins with an explicit yield point; the call futures the thread
/// still holds when its program ends are handed back through `left`. The begin / end of every operation is marked in
/// the value-level trace: `A` (result 1 = admitted), `Cs` / `Cf` / `Cp` (the oldest call it holds completes / fails /
/// panics), `D+` (drops it), `C-` / `D-` (holds none), `I`, and the feedback operations as in `mw_limit`.
fn thread_body<A: Alg>(mut svc: Svc<A>, tid: usize, prog: Vec<TOp>, left: Arc<Mutex<Vec<Fut>>>) -> Vec<String> {
    let w = Waker::from(Arc::new(Flag::new(false)));
    let mut cx = Context::from_waker(&w);
    let mut calls: VecDeque<(Fut, &'static str)> = VecDeque::new();
    let mut out = Vec::new();
    let mut nacq = 0;
    for op in prog {
        tower_resilience_core::verif::yield_point();
        match op {
            TOp::Acquire(plan) => {
                atrace_push(format!("b{}:A", tid));
                let adm = match <Svc<A> as Service<Req>>::poll_ready(&mut svc, &mut cx) {
                    Poll::Ready(Ok(())) => {
                        let c = 1000 * (tid + 1) + nacq;
                        nacq += 1;
                        let word = format!("inner={}", plan);
                        calls.push_back((svc.call(Req::new(c, &Kv::parse(&[word.as_str()]))), plan));
                        1
                    }
                    _ => {
                        out.push("x".to_string());
                        0
                    }
                };
                atrace_push(format!("e{}:A:{}", tid, adm));
            }
            TOp::Finish => {
                let code = match calls.front() {
                    Some((_, "0:ok")) => "Cs",
                    Some((_, "0:panic")) => "Cp",
                    Some(_) => "Cf",
                    None => "C-",
                };
                atrace_push(format!("b{}:{}", tid, code));
                if let Some((mut f, _)) = calls.pop_front() {
                    let _ = catch_unwind(AssertUnwindSafe(|| {
                        let _ = Pin::new(&mut f).poll(&mut cx);
                    }));
                    let _ = catch_unwind(AssertUnwindSafe(move || drop(f)));
                }
                atrace_push(format!("e{}:{}:-", tid, code));
            }
            TOp::DropCall => {
                let code = if calls.is_empty() { "D-" } else { "D+" };
                atrace_push(format!("b{}:{}", tid, code));
                if let Some((f, _)) = calls.pop_front() {
                    drop(f);
                }
                atrace_push(format!("e{}:{}:-", tid, code));
            }
            TOp::ReadInFlight => {
                atrace_push(format!("b{}:I", tid));
                let n = svc.in_flight();
                atrace_push(format!("e{}:I:{}", tid, n));
                out.push(n.to_string())
            }
            TOp::Fb(f) => out.extend(run_prog_traced(svc.algorithm(), tid, &[f])),
        }
    }
    *left.lock().unwrap() = calls.into_iter().map(|(f, _)| f).collect();
    out
}

impl<A: Alg> Mw for Adapter<A> {
    fn arrive(&mut self, c: usize, kv: &Kv) -> Option<CallFut> {
        self.arrived.insert(c);
        let k = *self.home.entry(c).or_insert(svc_of(kv));
        if let Some(mut svc) = self.checked.remove(&c) {
            return call_on(&mut svc, c, kv);
        }
        let h = kv.u64("h", 0) as usize;
        if h > 0 {
            // the caller uses the persistent handle h of service k
            if !self.handles.contains_key(&(k, h)) {
                let s = self.svc(k).clone();
                self.handles.insert((k, h), (s, false));
            }
            let shared = self.shared.clone();
            let e = self.handles.get_mut(&(k, h)).unwrap();
            if !e.1 {
                let a = ready_scripted(&shared, &mut e.0, ans_of(kv));
                if a != Rd::Ready {
                    let why = match a {
                        Rd::Refused => "notready",
                        Rd::Pending => "notready-inner",
                        Rd::Error => "notready-error",
                        _ => "notready-lost-wakeup",
                    };
                    log(format!("result {} {}", c, why));
                    return None;
                }
            }
            e.1 = false;
            return call_on(&mut e.0, c, kv);
        }
        let mut svc = {
            let mut s = self.svc(k).clone();
            match ready_once(&mut s) {
                Some(true) => s,
                Some(false) => {
                    log(format!("result {} notready", c));
                    return None;
                }
                None => {
                    log(format!("result {} notready-lost-wakeup", c));
                    return None;
                }
            }
        };
        call_on(&mut svc, c, kv)
    }
    fn probe(&mut self, what: &str, kv: &Kv) {
        let k = svc_of(kv);
        let sfx = svc_suffix(k);
        match what {
            "in_flight" => log(format!("probe in_flight = {}{}", self.svc(k).in_flight(), sfx)),
            "limit" => log(format!("probe limit = {}{}", self.svc(k).limit(), sfx)),
            // the accessors of the algorithm every service of the layer shares
            "bounds" => {
                let a = self.svc(k).algorithm();
                log(format!("probe bounds = {},{}{}", a.min_limit(), a.max_limit(), sfx))
            }
            "ready" => {
                let mut s = self.svc(k).clone();
                let r = match ready_once(&mut s) {
                    Some(true) => "1",
                    Some(false) => "0",
                    None => "lost-wakeup",
                };
                log(format!("probe ready = {}{}", r, sfx));
            }
            _ => {}
        }
    }
    fn manual(&mut self, what: &str, kv: &Kv) {
        let k = svc_of(kv);
        match what {
            "check" => {
                let c = kv.u64("c", 0) as usize;
                if self.arrived.contains(&c) || self.checked.contains_key(&c) {
                    log("noop".to_string());
                    return;
                }
                let k = *self.home.entry(c).or_insert(k);
                let mut s = self.svc(k).clone();
                match ready_once(&mut s) {
                    Some(true) => {
                        self.checked.insert(c, s);
                        log(format!("check {} ready", c));
                    }
                    Some(false) => log(format!("check {} refused", c)),
                    None => log(format!("check {} lost-wakeup", c)),
                }
            }
            "ready" => {
                let h = kv.u64("h", 0) as usize;
                if !self.handles.contains_key(&(k, h)) {
                    let s = self.svc(k).clone();
                    self.handles.insert((k, h), (s, false));
                }
                let shared = self.shared.clone();
                let e = self.handles.get_mut(&(k, h)).unwrap();
                let a = ready_scripted(&shared, &mut e.0, ans_of(kv));
                e.1 = a == Rd::Ready;
                log(format!("ready {} {}", h, a.word()));
            }
            "warm" => {
                let o = traced_sequential(self.svc(k).algorithm(), &parse_prog(&kv.str("prog", "")));
                log(format!("warm {}", render_outs(&o)));
                log(format!("limit {}", self.svc(k).limit()));
                let l = self.svc(k).limit();
                log_protocol(&[o], l, None);
            }
            "thread" => {
                let t = kv.u64("t", 0) as usize;
                let progs = self.progs.entry(k).or_default();
                while progs.len() <= t {
                    progs.push(String::new());
                }
                progs[t] = kv.str("prog", "");
            }
            "sched" => {
                let schedule: Vec<usize> = crate::sched::parse_schedule(&kv.str("s", ""));
                let mut bodies: Vec<Box<dyn FnOnce() -> Vec<String> + Send>> = Vec::new();
                let mut lefts = Vec::new();
                let _ = atrace_take();
                // which cells are the limit and the in-flight counter: the ones `limit()` / `in_flight()` load
                let base = self.svc(k).clone();
                let lc = probe_cell(99, "L", || base.limit() as u64);
                let ic = probe_cell(99, "I", || base.in_flight() as u64);
                for (tid, p) in self.progs.remove(&k).unwrap_or_default().into_iter().enumerate() {
                    let svc = base.clone();
                    let left: Arc<Mutex<Vec<Fut>>> = Arc::new(Mutex::new(Vec::new()));
                    lefts.push(left.clone());
                    bodies.push(Box::new(move || thread_body(svc, tid, parse_tprog(&p), left)));
                }
                let (_, outs) = run_scheduled_with(bodies, &schedule, |l| log(l.to_string()));
                observe_here(99);
                for (i, o) in outs.iter().enumerate() {
                    log(format!("th {} {}", i, render_outs(o)));
                    let fs: Vec<Fut> = std::mem::take(&mut *lefts[i].lock().unwrap());
                    for f in fs {
                        // what a thread still holds is dropped here: an ending operation like any other
                        atrace_push("b99:D+".to_string());
                        drop(f);
                        atrace_push("e99:D+:-".to_string());
                    }
                }
                unobserve_here();
                let ic_found = ic.is_some();
                obs("tr", trace_text(lc, ic));
                log(format!("limit {}", self.svc(k).limit()));
                let (l, n) = (self.svc(k).limit(), self.svc(k).in_flight());
                log_protocol(&outs, l, if ic_found { Some(n) } else { None });
            }
            _ => {}
        }
    }
}
