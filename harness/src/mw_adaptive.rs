//! C13 (part B): the real `AdaptiveLimiterLayer` / `AdaptiveService` over the scripted inner service.
//! header: `adaptive kind=aimd|vegas min= max= initial= inc= fnum= fden= thr_ms= alpha= beta=`
//! `arrive` = clone, `poll_ready`, `call` (refusal: `result c notready`); `manual check c=<c>` does the
//! clone + `poll_ready` now and keeps the ready clone for a later `arrive c` (which then only calls);
//! `manual warm prog=…` feeds the algorithm directly (sequential); probes `in_flight`, `limit`, `ready`.
//! `arrive … keep=1` (world.rs): the caller keeps the resolved `AdaptiveFuture` alive (it is wrapped by `held`) until
//! `release <c>` — the slot must be free from the completion on, not from the release on.
//!
//! An inner service that is not ready at once (`Inner::strict`): persistent handles `h=1,2,…` (clones that live across
//! operations). `manual ready h=<h> rdy=<r|p|e>` = one `poll_ready` on handle h, the inner service answering this poll
//! with ready / pending / error *if it is asked* (`ready <h> ready|refused|pending|error`: `refused` = Pending without
//! the inner service having been asked, i.e. the capacity check said no); `arrive <c> … h=<h> [rdy=…]` = the caller
//! uses handle h: `call` if its last `poll_ready` said Ready, otherwise one `poll_ready` first (`result c notready` /
//! `notready-inner` / `notready-error`).
//!
//! Clones on several OS threads under the baton scheduler (the service's own atomics are hooked too):
//! `manual thread t=<i> prog=<A|E|P|C|D|I|S<d>|F|L…>` (A/E/P = poll_ready + call of a request whose inner call will
//! succeed / fail / panic at its first poll; C = poll the oldest call future of this thread; D = drop it unpolled;
//! I = `in_flight()`; S<d>/F/L as in `mw_limit`), `manual sched s=<tid,…>`: every operation starts with an explicit
//! yield point, then one turn per hooked atomic. What a thread still holds at the end is dropped after the round.
//!
//! `arrive … callpanic=1` (on a fresh clone, a checked clone or a persistent handle): the wrapped service's
//! `Service::call` itself panics for this request (`CallPanic`: what Buffer / ConcurrencyLimit do when called without
//! readiness, a `service_fn` closure that panics before its async block) — no future is ever returned; the adapter
//! catches the unwind around `svc.call(req)` and logs `result c panic`. The limiter's handles stay in use afterwards.
use crate::mw_limit::{build_algorithm, lat_ns, parse_prog, render_outs, run_prog, FOp};
use crate::sched::run_scheduled_with;
use crate::world::*;
use std::collections::{BTreeMap, BTreeSet, VecDeque};
use std::future::Future;
use std::panic::{catch_unwind, AssertUnwindSafe};
use std::pin::Pin;
use std::sync::atomic::Ordering;
use std::sync::{Arc, Mutex};
use std::task::{Context, Poll, Waker};
use tower::{Layer, Service};
use tower_resilience_adaptive::{AdaptiveError, AdaptiveLimiterLayer, AdaptiveService, Algorithm};

/// The scripted inner service, except that `call()` itself panics for a request marked `callpanic=1` (the panic
/// happens inside `Service::call`, before any future exists). Nothing is logged and no serial number is consumed:
/// the scripted service is not reached.
#[derive(Clone)]
pub struct CallPanic {
    inner: Inner,
}
const CALL_PANIC: u64 = u64::MAX;
impl Service<Req> for CallPanic {
    type Response = Resp;
    type Error = IErr;
    type Future = <Inner as Service<Req>>::Future;
    fn poll_ready(&mut self, cx: &mut Context<'_>) -> Poll<Result<(), IErr>> {
        self.inner.poll_ready(cx)
    }
    fn call(&mut self, req: Req) -> Self::Future {
        if req.tag == CALL_PANIC {
            panic!("scripted panic inside call()");
        }
        self.inner.call(req)
    }
}

type Svc = AdaptiveService<CallPanic, Algorithm>;
type Fut = <Svc as Service<Req>>::Future;

pub struct Adapter {
    svc: Svc,
    /// the inner service's shared state: the readiness answer for the next scripted poll is put there
    shared: Arc<Mutex<InnerShared>>,
    checked: BTreeMap<usize, Svc>,
    arrived: BTreeSet<usize>,
    /// persistent handles: the clone and whether its most recent `poll_ready` answered Ready (no call since)
    handles: BTreeMap<usize, (Svc, bool)>,
    progs: Vec<String>,
}

impl Adapter {
    pub fn new(kv: &Kv) -> Adapter {
        let layer = AdaptiveLimiterLayer::new(build_algorithm(kv));
        let inner = Inner::strict("");
        let shared = inner.shared.clone();
        Adapter {
            svc: layer.layer(CallPanic { inner }),
            shared,
            checked: BTreeMap::new(),
            arrived: BTreeSet::new(),
            handles: BTreeMap::new(),
            progs: Vec::new(),
        }
    }
}

pub fn render(r: Result<Resp, AdaptiveError<IErr>>) -> String {
    match r {
        Ok(x) => format!("ok:{}", x.v),
        Err(AdaptiveError::Service(e)) => format!("err:inner{}:{}", e.kind, e.v),
        Err(AdaptiveError::LimitReached) => "err:limit".into(),
    }
}

/// `poll_ready` once on `s`: Some(true) ready, Some(false) refused (Pending) and the waker fired,
/// None = Pending without a wake-up (nobody would ever poll again) or an error.
fn ready_once(s: &mut Svc) -> Option<bool> {
    let flag = Arc::new(Flag::new(false));
    let w = Waker::from(flag.clone());
    let mut cx = Context::from_waker(&w);
    match <Svc as Service<Req>>::poll_ready(s, &mut cx) {
        Poll::Ready(Ok(())) => Some(true),
        Poll::Ready(Err(_)) => None,
        Poll::Pending => {
            if flag.0.load(Ordering::SeqCst) {
                Some(false)
            } else {
                None
            }
        }
    }
}

/// answer of one `poll_ready` whose inner answer is scripted
#[derive(Clone, Copy, PartialEq)]
enum Rd {
    Ready,
    /// Pending, woken, the inner service was not asked: the capacity check refused
    Refused,
    /// Pending, woken, the inner service was asked (and said pending)
    Pending,
    Error,
    Lost,
}
impl Rd {
    fn word(self) -> &'static str {
        match self {
            Rd::Ready => "ready",
            Rd::Refused => "refused",
            Rd::Pending => "pending",
            Rd::Error => "error",
            Rd::Lost => "lost-wakeup",
        }
    }
}

/// `poll_ready` once on `s`; the inner service answers this poll with `ans` ('r' / 'p' / 'e') if it is asked
fn ready_scripted(shared: &Arc<Mutex<InnerShared>>, s: &mut Svc, ans: char) -> Rd {
    shared.lock().unwrap().ready_script = VecDeque::from(vec![ans]);
    let flag = Arc::new(Flag::new(false));
    let w = Waker::from(flag.clone());
    let mut cx = Context::from_waker(&w);
    let r = <Svc as Service<Req>>::poll_ready(s, &mut cx);
    let asked = {
        let mut sh = shared.lock().unwrap();
        let a = sh.ready_script.is_empty();
        sh.ready_script.clear();
        a
    };
    match r {
        Poll::Ready(Ok(())) => Rd::Ready,
        Poll::Ready(Err(_)) => Rd::Error,
        Poll::Pending => {
            if !flag.0.load(Ordering::SeqCst) {
                Rd::Lost
            } else if asked {
                Rd::Pending
            } else {
                Rd::Refused
            }
        }
    }
}

/// `Service::call` on `svc` for caller `c`; with `callpanic=1` the wrapped service's `call()` panics: the unwind is
/// caught here (the caller survives and the limiter stays in use), the caller never gets a future
fn call_on(svc: &mut Svc, c: usize, kv: &Kv) -> Option<CallFut> {
    let mut req = Req::new(c, kv);
    if kv.u64("callpanic", 0) == 1 {
        req.tag = CALL_PANIC;
    }
    match catch_unwind(AssertUnwindSafe(|| svc.call(req))) {
        Ok(f) => Some(held(f, render)),
        Err(_) => {
            log(format!("result {} panic", c));
            None
        }
    }
}

fn ans_of(kv: &Kv) -> char {
    match kv.str("rdy", "r").as_str() {
        "p" => 'p',
        "e" => 'e',
        _ => 'r',
    }
}

// ------------------------------------------------------------------ clones on threads

#[derive(Clone, Copy)]
enum TOp {
    Acquire(&'static str),
    Finish,
    DropCall,
    ReadInFlight,
    Fb(FOp),
}

fn parse_tprog(s: &str) -> Vec<TOp> {
    let cs: Vec<char> = s.chars().collect();
    let mut v = Vec::new();
    let mut i = 0;
    while i < cs.len() {
        match cs[i] {
            'A' => v.push(TOp::Acquire("0:ok")),
            'E' => v.push(TOp::Acquire("0:err1")),
            'P' => v.push(TOp::Acquire("0:panic")),
            'C' => v.push(TOp::Finish),
            'D' => v.push(TOp::DropCall),
            'I' => v.push(TOp::ReadInFlight),
            'S' if i + 1 < cs.len() => {
                v.push(TOp::Fb(FOp::Succ(lat_ns((cs[i + 1] as u32).saturating_sub(48)))));
                i += 1;
            }
            'F' => v.push(TOp::Fb(FOp::Fail)),
            'L' => v.push(TOp::Fb(FOp::Read)),
            _ => {}
        }
        i += 1;
    }
    v
}

/// One thread with its own clone. Every operation begins with an explicit yield point; the call futures the thread
/// still holds when its program ends are handed back through `left`.
fn thread_body(mut svc: Svc, tid: usize, prog: Vec<TOp>, left: Arc<Mutex<Vec<Fut>>>) -> Vec<String> {
    let w = Waker::from(Arc::new(Flag::new(false)));
    let mut cx = Context::from_waker(&w);
    let mut calls: VecDeque<Fut> = VecDeque::new();
    let mut out = Vec::new();
    let mut nacq = 0;
    for op in prog {
        tower_resilience_core::verif::yield_point();
        match op {
            TOp::Acquire(plan) => match <Svc as Service<Req>>::poll_ready(&mut svc, &mut cx) {
                Poll::Ready(Ok(())) => {
                    let c = 1000 * (tid + 1) + nacq;
                    nacq += 1;
                    let word = format!("inner={}", plan);
                    calls.push_back(svc.call(Req::new(c, &Kv::parse(&[word.as_str()]))));
                }
                _ => out.push("x".to_string()),
            },
            TOp::Finish => {
                if let Some(mut f) = calls.pop_front() {
                    let _ = catch_unwind(AssertUnwindSafe(|| {
                        let _ = Pin::new(&mut f).poll(&mut cx);
                    }));
                    let _ = catch_unwind(AssertUnwindSafe(move || drop(f)));
                }
            }
            TOp::DropCall => {
                if let Some(f) = calls.pop_front() {
                    drop(f);
                }
            }
            TOp::ReadInFlight => out.push(svc.in_flight().to_string()),
            TOp::Fb(f) => out.extend(run_prog(svc.algorithm(), &[f])),
        }
    }
    *left.lock().unwrap() = calls.into_iter().collect();
    out
}

impl Mw for Adapter {
    fn arrive(&mut self, c: usize, kv: &Kv) -> Option<CallFut> {
        self.arrived.insert(c);
        if let Some(mut svc) = self.checked.remove(&c) {
            return call_on(&mut svc, c, kv);
        }
        let h = kv.u64("h", 0) as usize;
        if h > 0 {
            // the caller uses the persistent handle h
            if !self.handles.contains_key(&h) {
                let s = self.svc.clone();
                self.handles.insert(h, (s, false));
            }
            let shared = self.shared.clone();
            let e = self.handles.get_mut(&h).unwrap();
            if !e.1 {
                let a = ready_scripted(&shared, &mut e.0, ans_of(kv));
                if a != Rd::Ready {
                    let why = match a {
                        Rd::Refused => "notready",
                        Rd::Pending => "notready-inner",
                        Rd::Error => "notready-error",
                        _ => "notready-lost-wakeup",
                    };
                    log(format!("result {} {}", c, why));
                    return None;
                }
            }
            e.1 = false;
            return call_on(&mut e.0, c, kv);
        }
        let mut svc = {
            let mut s = self.svc.clone();
            match ready_once(&mut s) {
                Some(true) => s,
                Some(false) => {
                    log(format!("result {} notready", c));
                    return None;
                }
                None => {
                    log(format!("result {} notready-lost-wakeup", c));
                    return None;
                }
            }
        };
        call_on(&mut svc, c, kv)
    }
    fn probe(&mut self, what: &str, _kv: &Kv) {
        match what {
            "in_flight" => log(format!("probe in_flight = {}", self.svc.in_flight())),
            "limit" => log(format!("probe limit = {}", self.svc.limit())),
            "ready" => {
                let mut s = self.svc.clone();
                let r = match ready_once(&mut s) {
                    Some(true) => "1",
                    Some(false) => "0",
                    None => "lost-wakeup",
                };
                log(format!("probe ready = {}", r));
            }
            _ => {}
        }
    }
    fn manual(&mut self, what: &str, kv: &Kv) {
        match what {
            "check" => {
                let c = kv.u64("c", 0) as usize;
                if self.arrived.contains(&c) || self.checked.contains_key(&c) {
                    log("noop".to_string());
                    return;
                }
                let mut s = self.svc.clone();
                match ready_once(&mut s) {
                    Some(true) => {
                        self.checked.insert(c, s);
                        log(format!("check {} ready", c));
                    }
                    Some(false) => log(format!("check {} refused", c)),
                    None => log(format!("check {} lost-wakeup", c)),
                }
            }
            "ready" => {
                let h = kv.u64("h", 0) as usize;
                if !self.handles.contains_key(&h) {
                    let s = self.svc.clone();
                    self.handles.insert(h, (s, false));
                }
                let shared = self.shared.clone();
                let e = self.handles.get_mut(&h).unwrap();
                let a = ready_scripted(&shared, &mut e.0, ans_of(kv));
                e.1 = a == Rd::Ready;
                log(format!("ready {} {}", h, a.word()));
            }
            "warm" => {
                let o = run_prog(self.svc.algorithm(), &parse_prog(&kv.str("prog", "")));
                log(format!("warm {}", render_outs(&o)));
                log(format!("limit {}", self.svc.limit()));
            }
            "thread" => {
                let t = kv.u64("t", 0) as usize;
                while self.progs.len() <= t {
                    self.progs.push(String::new());
                }
                self.progs[t] = kv.str("prog", "");
            }
            "sched" => {
                let schedule: Vec<usize> =
                    kv.str("s", "").split(',').filter(|x| !x.is_empty()).filter_map(|x| x.parse().ok()).collect();
                let mut bodies: Vec<Box<dyn FnOnce() -> Vec<String> + Send>> = Vec::new();
                let mut lefts = Vec::new();
                for (tid, p) in std::mem::take(&mut self.progs).into_iter().enumerate() {
                    let svc = self.svc.clone();
                    let left: Arc<Mutex<Vec<Fut>>> = Arc::new(Mutex::new(Vec::new()));
                    lefts.push(left.clone());
                    bodies.push(Box::new(move || thread_body(svc, tid, parse_tprog(&p), left)));
                }
                let (_, outs) = run_scheduled_with(bodies, &schedule, |l| log(l.to_string()));
                for (i, o) in outs.iter().enumerate() {
                    log(format!("th {} {}", i, render_outs(o)));
                    let fs: Vec<Fut> = std::mem::take(&mut *lefts[i].lock().unwrap());
                    for f in fs {
                        drop(f);
                    }
                }
                log(format!("limit {}", self.svc.limit()));
            }
            _ => {}
        }
    }
}
