//! C13 (part B): the real `AdaptiveLimiterLayer` / `AdaptiveService` over the scripted inner service.
//! header: `adaptive kind=aimd|vegas min= max= initial= inc= fnum= fden= thr_ms= alpha= beta=`
//! `arrive` = clone, `poll_ready`, `call` (refusal: `result c notready`); `manual check c=<c>` does the
//! clone + `poll_ready` now and keeps the ready clone for a later `arrive c` (which then only calls);
//! `manual warm prog=…` feeds the algorithm directly (sequential); probes `in_flight`, `limit`, `ready`.
//! `arrive … keep=1` (world.rs): the caller keeps the resolved `AdaptiveFuture` alive (it is wrapped by `held`) until
//! `release <c>` — the slot must be free from the completion on, not from the release on.
use crate::mw_limit::{build_algorithm, parse_prog, render_outs, run_prog};
use crate::world::*;
use std::collections::{BTreeMap, BTreeSet};
use std::sync::atomic::Ordering;
use std::sync::Arc;
use std::task::{Context, Poll, Waker};
use tower::{Layer, Service};
use tower_resilience_adaptive::{AdaptiveError, AdaptiveLimiterLayer, AdaptiveService, Algorithm};

type Svc = AdaptiveService<Inner, Algorithm>;

pub struct Adapter {
    svc: Svc,
    checked: BTreeMap<usize, Svc>,
    arrived: BTreeSet<usize>,
}

impl Adapter {
    pub fn new(kv: &Kv) -> Adapter {
        let layer = AdaptiveLimiterLayer::new(build_algorithm(kv));
        Adapter { svc: layer.layer(Inner::new()), checked: BTreeMap::new(), arrived: BTreeSet::new() }
    }
}

pub fn render(r: Result<Resp, AdaptiveError<IErr>>) -> String {
    match r {
        Ok(x) => format!("ok:{}", x.v),
        Err(AdaptiveError::Service(e)) => format!("err:inner{}:{}", e.kind, e.v),
        Err(AdaptiveError::LimitReached) => "err:limit".into(),
    }
}

/// `poll_ready` once on `s`: Some(true) ready, Some(false) refused (Pending) and the waker fired,
/// None = Pending without a wake-up (nobody would ever poll again) or an error.
fn ready_once(s: &mut Svc) -> Option<bool> {
    let flag = Arc::new(Flag::new(false));
    let w = Waker::from(flag.clone());
    let mut cx = Context::from_waker(&w);
    match <Svc as Service<Req>>::poll_ready(s, &mut cx) {
        Poll::Ready(Ok(())) => Some(true),
        Poll::Ready(Err(_)) => None,
        Poll::Pending => {
            if flag.0.load(Ordering::SeqCst) {
                Some(false)
            } else {
                None
            }
        }
    }
}

impl Mw for Adapter {
    fn arrive(&mut self, c: usize, kv: &Kv) -> Option<CallFut> {
        self.arrived.insert(c);
        let req = Req::new(c, kv);
        let mut svc = match self.checked.remove(&c) {
            Some(s) => s,
            None => {
                let mut s = self.svc.clone();
                match ready_once(&mut s) {
                    Some(true) => s,
                    Some(false) => {
                        log(format!("result {} notready", c));
                        return None;
                    }
                    None => {
                        log(format!("result {} notready-lost-wakeup", c));
                        return None;
                    }
                }
            }
        };
        let fut = svc.call(req);
        Some(held(fut, render))
    }
    fn probe(&mut self, what: &str, _kv: &Kv) {
        match what {
            "in_flight" => log(format!("probe in_flight = {}", self.svc.in_flight())),
            "limit" => log(format!("probe limit = {}", self.svc.limit())),
            "ready" => {
                let mut s = self.svc.clone();
                let r = match ready_once(&mut s) {
                    Some(true) => "1",
                    Some(false) => "0",
                    None => "lost-wakeup",
                };
                log(format!("probe ready = {}", r));
            }
            _ => {}
        }
    }
    fn manual(&mut self, what: &str, kv: &Kv) {
        match what {
            "check" => {
                let c = kv.u64("c", 0) as usize;
                if self.arrived.contains(&c) || self.checked.contains_key(&c) {
                    log("noop".to_string());
                    return;
                }
                let mut s = self.svc.clone();
                match ready_once(&mut s) {
                    Some(true) => {
                        self.checked.insert(c, s);
                        log(format!("check {} ready", c));
                    }
                    Some(false) => log(format!("check {} refused", c)),
                    None => log(format!("check {} lost-wakeup", c)),
                }
            }
            "warm" => {
                let o = run_prog(self.svc.algorithm(), &parse_prog(&kv.str("prog", "")));
                log(format!("warm {}", render_outs(&o)));
                log(format!("limit {}", self.svc.limit()));
            }
            _ => {}
        }
    }
}
