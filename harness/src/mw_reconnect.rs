//! C16: the real `ReconnectLayer` over the scripted inner service.
//!
//! header: `reconnect [max=<n>] policy=none|fixed|exp|jitter|custom [d=<ms>] [init=<ms> cap=<ms>]
//!          [rf=<percent>] [tbl=<ms>,<ms>,…] [retry=0|1] [pred=<digits of the reconnectable kinds>]`
//!
//! `jitter` and `custom` go through `ReconnectPolicy::Custom`: `custom` is a table-driven
//! `IntervalFunction`, `jitter` wraps the real `ExponentialRandomBackoff` in a spy that reports the
//! delay it returned (`world::obs("delay", ns)`); the model takes that value as input and checks
//! that it lies inside the randomization envelope (DESIGN §3.2).
//!
//! Requests share one `ReconnectState`. `arrive c … via=clone|same|swap|layer` says through which handle the
//! request is made: a clone of the adapter's handle that is dropped as soon as the future exists (default), the
//! adapter's own handle used again and again, the `mem::replace(&mut self.svc, clone)` idiom, or a service made
//! on the spot by the same layer (`layer.layer(inner)`), dropped after the call. The model does not distinguish
//! them: the published state is a function of the order of completions only.
//! `manual dropsvc`: the service handle and the layer are dropped while requests are in flight (the futures own
//! everything they need); later arrivals are `noop`. The `ReconnectState` observer used by `probe state` is kept:
//! it is what an application holds to watch the connection, not a service handle.
//! `manual ondrop …` is supported (`requester`).
//!
//! Error chains: the wrapped service is `Chained` (the scripted `Inner` with its error mapped to `CErr`), whose
//! error has a scripted `source()` chain: inner outcome `errK>J>I` is an error of kind K whose `source()` is an
//! error of kind J whose `source()` is an error of kind I (any depth; plain `errK` has no source). Every error of
//! the chain displays as `ierr<its own kind>:<serial>`, so the `pred=` predicate classifies whatever error it is
//! handed by that error's OWN kind. `inner_done` / the rendered result name the head (the error the service
//! returned); the causes are reported in a `#chain <c> <k> <J>I…>` meta line. The model classifies the head only.
use crate::world::*;
use std::collections::{HashMap, VecDeque};
use std::future::Future;
use std::pin::Pin;
use std::sync::{Arc, Mutex};
use std::task::{Context, Poll};
use std::time::Duration;
use tower::{Layer, Service};
use tower_resilience_reconnect::{
    ConnectionState, ExponentialRandomBackoff, IntervalFunction, ReconnectConfig, ReconnectLayer,
    ReconnectPolicy, ReconnectService, ReconnectState,
};

pub struct Adapter {
    /// `None` once `manual dropsvc` has dropped every handle
    svc: Option<ReconnectService<Chained>>,
    layer: Option<ReconnectLayer>,
    state: ReconnectState,
    /// scripted cause chains of the requests' inner calls (not a service handle: a script, like `Req::plan`)
    chains: Chains,
}

/// The scripted inner error with a scripted `source()` chain.
#[derive(Debug)]
pub struct CErr {
    pub kind: u8,
    pub v: u64,
    pub cause: Option<Box<CErr>>,
}
impl CErr {
    fn new(kind: u8, v: u64, causes: &[u8]) -> CErr {
        CErr { kind, v, cause: causes.split_first().map(|(k, rest)| Box::new(CErr::new(*k, v, rest))) }
    }
}
impl std::fmt::Display for CErr {
    fn fmt(&self, f: &mut std::fmt::Formatter<'_>) -> std::fmt::Result {
        // the error's own kind only, like `IErr`: a wrapper that does not repeat its cause's text
        write!(f, "ierr{}:{}", self.kind, self.v)
    }
}
impl std::error::Error for CErr {
    fn source(&self) -> Option<&(dyn std::error::Error + 'static)> {
        self.cause.as_deref().map(|c| c as &(dyn std::error::Error + 'static))
    }
}

/// request -> the cause chains of its scripted steps not yet consumed (popped in step with `Req::plan`)
type Chains = Arc<Mutex<HashMap<usize, VecDeque<Vec<u8>>>>>;

/// `inner=0:err2>1,3:ok,0:err1` -> [[1], [], []]
pub fn causes_of(plan: &str) -> VecDeque<Vec<u8>> {
    if plan.is_empty() {
        return VecDeque::new();
    }
    plan.split(',')
        .map(|part| {
            let o = part.split_once(':').map(|x| x.1).unwrap_or(part);
            match o.strip_prefix("err") {
                Some(k) => k.split('>').skip(1).map(|x| x.parse().unwrap_or(0)).collect(),
                None => Vec::new(),
            }
        })
        .collect()
}

/// `Inner` with its errors mapped to `CErr`
#[derive(Clone)]
pub struct Chained {
    inner: Inner,
    chains: Chains,
}
pub struct ChainFut {
    fut: InnerFut,
    c: usize,
    causes: Vec<u8>,
}
impl Future for ChainFut {
    type Output = Result<Resp, CErr>;
    fn poll(mut self: Pin<&mut Self>, cx: &mut Context<'_>) -> Poll<Self::Output> {
        let r = match Pin::new(&mut self.fut).poll(cx) {
            Poll::Pending => return Poll::Pending,
            Poll::Ready(r) => r,
        };
        Poll::Ready(r.map_err(|e| {
            if !self.causes.is_empty() {
                let l: Vec<String> = self.causes.iter().map(|k| k.to_string()).collect();
                log_raw(format!("#chain {} {} {}", self.c, e.v, l.join(">")));
            }
            CErr::new(e.kind, e.v, &self.causes)
        }))
    }
}
impl Service<Req> for Chained {
    type Response = Resp;
    type Error = CErr;
    type Future = ChainFut;
    fn poll_ready(&mut self, cx: &mut Context<'_>) -> Poll<Result<(), CErr>> {
        self.inner.poll_ready(cx).map_err(|e| CErr::new(e.kind, e.v, &[]))
    }
    fn call(&mut self, req: Req) -> ChainFut {
        let c = req.c;
        let causes = self.chains.lock().unwrap().get_mut(&c).and_then(|q| q.pop_front()).unwrap_or_default();
        ChainFut { fut: self.inner.call(req), c, causes }
    }
}

struct Table(Vec<u64>);
impl IntervalFunction for Table {
    fn next_interval(&self, attempt: usize) -> Duration {
        Duration::from_millis(self.0[attempt % self.0.len()])
    }
}

struct Spy(ExponentialRandomBackoff);
impl IntervalFunction for Spy {
    fn next_interval(&self, attempt: usize) -> Duration {
        let d = self.0.next_interval(attempt);
        obs("delay", d.as_nanos());
        d
    }
}

impl Adapter {
    pub fn new(kv: &Kv) -> Adapter {
        let ms = |k: &str, d: u64| Duration::from_millis(kv.u64(k, d));
        let policy = match kv.str("policy", "exp").as_str() {
            "none" => ReconnectPolicy::none(),
            "fixed" => ReconnectPolicy::fixed(ms("d", 10)),
            "jitter" => ReconnectPolicy::Custom(Arc::new(Spy(
                ExponentialRandomBackoff::new(ms("init", 100), kv.u64("rf", 50) as f64 / 100.0)
                    .multiplier(2.0)
                    .max_interval(ms("cap", 5000)),
            ))),
            "custom" => {
                let mut t: Vec<u64> =
                    kv.str("tbl", "1").split(',').filter_map(|x| x.parse().ok()).collect();
                if t.is_empty() {
                    t.push(1);
                }
                ReconnectPolicy::Custom(Arc::new(Table(t)))
            }
            _ => ReconnectPolicy::exponential(ms("init", 100), ms("cap", 5000)),
        };
        let mut b = ReconnectConfig::builder()
            .policy(policy)
            .retry_on_reconnect(kv.u64("retry", 1) != 0);
        b = match kv.opt_u64("max") {
            Some(m) => b.max_attempts(m as u32),
            None => b.unlimited_attempts(),
        };
        if let Some(p) = kv.get("pred") {
            let kinds: Vec<u8> = p.bytes().filter(|b| b.is_ascii_digit()).map(|b| b - b'0').collect();
            // the predicate receives `&dyn Error` without `'static`, so it cannot downcast; like the
            // crate's own examples it classifies by the Display text (`ierr<kind>:<serial>`)
            b = b.reconnect_predicate(move |e| {
                let s = e.to_string();
                let kind = s.strip_prefix("ierr").and_then(|r| r.split(':').next()).and_then(|k| k.parse::<u8>().ok());
                matches!(kind, Some(k) if kinds.contains(&k))
            });
        }
        // `policy=default`: the layer exactly as `ReconnectLayer::default()` builds it (C14 end to end)
        let layer = if kv.str("policy", "exp") == "default" { ReconnectLayer::default() } else { ReconnectLayer::new(b.build()) };
        let state = layer.state().clone();
        let chains: Chains = Default::default();
        Adapter { svc: Some(layer.layer(Chained { inner: Inner::new(), chains: chains.clone() })), layer: Some(layer), state, chains }
    }
}

fn ready(svc: &mut ReconnectService<Chained>) -> bool {
    matches!(poll_ready_once(svc), std::task::Poll::Ready(Ok(())))
}

/// `ReconnectError` is not exported by the crate (its module is private), so the variant is read
/// off the `Display` prefix and the payload off `source()`.
pub fn render<E: std::error::Error + 'static>(r: Result<Resp, E>) -> String {
    match r {
        Ok(x) => format!("ok:{}", x.v),
        Err(e) => {
            let s = e.to_string();
            let inner = match e.source().and_then(|x| x.downcast_ref::<CErr>()) {
                Some(ie) => format!("inner{}:{}", ie.kind, ie.v),
                None => "inner?".to_string(),
            };
            if let Some(rest) = s.strip_prefix("max reconnection attempts (") {
                let n = rest.split(')').next().unwrap_or("?");
                format!("err:max_attempts:{}:{}", n, inner)
            } else if s.starts_with("connection failed (no retry): ") {
                format!("err:no_retry:{}", inner)
            } else if s.starts_with("connection failed: ") {
                format!("err:conn_failed:{}", inner)
            } else if s.starts_with("service error: ") {
                format!("err:service:{}", inner)
            } else {
                format!("err:unknown:{}", s.replace(' ', "_"))
            }
        }
    }
}

impl Mw for Adapter {
    fn arrive(&mut self, c: usize, kv: &Kv) -> Option<CallFut> {
        let (Some(own), Some(layer)) = (self.svc.as_mut(), self.layer.as_ref()) else {
            log_raw("noop".into());
            return None;
        };
        let req = Req::new(c, kv);
        self.chains.lock().unwrap().insert(c, causes_of(kv.get("inner").unwrap_or("0:ok")));
        let via = kv.str("via", "clone");
        // the handle the request is made through
        let fut = match via.as_str() {
            "same" => {
                if !ready(own) {
                    log(format!("result {} notready", c));
                    return None;
                }
                own.call(req)
            }
            "swap" => {
                if !ready(own) {
                    log(format!("result {} notready", c));
                    return None;
                }
                let fresh = own.clone();
                let mut readied = std::mem::replace(own, fresh);
                readied.call(req)
            }
            "layer" => {
                let mut svc = layer.layer(Chained { inner: Inner::new(), chains: self.chains.clone() });
                if !ready(&mut svc) {
                    log(format!("result {} notready", c));
                    return None;
                }
                svc.call(req)
            }
            _ => {
                let mut svc = own.clone();
                if !ready(&mut svc) {
                    log(format!("result {} notready", c));
                    return None;
                }
                svc.call(req)
            }
        };
        Some(held(fut, render))
    }
    fn requester(&self) -> Option<Requester> {
        let template = self.svc.as_ref()?.clone();
        let chains = self.chains.clone();
        Some(std::rc::Rc::new(move |c: usize, kv: &Kv| {
            chains.lock().unwrap().insert(c, causes_of(kv.get("inner").unwrap_or("0:ok")));
            let mut svc = template.clone();
            if !ready(&mut svc) {
                log(format!("result {} notready", c));
                return None;
            }
            Some(held(svc.call(Req::new(c, kv)), render))
        }))
    }
    fn manual(&mut self, what: &str, _kv: &Kv) {
        if what == "dropsvc" && self.svc.is_some() {
            log_raw(format!("#dropsvc {}", now_ms()));
            self.svc = None;
            self.layer = None;
        }
    }
    fn probe(&mut self, what: &str, _kv: &Kv) {
        match what {
            "state" => {
                let s = match self.state.state() {
                    ConnectionState::Connected => "connected",
                    ConnectionState::Disconnected => "disconnected",
                    ConnectionState::Reconnecting => "reconnecting",
                };
                log(format!("probe state = {}", s));
            }
            _ => {}
        }
    }
}
