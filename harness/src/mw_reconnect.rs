//! C16: the real `ReconnectLayer` over the scripted inner service.
//!
//! header: `reconnect [max=<n>] policy=none|fixed|exp|jitter|custom [d=<ms>] [init=<ms> cap=<ms>]
//!          [rf=<percent>] [tbl=<ms>,<ms>,…] [retry=0|1] [pred=<digits of the reconnectable kinds>]`
//!
//! `jitter` and `custom` go through `ReconnectPolicy::Custom`: `custom` is a table-driven
//! `IntervalFunction`, `jitter` wraps the real `ExponentialRandomBackoff` in a spy that reports the
//! delay it returned (`world::obs("delay", ns)`); the model takes that value as input and checks
//! that it lies inside the randomization envelope (DESIGN §3.2).
//!
//! Requests share one `ReconnectState`. `arrive c … via=clone|same|swap|layer` says through which handle the
//! request is made: a clone of the adapter's handle that is dropped as soon as the future exists (default), the
//! adapter's own handle used again and again, the `mem::replace(&mut self.svc, clone)` idiom, or a service made
//! on the spot by the same layer (`layer.layer(inner)`), dropped after the call. The model does not distinguish
//! them: the published state is a function of the order of completions only.
//! `manual dropsvc`: the service handle and the layer are dropped while requests are in flight (the futures own
//! everything they need); later arrivals are `noop`. The `ReconnectState` observer used by `probe state` is kept:
//! it is what an application holds to watch the connection, not a service handle.
//! `manual ondrop …` is supported (`requester`).
use crate::world::*;
use std::sync::Arc;
use std::time::Duration;
use tower::{Layer, Service};
use tower_resilience_reconnect::{
    ConnectionState, ExponentialRandomBackoff, IntervalFunction, ReconnectConfig, ReconnectLayer,
    ReconnectPolicy, ReconnectService, ReconnectState,
};

pub struct Adapter {
    /// `None` once `manual dropsvc` has dropped every handle
    svc: Option<ReconnectService<Inner>>,
    layer: Option<ReconnectLayer>,
    state: ReconnectState,
}

struct Table(Vec<u64>);
impl IntervalFunction for Table {
    fn next_interval(&self, attempt: usize) -> Duration {
        Duration::from_millis(self.0[attempt % self.0.len()])
    }
}

struct Spy(ExponentialRandomBackoff);
impl IntervalFunction for Spy {
    fn next_interval(&self, attempt: usize) -> Duration {
        let d = self.0.next_interval(attempt);
        obs("delay", d.as_nanos());
        d
    }
}

impl Adapter {
    pub fn new(kv: &Kv) -> Adapter {
        let ms = |k: &str, d: u64| Duration::from_millis(kv.u64(k, d));
        let policy = match kv.str("policy", "exp").as_str() {
            "none" => ReconnectPolicy::none(),
            "fixed" => ReconnectPolicy::fixed(ms("d", 10)),
            "jitter" => ReconnectPolicy::Custom(Arc::new(Spy(
                ExponentialRandomBackoff::new(ms("init", 100), kv.u64("rf", 50) as f64 / 100.0)
                    .multiplier(2.0)
                    .max_interval(ms("cap", 5000)),
            ))),
            "custom" => {
                let mut t: Vec<u64> =
                    kv.str("tbl", "1").split(',').filter_map(|x| x.parse().ok()).collect();
                if t.is_empty() {
                    t.push(1);
                }
                ReconnectPolicy::Custom(Arc::new(Table(t)))
            }
            _ => ReconnectPolicy::exponential(ms("init", 100), ms("cap", 5000)),
        };
        let mut b = ReconnectConfig::builder()
            .policy(policy)
            .retry_on_reconnect(kv.u64("retry", 1) != 0);
        b = match kv.opt_u64("max") {
            Some(m) => b.max_attempts(m as u32),
            None => b.unlimited_attempts(),
        };
        if let Some(p) = kv.get("pred") {
            let kinds: Vec<u8> = p.bytes().filter(|b| b.is_ascii_digit()).map(|b| b - b'0').collect();
            // the predicate receives `&dyn Error` without `'static`, so it cannot downcast; like the
            // crate's own examples it classifies by the Display text (`ierr<kind>:<serial>`)
            b = b.reconnect_predicate(move |e| {
                let s = e.to_string();
                let kind = s.strip_prefix("ierr").and_then(|r| r.split(':').next()).and_then(|k| k.parse::<u8>().ok());
                matches!(kind, Some(k) if kinds.contains(&k))
            });
        }
        // `policy=default`: the layer exactly as `ReconnectLayer::default()` builds it (C14 end to end)
        let layer = if kv.str("policy", "exp") == "default" { ReconnectLayer::default() } else { ReconnectLayer::new(b.build()) };
        let state = layer.state().clone();
        Adapter { svc: Some(layer.layer(Inner::new())), layer: Some(layer), state }
    }
}

fn ready(svc: &mut ReconnectService<Inner>) -> bool {
    matches!(poll_ready_once(svc), std::task::Poll::Ready(Ok(())))
}

/// `ReconnectError` is not exported by the crate (its module is private), so the variant is read
/// off the `Display` prefix and the payload off `source()`.
pub fn render<E: std::error::Error + 'static>(r: Result<Resp, E>) -> String {
    match r {
        Ok(x) => format!("ok:{}", x.v),
        Err(e) => {
            let s = e.to_string();
            let inner = match e.source().and_then(|x| x.downcast_ref::<IErr>()) {
                Some(ie) => format!("inner{}:{}", ie.kind, ie.v),
                None => "inner?".to_string(),
            };
            if let Some(rest) = s.strip_prefix("max reconnection attempts (") {
                let n = rest.split(')').next().unwrap_or("?");
                format!("err:max_attempts:{}:{}", n, inner)
            } else if s.starts_with("connection failed (no retry): ") {
                format!("err:no_retry:{}", inner)
            } else if s.starts_with("connection failed: ") {
                format!("err:conn_failed:{}", inner)
            } else if s.starts_with("service error: ") {
                format!("err:service:{}", inner)
            } else {
                format!("err:unknown:{}", s.replace(' ', "_"))
            }
        }
    }
}

impl Mw for Adapter {
    fn arrive(&mut self, c: usize, kv: &Kv) -> Option<CallFut> {
        let (Some(own), Some(layer)) = (self.svc.as_mut(), self.layer.as_ref()) else {
            log_raw("noop".into());
            return None;
        };
        let req = Req::new(c, kv);
        let via = kv.str("via", "clone");
        // the handle the request is made through
        let fut = match via.as_str() {
            "same" => {
                if !ready(own) {
                    log(format!("result {} notready", c));
                    return None;
                }
                own.call(req)
            }
            "swap" => {
                if !ready(own) {
                    log(format!("result {} notready", c));
                    return None;
                }
                let fresh = own.clone();
                let mut readied = std::mem::replace(own, fresh);
                readied.call(req)
            }
            "layer" => {
                let mut svc = layer.layer(Inner::new());
                if !ready(&mut svc) {
                    log(format!("result {} notready", c));
                    return None;
                }
                svc.call(req)
            }
            _ => {
                let mut svc = own.clone();
                if !ready(&mut svc) {
                    log(format!("result {} notready", c));
                    return None;
                }
                svc.call(req)
            }
        };
        Some(held(fut, render))
    }
    fn requester(&self) -> Option<Requester> {
        let template = self.svc.as_ref()?.clone();
        Some(std::rc::Rc::new(move |c: usize, kv: &Kv| {
            let mut svc = template.clone();
            if !ready(&mut svc) {
                log(format!("result {} notready", c));
                return None;
            }
            Some(held(svc.call(Req::new(c, kv)), render))
        }))
    }
    fn manual(&mut self, what: &str, _kv: &Kv) {
        if what == "dropsvc" && self.svc.is_some() {
            log_raw(format!("#dropsvc {}", now_ms()));
            self.svc = None;
            self.layer = None;
        }
    }
    fn probe(&mut self, what: &str, _kv: &Kv) {
        match what {
            "state" => {
                let s = match self.state.state() {
                    ConnectionState::Connected => "connected",
                    ConnectionState::Disconnected => "disconnected",
                    ConnectionState::Reconnecting => "reconnecting",
                };
                log(format!("probe state = {}", s));
            }
            _ => {}
        }
    }
}
