//! C16: the real `ReconnectLayer` over the scripted inner service.
//!
//! header: `reconnect [max=<n>] policy=none|fixed|exp|jitter|custom [d=<ms>] [init=<ms> cap=<ms>]
//!          [rf=<percent>] [tbl=<ms>,<ms>,…] [retry=0|1] [pred=<digits of the reconnectable kinds>]`
//!
//! `jitter` and `custom` go through `ReconnectPolicy::Custom`: `custom` is a table-driven
//! `IntervalFunction`, `jitter` wraps the real `ExponentialRandomBackoff` in a spy that reports the
//! delay it returned (`world::obs("delay", ns)`); the model takes that value as input and checks
//! that it lies inside the randomization envelope (DESIGN §3.2).
//!
//! Requests share one `ReconnectState`. `arrive c … via=clone|same|swap|layer` says through which handle the
//! request is made: a clone of the adapter's handle that is dropped as soon as the future exists (default), the
//! adapter's own handle used again and again, the `mem::replace(&mut self.svc, clone)` idiom, or a service made
//! on the spot by the same layer (`layer.layer(inner)`), dropped after the call. The model does not distinguish
//! them: the published state is a function of the order of completions only.
//! `manual dropsvc`: the service handle and the layer are dropped while requests are in flight (the futures own
//! everything they need); later arrivals are `noop`. The `ReconnectState` observer used by `probe state` is kept:
//! it is what an application holds to watch the connection, not a service handle.
//! `manual ondrop …` is supported (`requester`).
//!
//! Error chains: the wrapped service is `Chained` (the scripted `Inner` with its error mapped to `CErr`), whose
//! error has a scripted `source()` chain: inner outcome `errK>J>I` is an error of kind K whose `source()` is an
//! error of kind J whose `source()` is an error of kind I (any depth; plain `errK` has no source). Every error of
//! the chain displays as `ierr<its own kind>:<serial>`, so the `pred=` predicate classifies whatever error it is
//! handed by that error's OWN kind. `inner_done` / the rendered result name the head (the error the service
//! returned); the causes are reported in a `#chain <c> <k> <J>I…>` meta line. The model classifies the head only.
//!
//! Construction paths and accessors (entry-point round, `notes/strengthen-reconnect-w5.md`):
//! header `ctor=builder|new|default|with_defaults|layerdefault` (`ReconnectConfig::builder()`, `ReconnectConfigBuilder::new()`,
//! `ReconnectLayer::new(ReconnectConfig::default())`, `ReconnectLayer::with_defaults()`, `ReconnectLayer::default()`; the last
//! three ignore every other configuration word), `cclone=1` (layer value 0 is made from a CLONE of the configuration value),
//! `pred=conn` (`.connection_errors_only()`), `unit=us` (d/init/cap/tbl are microseconds), `jv=1` with `policy=jitter rf=0`
//! (the real `ReconnectPolicy::exponential_random(.., 0.0)` variant instead of the spy), `cb=1|panic` (`on_reconnect` /
//! `on_state_change` callbacks that log `#cb …` meta lines, and then panic).
//! `arrive … lay=<j>`: the request is made through layer value j; j >= 1 is built lazily as
//! `ReconnectLayer::new(config.clone())` from the retained configuration value and has its own `ReconnectState`.
//! `via=layerclone`: a service made by a clone of the layer value taken now (shares the layer's state).
//! Probes (all take `lay=<j>`; `by=layer|svc` reads through `ReconnectLayer::state()` / `ReconnectService::state()` instead
//! of the kept observer): `probe state`, `probe attempts`, `probe since` (`time_since_connected()`), `manual incr`
//! (`increment_attempts()`, logged as `probe incr = n`), `probe config` (`ReconnectService::config()` and the accessors
//! `max_attempts()/retry_on_reconnect()/policy()`), `probe delay a=<n>` (`config().policy().delay_for_attempt(n)`, ns),
//! `probe pred k=<kind>` (`config().should_reconnect(&error of that kind)`). The scripted error kinds 4..15 carry a text
//! after `ierr<kind>:<serial>` (`kind_text`), which is what `connection_errors_only()` looks at.
use crate::world::*;
use std::collections::{BTreeMap, HashMap, VecDeque};
use std::future::Future;
use std::pin::Pin;
use std::sync::{Arc, Mutex};
use std::task::{Context, Poll};
use std::time::Duration;
use tower::{Layer, Service};
use tower_resilience_reconnect::{
    ConnectionState, ExponentialRandomBackoff, IntervalFunction, ReconnectConfig, ReconnectConfigBuilder, ReconnectLayer,
    ReconnectPolicy, ReconnectService, ReconnectState,
};

/// one layer value with the adapter's own service handle made by it
struct Lay {
    layer: ReconnectLayer,
    svc: ReconnectService<Chained>,
    /// the wrapped service of this layer value; every service made by the layer value wraps a clone of it (one backend:
    /// one readiness script, one recovery)
    base: Inner,
}

pub struct Adapter {
    /// layer value j -> layer and service; emptied by `manual dropsvc` (every handle dropped)
    lays: BTreeMap<usize, Lay>,
    /// the configuration value further layer values are made from (`ReconnectLayer::new(config.clone())`); dropped by dropsvc
    config: Option<ReconnectConfig>,
    gone: bool,
    /// layer value j -> the `ReconnectState` handle an application keeps to watch the connection (survives dropsvc)
    observers: BTreeMap<usize, ReconnectState>,
    /// scripted cause chains of the requests' inner calls (not a service handle: a script, like `Req::plan`)
    chains: Chains,
    /// header `rdy=<chars>` / `rec=<ms>`: readiness behaviour of the wrapped service of every layer value (strict `Inner`:
    /// after a call `poll_ready` is pending for `rec` ms on every instance; outside that, successive `poll_ready` calls
    /// consume the script: 'e' = readiness error, anything else = ready); neither given: always ready, as before
    readiness: Option<(String, u64)>,
}

/// text of the scripted error kinds after `ierr<kind>:<serial>` (mirrored in `TR.Reconnect.kindText` and gen/reconnect.py)
pub fn kind_text(kind: u8) -> &'static str {
    match kind {
        4 => "Broken pipe (os error 32)",
        5 => "Connection reset by peer (os error 104)",
        6 => "connection aborted",
        7 => "Transport endpoint is not connected (os error 107)",
        8 => "Connection refused (os error 111)",
        9 => "connection timed out",
        10 => "disconnected",
        11 => "BROKEN PIPE",
        12 => "connection  reset",
        13 => "host unreachable",
        14 => "upstream said: Connection Refused",
        15 => "brokenpipe",
        _ => "",
    }
}

/// The scripted inner error with a scripted `source()` chain.
#[derive(Debug)]
pub struct CErr {
    pub kind: u8,
    pub v: u64,
    pub cause: Option<Box<CErr>>,
}
impl CErr {
    fn new(kind: u8, v: u64, causes: &[u8]) -> CErr {
        CErr { kind, v, cause: causes.split_first().map(|(k, rest)| Box::new(CErr::new(*k, v, rest))) }
    }
}
impl std::fmt::Display for CErr {
    fn fmt(&self, f: &mut std::fmt::Formatter<'_>) -> std::fmt::Result {
        // the error's own kind only, like `IErr`: a wrapper that does not repeat its cause's text
        write!(f, "ierr{}:{}", self.kind, self.v)?;
        match kind_text(self.kind) {
            "" => Ok(()),
            t => write!(f, " {}", t),
        }
    }
}
impl std::error::Error for CErr {
    fn source(&self) -> Option<&(dyn std::error::Error + 'static)> {
        self.cause.as_deref().map(|c| c as &(dyn std::error::Error + 'static))
    }
}

/// request -> the cause chains of its scripted steps not yet consumed (popped in step with `Req::plan`)
type Chains = Arc<Mutex<HashMap<usize, VecDeque<Vec<u8>>>>>;

/// `inner=0:err2>1,3:ok,0:err1` -> [[1], [], []]
pub fn causes_of(plan: &str) -> VecDeque<Vec<u8>> {
    if plan.is_empty() {
        return VecDeque::new();
    }
    plan.split(',')
        .map(|part| {
            let o = part.split_once(':').map(|x| x.1).unwrap_or(part);
            match o.strip_prefix("err") {
                Some(k) => k.split('>').skip(1).map(|x| x.parse().unwrap_or(0)).collect(),
                None => Vec::new(),
            }
        })
        .collect()
}

/// `Inner` with its errors mapped to `CErr`
#[derive(Clone)]
pub struct Chained {
    inner: Inner,
    chains: Chains,
}
pub struct ChainFut {
    fut: InnerFut,
    c: usize,
    causes: Vec<u8>,
}
impl Future for ChainFut {
    type Output = Result<Resp, CErr>;
    fn poll(mut self: Pin<&mut Self>, cx: &mut Context<'_>) -> Poll<Self::Output> {
        let r = match Pin::new(&mut self.fut).poll(cx) {
            Poll::Pending => return Poll::Pending,
            Poll::Ready(r) => r,
        };
        Poll::Ready(r.map_err(|e| {
            if !self.causes.is_empty() {
                let l: Vec<String> = self.causes.iter().map(|k| k.to_string()).collect();
                log_raw(format!("#chain {} {} {}", self.c, e.v, l.join(">")));
            }
            CErr::new(e.kind, e.v, &self.causes)
        }))
    }
}
impl Service<Req> for Chained {
    type Response = Resp;
    type Error = CErr;
    type Future = ChainFut;
    fn poll_ready(&mut self, cx: &mut Context<'_>) -> Poll<Result<(), CErr>> {
        self.inner.poll_ready(cx).map_err(|e| {
            // the inner service failed a readiness poll (of a caller, or of a call future after its back-off)
            log("ready_err".into());
            CErr::new(e.kind, e.v, &[])
        })
    }
    fn call(&mut self, req: Req) -> ChainFut {
        let c = req.c;
        let causes = self.chains.lock().unwrap().get_mut(&c).and_then(|q| q.pop_front()).unwrap_or_default();
        ChainFut { fut: self.inner.call(req), c, causes }
    }
}

struct Table(Vec<Duration>);
impl IntervalFunction for Table {
    fn next_interval(&self, attempt: usize) -> Duration {
        self.0[attempt % self.0.len()]
    }
}

struct Spy(ExponentialRandomBackoff);
impl IntervalFunction for Spy {
    fn next_interval(&self, attempt: usize) -> Duration {
        let d = self.0.next_interval(attempt);
        obs("delay", d.as_nanos());
        d
    }
}

fn policy_of(kv: &Kv) -> ReconnectPolicy {
    // `unit=us`: the header's durations are microseconds
    let us = kv.get("unit") == Some("us");
    let dur = move |n: u64| if us { Duration::from_micros(n) } else { Duration::from_millis(n) };
    let ms = |k: &str, d: u64| dur(kv.u64(k, d));
    match kv.str("policy", "exp").as_str() {
        "none" => ReconnectPolicy::none(),
        "fixed" => ReconnectPolicy::fixed(ms("d", 10)),
        // the real randomised variant; its delay cannot be observed from outside, so only with factor 0
        "jitter" if kv.u64("jv", 0) == 1 => ReconnectPolicy::exponential_random(ms("init", 100), ms("cap", 5000), 0.0),
        "jitter" => ReconnectPolicy::Custom(Arc::new(Spy(
            ExponentialRandomBackoff::new(ms("init", 100), kv.u64("rf", 50) as f64 / 100.0)
                .multiplier(2.0)
                .max_interval(ms("cap", 5000)),
        ))),
        "custom" => {
            let mut t: Vec<Duration> =
                kv.str("tbl", "1").split(',').filter_map(|x| x.parse().ok()).map(dur).collect();
            if t.is_empty() {
                t.push(dur(1));
            }
            ReconnectPolicy::Custom(Arc::new(Table(t)))
        }
        _ => ReconnectPolicy::exponential(ms("init", 100), ms("cap", 5000)),
    }
}

fn state_name(s: ConnectionState) -> &'static str {
    match s {
        ConnectionState::Connected => "connected",
        ConnectionState::Disconnected => "disconnected",
        ConnectionState::Reconnecting => "reconnecting",
    }
}

/// the configuration value, through the builder the header names
fn config_of(kv: &Kv) -> ReconnectConfig {
    let mut b = match kv.str("ctor", "builder").as_str() {
        "default" | "with_defaults" | "layerdefault" => return ReconnectConfig::default(),
        "new" => ReconnectConfigBuilder::new(),
        _ => ReconnectConfig::builder(),
    };
    if kv.str("policy", "exp") == "default" {
        return ReconnectConfig::default();
    }
    // only what the header names is set; everything else is left to the builder's defaults (exponential 100 ms .. 5 s,
    // unlimited attempts, retry, no predicate)
    if kv.get("policy").is_some() {
        b = b.policy(policy_of(kv));
    }
    if let Some(r) = kv.opt_u64("retry") {
        b = b.retry_on_reconnect(r != 0);
    }
    b = match kv.opt_u64("max") {
        Some(m) => b.max_attempts(m as u32),
        // `unl=1`: a limit is set and taken back
        None if kv.u64("unl", 0) == 1 => b.max_attempts(7).unlimited_attempts(),
        None => b,
    };
    match kv.get("pred") {
        Some("conn") => b = b.connection_errors_only(),
        Some(p) => {
            let kinds: Vec<u8> = p.bytes().filter(|b| b.is_ascii_digit()).map(|b| b - b'0').collect();
            // the predicate receives `&dyn Error` without `'static`, so it cannot downcast; like the
            // crate's own examples it classifies by the Display text (`ierr<kind>:<serial>…`)
            b = b.reconnect_predicate(move |e| {
                let s = e.to_string();
                let kind = s
                    .strip_prefix("ierr")
                    .and_then(|r| r.split(':').next())
                    .and_then(|k| k.parse::<u8>().ok());
                matches!(kind, Some(k) if kinds.contains(&k))
            });
        }
        None => {}
    }
    // callbacks are observers: they log meta lines (not compared), `cb=panic` then panics
    if let Some(cb) = kv.get("cb") {
        let boom = cb == "panic";
        b = b
            .on_reconnect(move |a| {
                log_raw(format!("#cb reconnect {}", a));
                if boom {
                    panic!("scripted callback panic");
                }
            })
            .on_state_change(move |f, t| {
                log_raw(format!("#cb state {} {}", state_name(f), state_name(t)));
                if boom {
                    panic!("scripted callback panic");
                }
            });
    }
    b.build()
}

impl Adapter {
    pub fn new(kv: &Kv) -> Adapter {
        let chains: Chains = Default::default();
        // layer value 0
        let layer = match kv.str("ctor", "builder").as_str() {
            "with_defaults" => ReconnectLayer::with_defaults(),
            // `policy=default`: the layer exactly as `ReconnectLayer::default()` builds it (C14 end to end)
            "layerdefault" => ReconnectLayer::default(),
            _ if kv.str("policy", "exp") == "default" && kv.get("ctor").is_none() => ReconnectLayer::default(),
            _ if kv.u64("cclone", 0) == 1 => {
                // the layer gets a clone of the configuration value; the original is dropped at once
                let original = config_of(kv);
                let copy = original.clone();
                drop(original);
                ReconnectLayer::new(copy)
            }
            _ => ReconnectLayer::new(config_of(kv)),
        };
        let readiness = if kv.get("rdy").is_some() || kv.get("rec").is_some() {
            Some((kv.str("rdy", ""), kv.u64("rec", 0)))
        } else {
            None
        };
        let mut a = Adapter { lays: BTreeMap::new(), config: Some(config_of(kv)), gone: false, observers: BTreeMap::new(), chains, readiness };
        a.install(0, layer);
        a
    }
    fn install(&mut self, j: usize, layer: ReconnectLayer) {
        self.observers.insert(j, layer.state().clone());
        let base = match &self.readiness {
            Some((script, rec)) => Inner::strict_rec(script, *rec, true),
            None => Inner::new(),
        };
        let svc = layer.layer(Chained { inner: base.clone(), chains: self.chains.clone() });
        self.lays.insert(j, Lay { layer, svc, base });
    }
    /// layer value j, made on first use from a clone of the retained configuration value: its own `ReconnectState`
    fn ensure(&mut self, j: usize) -> bool {
        if self.gone {
            return false;
        }
        if !self.lays.contains_key(&j) {
            let Some(cfg) = self.config.as_ref() else { return false };
            let layer = ReconnectLayer::new(cfg.clone());
            self.install(j, layer);
        }
        true
    }
    /// the state of layer value j as the application reads it: through the layer, through the service, or (default, and
    /// always after dropsvc) through the `ReconnectState` handle it kept
    fn with_state<R>(&mut self, j: usize, by: &str, f: impl FnOnce(&ReconnectState) -> R) -> R {
        if self.ensure(j) {
            let lay = &self.lays[&j];
            match by {
                "layer" => return f(lay.layer.state()),
                "svc" => return f(lay.svc.state()),
                _ => {}
            }
        }
        // a layer value nobody made before every handle was dropped: a state that never saw a connection
        let st = self.observers.entry(j).or_insert_with(ReconnectState::default);
        f(st)
    }
}

fn ready(svc: &mut ReconnectService<Chained>) -> bool {
    matches!(poll_ready_once(svc), std::task::Poll::Ready(Ok(())))
}

/// `ReconnectError` is not exported by the crate (its module is private), so the variant is read
/// off the `Display` prefix and the payload off `source()`.
pub fn render<E: std::error::Error + 'static>(r: Result<Resp, E>) -> String {
    match r {
        Ok(x) => format!("ok:{}", x.v),
        Err(e) => {
            let s = e.to_string();
            let inner = match e.source().and_then(|x| x.downcast_ref::<CErr>()) {
                Some(ie) => format!("inner{}:{}", ie.kind, ie.v),
                None => "inner?".to_string(),
            };
            if let Some(rest) = s.strip_prefix("max reconnection attempts (") {
                let n = rest.split(')').next().unwrap_or("?");
                format!("err:max_attempts:{}:{}", n, inner)
            } else if s.starts_with("connection failed (no retry): ") {
                format!("err:no_retry:{}", inner)
            } else if s.starts_with("connection failed: ") {
                format!("err:conn_failed:{}", inner)
            } else if s.starts_with("service error: ") {
                format!("err:service:{}", inner)
            } else {
                format!("err:unknown:{}", s.replace(' ', "_"))
            }
        }
    }
}

impl Mw for Adapter {
    fn arrive(&mut self, c: usize, kv: &Kv) -> Option<CallFut> {
        let j = kv.u64("lay", 0) as usize;
        if !self.ensure(j) {
            log_raw("noop".into());
            return None;
        }
        let req = Req::new(c, kv);
        self.chains.lock().unwrap().insert(c, causes_of(kv.get("inner").unwrap_or("0:ok")));
        let chains = self.chains.clone();
        let Lay { layer, svc: own, base } = self.lays.get_mut(&j).unwrap();
        let via = kv.str("via", "clone");
        // the handle the request is made through
        let fut = match via.as_str() {
            "same" => {
                if !ready(own) {
                    log(format!("result {} notready", c));
                    return None;
                }
                own.call(req)
            }
            "swap" => {
                if !ready(own) {
                    log(format!("result {} notready", c));
                    return None;
                }
                let fresh = own.clone();
                let mut readied = std::mem::replace(own, fresh);
                readied.call(req)
            }
            "layer" | "layerclone" => {
                // a service made on the spot by the layer value, or by a clone of it taken now (after services were built)
                let mut svc = if via == "layer" {
                    layer.layer(Chained { inner: base.clone(), chains })
                } else {
                    layer.clone().layer(Chained { inner: base.clone(), chains })
                };
                if !ready(&mut svc) {
                    log(format!("result {} notready", c));
                    return None;
                }
                svc.call(req)
            }
            _ => {
                let mut svc = own.clone();
                if !ready(&mut svc) {
                    log(format!("result {} notready", c));
                    return None;
                }
                svc.call(req)
            }
        };
        Some(held(fut, render))
    }
    fn requester(&self) -> Option<Requester> {
        let template = self.lays.get(&0)?.svc.clone();
        let chains = self.chains.clone();
        Some(std::rc::Rc::new(move |c: usize, kv: &Kv| {
            chains.lock().unwrap().insert(c, causes_of(kv.get("inner").unwrap_or("0:ok")));
            let mut svc = template.clone();
            if !ready(&mut svc) {
                log(format!("result {} notready", c));
                return None;
            }
            Some(held(svc.call(Req::new(c, kv)), render))
        }))
    }
    fn manual(&mut self, what: &str, kv: &Kv) {
        match what {
            "dropsvc" if !self.gone => {
                log_raw(format!("#dropsvc {}", now_ms()));
                self.lays.clear();
                self.config = None;
                self.gone = true;
            }
            "incr" => {
                // the application bumps the shared attempts counter itself (`ReconnectState::increment_attempts`)
                let j = kv.u64("lay", 0) as usize;
                let n = self.with_state(j, kv.str("by", "obs").as_str(), |st| st.increment_attempts());
                log(format!("probe incr{} = {}", sfx(j), n));
            }
            _ => {}
        }
    }
    fn probe(&mut self, what: &str, kv: &Kv) {
        let j = kv.u64("lay", 0) as usize;
        let by = kv.str("by", "obs");
        match what {
            "state" => {
                let s = self.with_state(j, &by, |st| st.state());
                log(format!("probe state{} = {}", sfx(j), state_name(s)));
            }
            "attempts" => {
                let n = self.with_state(j, &by, |st| st.attempts());
                log(format!("probe attempts{} = {}", sfx(j), n));
            }
            "since" => {
                let d = self.with_state(j, &by, |st| st.time_since_connected());
                let d = d.map(|d| d.as_millis().to_string()).unwrap_or("none".into());
                log(format!("probe since{} = {}", sfx(j), d));
            }
            "config" | "delay" | "pred" => {
                // through `ReconnectService::config()` of the service of layer value j (a clone of the configuration for j >= 1)
                if !self.ensure(j) {
                    log(format!("probe {} = gone", what));
                    return;
                }
                let cfg = self.lays[&j].svc.config();
                match what {
                    "config" => {
                        let pol = match cfg.policy() {
                            ReconnectPolicy::None => "none",
                            ReconnectPolicy::Fixed(_) => "fixed",
                            ReconnectPolicy::Exponential(_) => "exp",
                            ReconnectPolicy::ExponentialRandom(_) => "random",
                            ReconnectPolicy::Custom(_) => "custom",
                        };
                        let max = cfg.max_attempts().map(|m| m.to_string()).unwrap_or("none".into());
                        log(format!("probe config = max:{} retry:{} policy:{}", max, cfg.retry_on_reconnect() as u8, pol));
                    }
                    "delay" => {
                        let a = kv.u64("a", 0);
                        let d = cfg.policy().delay_for_attempt(a as usize);
                        let d = d.map(|d| d.as_nanos().to_string()).unwrap_or("none".into());
                        log(format!("probe delay a={} = {}", a, d));
                    }
                    _ => {
                        let k = kv.u64("k", 0) as u8;
                        let yes = cfg.should_reconnect(&CErr::new(k, 0, &[]));
                        log(format!("probe pred k={} = {}", k, yes as u8));
                    }
                }
            }
            _ => {}
        }
    }
}

fn sfx(j: usize) -> String {
    if j == 0 {
        String::new()
    } else {
        format!("@{}", j)
    }
}
