//! C16: the real `ReconnectLayer` over the scripted inner service.
//!
//! header: `reconnect [max=<n>] policy=none|fixed|exp|jitter|custom [d=<ms>] [init=<ms> cap=<ms>]
//!          [rf=<percent>] [tbl=<ms>,<ms>,…] [retry=0|1] [pred=<digits of the reconnectable kinds>]`
//!
//! `jitter` and `custom` go through `ReconnectPolicy::Custom`: `custom` is a table-driven
//! `IntervalFunction`, `jitter` wraps the real `ExponentialRandomBackoff` in a spy that reports the
//! delay it returned (`world::obs("delay", ns)`); the model takes that value as input and checks
//! that it lies inside the randomization envelope (DESIGN §3.2).
use crate::world::*;
use std::sync::Arc;
use std::time::Duration;
use tower::{Layer, Service};
use tower_resilience_reconnect::{
    ConnectionState, ExponentialRandomBackoff, IntervalFunction, ReconnectConfig, ReconnectLayer,
    ReconnectPolicy, ReconnectService, ReconnectState,
};

pub struct Adapter {
    svc: ReconnectService<Inner>,
    state: ReconnectState,
}

struct Table(Vec<u64>);
impl IntervalFunction for Table {
    fn next_interval(&self, attempt: usize) -> Duration {
        Duration::from_millis(self.0[attempt % self.0.len()])
    }
}

struct Spy(ExponentialRandomBackoff);
impl IntervalFunction for Spy {
    fn next_interval(&self, attempt: usize) -> Duration {
        let d = self.0.next_interval(attempt);
        obs("delay", d.as_nanos());
        d
    }
}

impl Adapter {
    pub fn new(kv: &Kv) -> Adapter {
        let ms = |k: &str, d: u64| Duration::from_millis(kv.u64(k, d));
        let policy = match kv.str("policy", "exp").as_str() {
            "none" => ReconnectPolicy::none(),
            "fixed" => ReconnectPolicy::fixed(ms("d", 10)),
            "jitter" => ReconnectPolicy::Custom(Arc::new(Spy(
                ExponentialRandomBackoff::new(ms("init", 100), kv.u64("rf", 50) as f64 / 100.0)
                    .multiplier(2.0)
                    .max_interval(ms("cap", 5000)),
            ))),
            "custom" => {
                let mut t: Vec<u64> =
                    kv.str("tbl", "1").split(',').filter_map(|x| x.parse().ok()).collect();
                if t.is_empty() {
                    t.push(1);
                }
                ReconnectPolicy::Custom(Arc::new(Table(t)))
            }
            _ => ReconnectPolicy::exponential(ms("init", 100), ms("cap", 5000)),
        };
        let mut b = ReconnectConfig::builder()
            .policy(policy)
            .retry_on_reconnect(kv.u64("retry", 1) != 0);
        b = match kv.opt_u64("max") {
            Some(m) => b.max_attempts(m as u32),
            None => b.unlimited_attempts(),
        };
        if let Some(p) = kv.get("pred") {
            let kinds: Vec<u8> = p.bytes().filter(|b| b.is_ascii_digit()).map(|b| b - b'0').collect();
            // the predicate receives `&dyn Error` without `'static`, so it cannot downcast; like the
            // crate's own examples it classifies by the Display text (`ierr<kind>:<serial>`)
            b = b.reconnect_predicate(move |e| {
                let s = e.to_string();
                let kind = s.strip_prefix("ierr").and_then(|r| r.split(':').next()).and_then(|k| k.parse::<u8>().ok());
                matches!(kind, Some(k) if kinds.contains(&k))
            });
        }
        // `policy=default`: the layer exactly as `ReconnectLayer::default()` builds it (C14 end to end)
        let layer = if kv.str("policy", "exp") == "default" { ReconnectLayer::default() } else { ReconnectLayer::new(b.build()) };
        let state = layer.state().clone();
        Adapter { svc: layer.layer(Inner::new()), state }
    }
}

/// `ReconnectError` is not exported by the crate (its module is private), so the variant is read
/// off the `Display` prefix and the payload off `source()`.
pub fn render<E: std::error::Error + 'static>(r: Result<Resp, E>) -> String {
    match r {
        Ok(x) => format!("ok:{}", x.v),
        Err(e) => {
            let s = e.to_string();
            let inner = match e.source().and_then(|x| x.downcast_ref::<IErr>()) {
                Some(ie) => format!("inner{}:{}", ie.kind, ie.v),
                None => "inner?".to_string(),
            };
            if let Some(rest) = s.strip_prefix("max reconnection attempts (") {
                let n = rest.split(')').next().unwrap_or("?");
                format!("err:max_attempts:{}:{}", n, inner)
            } else if s.starts_with("connection failed (no retry): ") {
                format!("err:no_retry:{}", inner)
            } else if s.starts_with("connection failed: ") {
                format!("err:conn_failed:{}", inner)
            } else if s.starts_with("service error: ") {
                format!("err:service:{}", inner)
            } else {
                format!("err:unknown:{}", s.replace(' ', "_"))
            }
        }
    }
}

impl Mw for Adapter {
    fn arrive(&mut self, c: usize, kv: &Kv) -> Option<CallFut> {
        let mut svc = self.svc.clone();
        let req = Req::new(c, kv);
        match poll_ready_once(&mut svc) {
            std::task::Poll::Ready(Ok(())) => {}
            _ => {
                log(format!("result {} notready", c));
                return None;
            }
        }
        let fut = svc.call(req);
        Some(held(fut, render))
    }
    fn probe(&mut self, what: &str, _kv: &Kv) {
        match what {
            "state" => {
                let s = match self.state.state() {
                    ConnectionState::Connected => "connected",
                    ConnectionState::Disconnected => "disconnected",
                    ConnectionState::Reconnecting => "reconnecting",
                };
                log(format!("probe state = {}", s));
            }
            _ => {}
        }
    }
}
