//! C11: the real `CoalesceLayer` (key extractor `|r: &Req| r.key`) over the scripted inner service.
//!
//! `Service::call` decides leader / waiter and, for a leader, calls the inner service at once,
//! so the whole of that happens in `arrive`.  Besides the compared events the adapter writes
//! meta lines (never compared with the model, used by the python monitors only):
//!   `#arrive <c> <key>`  before `call()` (a leader's `inner_call` line follows immediately),
//!   `#poll <c>`          at every poll of a call future that made no inner call in `call()`.
//!   `#dropsvc`           the adapter dropped its service handle and the layer (`manual dropsvc`).
//!
//! `manual dropsvc`: every `CoalesceService` handle sharing the in-flight table goes away while call
//! futures may still be in flight (what `svc.clone().oneshot(req)` bursts do when the last request
//! consumes the original handle). The per-arrival clone made in `arrive` is dropped when `arrive`
//! returns, as `Oneshot` does right after `call`, so after `dropsvc` only the call futures themselves
//! can keep anything alive. No request can be made afterwards: a later `arrive` is answered `noop`.
//!
//! `manual ondrop c=<c> by=<c2> inner=<lat>:<out> [thread=1]`: arms a one-shot hook on the INNER future of
//! caller `c`: when that future is destroyed unfinished (its leader was dropped), its destructor — before it
//! releases anything, i.e. before `inner_drop` is logged — lets a request `c2` for the same key arrive
//! (`clone` / `poll_ready` / `call`), on the dropping thread itself (a destructor that issues a request) or,
//! with `thread=1`, on a second OS thread while the destructor blocks until that thread has returned (a slow
//! destructor and a concurrent caller: a real two-thread schedule, made deterministic by the join).
//! `CoalesceFuture::drop` unregisters the key and only then lets its fields be destroyed, so this is the
//! one point at which code can run between "key unregistered" and "inner future destroyed". Meta line
//! `#ondrop <c> <c2>`; the future obtained for `c2` is parked and handed out by the next `arrive <c2> …`
//! (which then makes no call of its own), so that the case can go on polling it.
//!
//! `manual herd threads=<N> rounds=<R> [keys=<M>] [gate=none|clone|hash] [ballast=0|1] [out=ok|err|mix]`:
//! simultaneous arrivals on real OS threads — a bounded SEARCH (not a proof) for executions in which leader
//! election is not atomic; see `herd` below.
//!
//! `manual finish threads=<N> rounds=<R> [keys=<M>] [gate=none|drop] [out=ok|err|mix]`: arrivals racing with a
//! COMPLETION on real OS threads (nothing is ever dropped, nothing panics: no request may see `leader_cancelled`);
//! see `finish` below.
//!
//! `arrive … via=clone|template|swap|readyclone`: how the caller obtains the handle it calls, see `request_via`.
//!
//! Construction paths (header `ctor=builder|new|config|confignew|service`, default `builder`): the layer is made by
//! `CoalesceLayer::builder(f).name(..).build()`, `CoalesceLayer::new(f)`, `CoalesceLayer::with_config(` a clone of
//! `CoalesceConfig::builder(f).name(..).build())`, `CoalesceLayer::with_config(CoalesceConfig::new(f))`, or there is no
//! layer at all and every service is `CoalesceService::new(backend, Arc::new(CoalesceConfig::new(f)))`.
//!
//! `arrive … svc=<k>` (default 0): the request goes to service k. Service 0 is built when the case begins; service k is
//! built LAZILY, at the first request that names it (so: after other services were built and possibly used), from the
//! SAME layer value for even k and from a clone of the layer taken at that moment for odd k (the clone is kept until
//! `manual dropsvc`). All services wrap clones of ONE backend (one serial-number source), so a request to service j for
//! a key that is in flight on service i must be seen to start its own inner call: `Layer::layer` gives every service
//! its own in-flight table; what a `CoalesceService` shares, it shares with its own clones only. Meta line
//! `#arrive <c> <key>@<k>` for k > 0 (the monitors treat (service, key) as the key).
//!
//! `arrive … clonepanic=1`: the value the inner call of this request produces (response or error — the wrapped
//! service's own types, `S::Response: Clone`, `S::Error: Clone`) PANICS THE FIRST TIME IT IS CLONED (one-shot; later
//! clones succeed). A leader clones its result once, in its completing poll, to publish it to the waiters; that poll
//! then unwinds: the leading request panics, so its waiters must fail with `leader_cancelled` and the key must be free
//! at once. Inert for a request that coalesces onto another call (it makes no inner call).
//!
//! `arrive … rdy=<script>`: what the wrapped service of THE HANDLE THIS CALLER IS ABOUT TO CALL answers to that handle's
//! successive `poll_ready` calls ('p' pending, 'r' ready, 'e' error — `Err(IErr{9,0})`, a connection of that handle's
//! own that failed); the caller polls until an answer other than pending or until the script ends (as in
//! `mw_bulkhead.rs`). Which handle that is follows `via=`: the per-request clone (`clone`, `readyclone` — the owner's
//! handle is readied without a script first), the owner's handle itself (`template`, `swap`). A handle whose readiness
//! failed is discarded (Tower's contract): the per-request clone is dropped; the owner's handle is replaced by a spare
//! clone taken beforehand. The caller gets `result c err:inner9:0` (`CoalesceError::Service`) or `result c notready`,
//! `Service::call` is not reached (no `#arrive` line). Every OTHER handle — the owner's, the clones earlier requests
//! were made through — and every call in flight must be unaffected: the in-flight table is shared by the clones, a
//! handle's copy of the wrapped service is not. Ignored on an arrival that only hands out a parked future (`ondrop`).
//!
//! Case header `khash=<m>`: the key type's `Hash` feeds only `key mod m` to the hasher (`m=1`: all keys collide; absent /
//! 0: the whole key), its `Eq` compares the key — distinct keys with equal hashes are DISTINCT keys and must not share a
//! call, a result or a table entry (`CKey` below). Not a notion of the model. `manual herd … hmod=<m>`: the same for the
//! key type of the real-thread instance (`GKey`; the rendezvous of `gate=hash` sits in that same `Hash`).
//!
//! `arrive … eclone=1`: the caller clones what it received (`Result<Resp, CoalesceError<IErr>>` — `CoalesceError::clone`,
//! what an outer layer that shares results, e.g. a second coalescing layer, does with it) and looks at the clone only.
use crate::world::*;
use std::cell::Cell;
use std::collections::{BTreeMap, BTreeSet};
use std::future::Future;
use std::hash::{Hash, Hasher};
use std::pin::Pin;
use std::sync::atomic::{AtomicBool, AtomicU64, AtomicUsize, Ordering};
use std::sync::{Arc, Mutex};
use std::task::{Context, Poll, Waker};
use tower::{Layer, Service};
use tower_resilience_coalesce::{CoalesceConfig, CoalesceError, CoalesceLayer, CoalesceService};

/// The key type of the case proper: the request's key number, with a `Hash` that may be deliberately COARSER than
/// its `Eq` (case header `khash=<m>`: only `key mod m` is hashed — `m=1`: every key has the same hash; `0`/absent:
/// the whole key is hashed). Legal under the `Hash`/`Eq` contract (equal keys hash equally) and common with
/// hand-written `Hash` impls (hash the path, compare tenant and path). Coalescing is PER KEY, i.e. per `Eq` class:
/// keys that merely collide in their hash are different keys (the model has no notion of a hash at all).
#[derive(Clone, Debug)]
pub struct CKey {
    key: u64,
    /// what `Hash` feeds to the hasher: a function of `key` fixed for the case
    hc: u64,
}
impl PartialEq for CKey {
    fn eq(&self, o: &CKey) -> bool {
        self.key == o.key
    }
}
impl Eq for CKey {}
impl Hash for CKey {
    fn hash<H: Hasher>(&self, h: &mut H) {
        h.write_u64(self.hc);
    }
}
/// `khash=<m>` of the case being run (the key extractor is a plain `fn`; requests are also made from destructors and
/// from a second thread, `manual ondrop … thread=1`, hence a process-wide atomic)
static KEY_HASH_MOD: AtomicU64 = AtomicU64::new(0);
type KeyFn = fn(&Req) -> CKey;
fn key_of(r: &Req) -> CKey {
    let m = KEY_HASH_MOD.load(Ordering::SeqCst);
    CKey { key: r.key, hc: if m == 0 { r.key } else { r.key % m } }
}

/// The scripted inner service, except that `call()` itself panics for a request marked
/// `callpanic=1` (the synchronous part of a `service_fn` closure panicking, a service that
/// insists on `poll_ready`, …). Nothing is logged and no serial number is consumed: the
/// scripted service is not reached.
#[derive(Clone)]
pub struct CallPanic {
    inner: Inner,
    shared: Arc<Mutex<Shared>>,
    /// which of the adapter's services this is the wrapped service of
    ix: usize,
}
const CALL_PANIC: u64 = u64::MAX;
const CLONE_PANIC: u64 = u64::MAX - 1;

/// one-shot: the first `Clone` of the value that carries it panics
#[derive(Default)]
pub struct Bomb(Option<Arc<AtomicBool>>);
impl Bomb {
    fn armed(on: bool) -> Bomb {
        Bomb(if on { Some(Arc::new(AtomicBool::new(true))) } else { None })
    }
    fn pass(&self, what: &str) -> Bomb {
        if let Some(b) = &self.0 {
            if b.swap(false, Ordering::SeqCst) {
                panic!("scripted panic inside Clone of the {}", what);
            }
        }
        Bomb(self.0.clone())
    }
}
/// the wrapped service's response / error: the scripted inner service's, plus a `Clone` that can be made to panic
pub struct CResp {
    r: Resp,
    bomb: Bomb,
}
impl Clone for CResp {
    fn clone(&self) -> CResp {
        let bomb = self.bomb.pass("response");
        CResp { r: self.r.clone(), bomb }
    }
}
pub struct CErr {
    e: IErr,
    bomb: Bomb,
}
impl Clone for CErr {
    fn clone(&self) -> CErr {
        let bomb = self.bomb.pass("error");
        CErr { e: self.e.clone(), bomb }
    }
}

impl Service<Req> for CallPanic {
    type Response = CResp;
    type Error = CErr;
    type Future = Hooked;
    fn poll_ready(&mut self, cx: &mut Context<'_>) -> Poll<Result<(), CErr>> {
        self.inner.poll_ready(cx).map_err(|e| CErr { e, bomb: Bomb::default() })
    }
    fn call(&mut self, req: Req) -> Hooked {
        if req.tag == CALL_PANIC {
            panic!("scripted panic inside call()");
        }
        let (c, key, bomb) = (req.c, req.key, req.tag == CLONE_PANIC);
        Hooked { c, key, ix: self.ix, bomb, over: false, shared: self.shared.clone(), fut: self.inner.call(req) }
    }
}

type Svc = CoalesceService<CallPanic, CKey, Req, KeyFn>;
type SvcFut = <Svc as Service<Req>>::Future;

/// What the inner futures' destructors need: the owner's handle, the armed hooks, the parked futures.
pub struct Shared {
    /// the owner's handles, one per service built so far (`svc=<k>`); none left once `manual dropsvc` has dropped them
    svcs: BTreeMap<usize, Svc>,
    /// `manual dropsvc` has happened: no service can be called or built any more
    gone: bool,
    /// `manual ondrop c=.. by=..`: leader -> (new caller, its arguments, on a second thread)
    hooks: BTreeMap<usize, (usize, Kv, bool)>,
    /// futures obtained inside a destructor, waiting for their `arrive` op
    parked: BTreeMap<usize, (SvcFut, bool)>,
    /// every caller that has made (or been refused) a request
    known: BTreeSet<usize>,
}

/// The scripted inner future, with the destructor hook described at the top of the file. Field order
/// matters: `Drop::drop` below runs first, then `fut` is destroyed (and logs `inner_drop`).
pub struct Hooked {
    c: usize,
    key: u64,
    /// the service this call was made through
    ix: usize,
    /// `clonepanic=1`: the value this call produces panics the first time it is cloned
    bomb: bool,
    /// finished, or panicked inside `poll`: not in flight any more
    over: bool,
    shared: Arc<Mutex<Shared>>,
    fut: InnerFut,
}
impl Future for Hooked {
    type Output = Result<CResp, CErr>;
    fn poll(mut self: Pin<&mut Self>, cx: &mut Context<'_>) -> Poll<Self::Output> {
        self.over = true; // stays set if the poll below unwinds
        let r = Pin::new(&mut self.fut).poll(cx);
        if r.is_pending() {
            self.over = false;
        }
        let bomb = Bomb::armed(self.bomb);
        r.map(|x| match x {
            Ok(r) => Ok(CResp { r, bomb }),
            Err(e) => Err(CErr { e, bomb }),
        })
    }
}
impl Drop for Hooked {
    fn drop(&mut self) {
        if self.over {
            return;
        }
        let job = {
            let mut sh = self.shared.lock().unwrap_or_else(|e| e.into_inner());
            match (sh.hooks.get(&self.c).cloned(), sh.svcs.get(&self.ix).cloned()) {
                (Some((c2, kv, thread)), Some(svc)) if !sh.known.contains(&c2) => {
                    sh.hooks.remove(&self.c);
                    sh.known.insert(c2);
                    Some((c2, kv, thread, svc))
                }
                _ => None,
            }
        };
        let Some((c2, kv, thread, svc)) = job else { return };
        log_raw(format!("#ondrop {} {}", self.c, c2));
        let mut req = Req::new(c2, &kv);
        req.key = self.key;
        let got = if thread {
            // this destructor blocks; meanwhile another thread makes the request
            let rt = tokio::runtime::Handle::current();
            std::thread::scope(|s| {
                let ix = self.ix;
                s.spawn(move || {
                    let _g = rt.enter();
                    request(svc, ix, c2, req, &Rdy::default())
                })
                .join()
                .unwrap_or(None)
            })
        } else {
            request(svc, self.ix, c2, req, &Rdy::default())
        };
        if let Some(x) = got {
            self.shared.lock().unwrap_or_else(|e| e.into_inner()).parked.insert(c2, x);
        }
    }
}

/// One request the way a caller makes it: `poll_ready`, `call`; the handle (a clone) is dropped on return,
/// as `Oneshot` does. `None` when no future came into being (the adapter has logged why).
fn request(mut svc: Svc, ix: usize, c: usize, req: Req, rdy: &Rdy) -> Option<(SvcFut, bool)> {
    request_on(&mut svc, ix, c, req, Some(rdy))
}

/// `rdy=<script>` of one arrival: the answers of the wrapped service to the readiness polls of the handle about to be
/// called, installed in the back-end's shared state for the duration of those polls only
#[derive(Clone, Default)]
pub struct Rdy {
    script: String,
    inner: Option<Arc<Mutex<InnerShared>>>,
}

/// Poll `svc` ready the way a caller does (`ready().await`): until the answer is not `Pending`, at most once per
/// scripted answer (no script: one poll, the wrapped service is ready). `false`: the handle is not to be called — the
/// caller has been answered (`result c <readiness error>` / `result c notready`).
fn readied(svc: &mut Svc, c: usize, rdy: &Rdy) -> bool {
    readied_how(svc, c, rdy) == Rd::Ready
}

#[derive(PartialEq, Eq)]
enum Rd {
    Ready,
    /// `poll_ready` returned an error: the handle must be discarded
    Failed,
    NotReady,
}

fn readied_how(svc: &mut Svc, c: usize, rdy: &Rdy) -> Rd {
    let scripted = !rdy.script.is_empty() && rdy.inner.is_some();
    if scripted {
        rdy.inner.as_ref().unwrap().lock().unwrap_or_else(|e| e.into_inner()).ready_script = rdy.script.chars().collect();
    }
    let mut res = Poll::Pending;
    for _ in 0..(if scripted { rdy.script.len() } else { 1 }) {
        res = poll_ready_once(svc);
        if res.is_ready() {
            break;
        }
    }
    if scripted {
        rdy.inner.as_ref().unwrap().lock().unwrap_or_else(|e| e.into_inner()).ready_script.clear();
    }
    match res {
        Poll::Ready(Ok(())) => Rd::Ready,
        Poll::Ready(Err(e)) => {
            log(format!("result {} {}", c, render(Err(e))));
            Rd::Failed
        }
        Poll::Pending => {
            log(format!("result {} notready", c));
            Rd::NotReady
        }
    }
}

/// the same through a handle the caller goes on owning (`ready`: it has not been polled ready yet — do it, with these
/// scripted answers)
fn request_on(svc: &mut Svc, ix: usize, c: usize, req: Req, ready: Option<&Rdy>) -> Option<(SvcFut, bool)> {
    if let Some(rdy) = ready {
        if !readied(svc, c, rdy) {
            return None;
        }
    }
    if ix == 0 {
        log_raw(format!("#arrive {} {}", c, req.key));
    } else {
        log_raw(format!("#arrive {} {}@{}", c, req.key, ix));
    }
    let before = log_len();
    let fut = match std::panic::catch_unwind(std::panic::AssertUnwindSafe(|| svc.call(req))) {
        Ok(f) => f,
        Err(_) => {
            // `Service::call` unwound: the caller never gets a future
            log(format!("result {} panic", c));
            return None;
        }
    };
    let led = log_len() != before; // the inner service logged `inner_call`
    Some((fut, led))
}

type LayerT = CoalesceLayer<CKey, Req, KeyFn>;

pub struct Adapter {
    shared: Arc<Mutex<Shared>>,
    /// the ONE layer value every service is built from (`None`: `ctor=service`, or dropped by `manual dropsvc`)
    layer: Option<LayerT>,
    /// clones of the layer taken when the odd-numbered services were built
    layer_clones: Vec<LayerT>,
    /// the wrapped service; every coalescing service gets a clone of it
    backend: Option<Inner>,
}

/// the layer, through the construction path the case header names (see the top of the file)
fn make_layer(ctor: &str) -> Option<LayerT> {
    match ctor {
        "new" => Some(CoalesceLayer::new(key_of as KeyFn)),
        "config" => {
            let cfg: CoalesceConfig<CKey, KeyFn> = CoalesceConfig::builder(key_of as KeyFn).name("verif").build();
            Some(CoalesceLayer::with_config(cfg.clone()))
        }
        "confignew" => Some(CoalesceLayer::with_config(CoalesceConfig::new(key_of as KeyFn))),
        "service" => None,
        _ => Some(CoalesceLayer::builder(key_of as KeyFn).name("verif").build()),
    }
}

impl Adapter {
    pub fn new(kv: &Kv) -> Adapter {
        KEY_HASH_MOD.store(kv.u64("khash", 0), Ordering::SeqCst);
        let shared = Arc::new(Mutex::new(Shared { svcs: BTreeMap::new(), gone: false, hooks: BTreeMap::new(), parked: BTreeMap::new(), known: BTreeSet::new() }));
        let mut a = Adapter { shared, layer: make_layer(kv.str("ctor", "builder").as_str()), layer_clones: Vec::new(), backend: Some(Inner::new()) };
        a.build(0);
        a
    }
    fn sh(&self) -> std::sync::MutexGuard<'_, Shared> {
        self.shared.lock().unwrap_or_else(|e| e.into_inner())
    }
    /// Build service `ix` unless it exists: from the layer value itself (even `ix`), from a clone of the layer taken
    /// now (odd `ix`), or — no layer — directly. Every `Layer::layer` call must yield a service with a table of its own.
    fn build(&mut self, ix: usize) -> bool {
        if self.sh().gone {
            return false;
        }
        if self.sh().svcs.contains_key(&ix) {
            return true;
        }
        let Some(backend) = self.backend.as_ref() else { return false };
        let wrapped = CallPanic { inner: backend.clone(), shared: self.shared.clone(), ix };
        let svc: Svc = match self.layer.as_ref() {
            None => CoalesceService::new(wrapped, Arc::new(CoalesceConfig::new(key_of as KeyFn))),
            Some(layer) if ix % 2 == 1 => {
                let l2 = layer.clone();
                let svc = l2.layer(wrapped);
                self.layer_clones.push(l2);
                svc
            }
            Some(layer) => layer.layer(wrapped),
        };
        self.sh().svcs.insert(ix, svc);
        true
    }
    /// `via=` says how the caller obtains the handle it calls — all legitimate Tower usage, all must coalesce alike
    /// (the model has no notion of it):
    /// `clone` (default): clone the owner's handle, ready the clone, call it, drop it (`svc.clone().oneshot(req)`);
    /// `template`: ready and call the owner's handle ITSELF — the one `CoalesceService` value the adapter owns; in
    ///   this mode the adapter makes no clone at all, so as long as every request of the case comes this way the
    ///   handle is the sole owner of whatever the service shares between its clones (apart from what the call
    ///   futures themselves hold) — a `&mut svc` used for several overlapping requests;
    /// `swap`: the `mem::replace` idiom: ready the owner's handle, leave a fresh clone in its place, call the
    ///   readied one and drop it;
    /// `readyclone`: ready the owner's handle, clone it, ready the clone, call the clone (the owner's handle stays
    ///   ready-but-uncalled), drop the clone.
    /// The handle is taken out of `Shared` for the duration (nothing else runs meanwhile) and put back.
    /// `rdy` scripts the readiness of the handle that is going to be called (see the top of the file); a handle of the
    /// owner's whose readiness FAILED is discarded and replaced by a spare clone taken before the poll.
    fn request_via(&mut self, ix: usize, via: &str, c: usize, req: Req, rdy: &Rdy) -> Option<(SvcFut, bool)> {
        let mut own = self.sh().svcs.remove(&ix)?;
        let plain = Rdy::default();
        // only when the owner's own handle is polled with a script that contains an error
        let spare = if matches!(via, "template" | "swap") && rdy.script.contains('e') { Some(own.clone()) } else { None };
        let (got, back) = match via {
            "template" => match readied_how(&mut own, c, rdy) {
                Rd::Ready => (request_on(&mut own, ix, c, req, None), own),
                Rd::Failed => (None, spare.unwrap_or(own)),
                Rd::NotReady => (None, own),
            },
            "swap" => match readied_how(&mut own, c, rdy) {
                Rd::Ready => {
                    let fresh = own.clone();
                    let got = request_on(&mut own, ix, c, req, None);
                    drop(own);
                    (got, fresh)
                }
                Rd::Failed => (None, spare.unwrap_or(own)),
                Rd::NotReady => (None, own),
            },
            "readyclone" => {
                if !readied(&mut own, c, &plain) {
                    (None, own)
                } else {
                    let svc = own.clone();
                    (request(svc, ix, c, req, rdy), own)
                }
            }
            _ => {
                let svc = own.clone();
                (request(svc, ix, c, req, rdy), own)
            }
        };
        self.sh().svcs.insert(ix, back);
        got
    }
}
impl Drop for Adapter {
    fn drop(&mut self) {
        // `Shared` holds the service, whose inner service holds `Shared`: break the cycle, outside the lock
        let (svcs, parked) = {
            let mut sh = self.sh();
            sh.hooks.clear();
            (std::mem::take(&mut sh.svcs), std::mem::take(&mut sh.parked))
        };
        drop(parked);
        drop(svcs);
    }
}

/// `arrive … eclone=1`: the caller looks at a clone of what it received, not at the value itself
pub fn render_cloned(r: Result<CResp, CoalesceError<CErr>>) -> String {
    let copy = match &r {
        Ok(x) => Ok(x.clone()),
        Err(e) => Err(e.clone()),
    };
    drop(r);
    render(copy)
}

pub fn render(r: Result<CResp, CoalesceError<CErr>>) -> String {
    match r {
        Ok(x) => format!("ok:{}", x.r.v),
        Err(CoalesceError::Service(e)) => format!("err:inner{}:{}", e.e.kind, e.e.v),
        Err(CoalesceError::LeaderCancelled) => "err:leader_cancelled".into(),
        Err(CoalesceError::RecvError) => "err:recv_error".into(),
    }
}

/// logs `#poll c` at every poll (monitors only)
struct Traced<F> {
    c: usize,
    on: bool,
    fut: Pin<Box<F>>,
}
impl<F: Future> Future for Traced<F> {
    type Output = F::Output;
    fn poll(mut self: Pin<&mut Self>, cx: &mut Context<'_>) -> Poll<F::Output> {
        if self.on {
            log_raw(format!("#poll {}", self.c));
        }
        self.fut.as_mut().poll(cx)
    }
}

impl Mw for Adapter {
    fn arrive(&mut self, c: usize, kv: &Kv) -> Option<CallFut> {
        let (parked, owner) = {
            let mut sh = self.sh();
            sh.known.insert(c);
            (sh.parked.remove(&c), !sh.gone)
        };
        let got = if let Some(x) = parked {
            // the request was made inside a destructor (`manual ondrop`); this op only hands the future to the poller
            Some(x)
        } else {
            if !owner {
                // no handle left to call through: invalid operation
                log("noop".into());
                return None;
            }
            let mut req = Req::new(c, kv);
            if kv.u64("clonepanic", 0) == 1 {
                req.tag = CLONE_PANIC;
            }
            if kv.u64("callpanic", 0) == 1 {
                req.tag = CALL_PANIC;
            }
            let ix = kv.u64("svc", 0) as usize;
            if !self.build(ix) {
                log("noop".into());
                return None;
            }
            let rdy = Rdy { script: kv.str("rdy", ""), inner: self.backend.as_ref().map(|b| b.shared.clone()) };
            self.request_via(ix, kv.str("via", "clone").as_str(), c, req, &rdy)
        };
        let (fut, led) = got?;
        let fut = Traced { c, on: !led, fut: Box::pin(fut) };
        Some(held(fut, if kv.u64("eclone", 0) == 1 { render_cloned } else { render }))
    }
    fn manual(&mut self, what: &str, kv: &Kv) {
        if what == "dropsvc" {
            let svcs = {
                let mut sh = self.sh();
                if !sh.gone {
                    log_raw("#dropsvc".into());
                }
                sh.gone = true;
                std::mem::take(&mut sh.svcs)
            };
            drop(svcs);
            drop(self.layer.take());
            self.layer_clones.clear();
            drop(self.backend.take());
        } else if what == "ondrop" {
            if let (Some(c), Some(c2)) = (kv.opt_u64("c"), kv.opt_u64("by")) {
                let args = Kv(kv.0.iter().filter(|(k, _)| k == "inner").cloned().collect());
                self.sh().hooks.insert(c as usize, (c2 as usize, args, kv.u64("thread", 0) == 1));
            }
        } else if what == "herd" {
            herd(kv);
        } else if what == "finish" {
            finish(kv);
        }
    }
}

// ------------------------------------------------------------------ simultaneous arrivals on real OS threads

/// the real monotonic clock (the libc symbol `clock_gettime` is interposed and shows virtual time)
fn real_ns() -> u64 {
    let mut ts = libc::timespec { tv_sec: 0, tv_nsec: 0 };
    unsafe {
        libc::syscall(libc::SYS_clock_gettime, libc::CLOCK_MONOTONIC, &mut ts as *mut libc::timespec);
    }
    ts.tv_sec as u64 * 1_000_000_000 + ts.tv_nsec as u64
}

thread_local! {
    /// set by a herd thread just before `Service::call`, cleared by the first gate it passes (one-shot)
    static ARMED: Cell<bool> = const { Cell::new(false) };
}

#[derive(Clone, Copy, PartialEq, Eq, Debug)]
enum GateAt {
    None,
    Clone,
    Hash,
}

/// A TIMED rendezvous inside the key type's `Clone` / `Hash`: the first time an armed thread gets there during
/// `call()` it waits until all threads of the round have got there too — or until `timeout_ns` of real time have
/// passed, after which the gate is open for the rest of the round (so an implementation that performs the
/// lookup under an exclusive lock, where the others cannot get there, merely loses `timeout_ns` per round).
struct Gate {
    at: GateAt,
    parties: usize,
    timeout_ns: u64,
    arrived: AtomicUsize,
    broken: AtomicBool,
    /// rounds in which all parties met / in which somebody gave up waiting
    met: AtomicU64,
    timeouts: AtomicU64,
}
impl Gate {
    fn pass(&self, at: GateAt) {
        if at != self.at || !ARMED.with(|a| a.replace(false)) {
            return;
        }
        if self.arrived.fetch_add(1, Ordering::SeqCst) + 1 >= self.parties {
            if !self.broken.load(Ordering::Acquire) {
                self.met.fetch_add(1, Ordering::Relaxed);
            }
            return;
        }
        let t0 = real_ns();
        let mut spins = 0u32;
        loop {
            if self.arrived.load(Ordering::Acquire) >= self.parties || self.broken.load(Ordering::Acquire) {
                return;
            }
            spins += 1;
            if spins % 64 == 0 {
                if real_ns().saturating_sub(t0) > self.timeout_ns {
                    if !self.broken.swap(true, Ordering::SeqCst) {
                        self.timeouts.fetch_add(1, Ordering::Relaxed);
                    }
                    return;
                }
                std::thread::yield_now();
            } else {
                std::hint::spin_loop();
            }
        }
    }
    fn reset(&self) {
        self.arrived.store(0, Ordering::SeqCst);
        self.broken.store(false, Ordering::SeqCst);
    }
}

/// key of the herd instance: a number; its `Clone` (called by `CoalesceService::call` before the look-up) and its
/// `Hash` (called by the map during the look-up, provided the map is not empty) pass through the gate
struct GKey {
    k: u64,
    /// `hmod=<m>`: `Hash` feeds only `k mod m` to the hasher (0: all of `k`); `Eq` compares `k`
    hm: u64,
    gate: Arc<Gate>,
}
impl Clone for GKey {
    fn clone(&self) -> GKey {
        self.gate.pass(GateAt::Clone);
        GKey { k: self.k, hm: self.hm, gate: self.gate.clone() }
    }
}
impl Hash for GKey {
    fn hash<H: Hasher>(&self, h: &mut H) {
        self.gate.pass(GateAt::Hash);
        (if self.hm == 0 { self.k } else { self.k % self.hm }).hash(h)
    }
}
impl PartialEq for GKey {
    fn eq(&self, o: &GKey) -> bool {
        self.k == o.k
    }
}
impl Eq for GKey {}

struct HReq {
    key: u64,
    tid: usize,
    round: u64,
    fail: bool,
}
#[derive(Clone)]
struct HResp(u64);
#[derive(Clone)]
struct HErr(u64);

#[derive(Default)]
struct HerdShared {
    serial: AtomicU64,
    /// inner calls of rounds <= `release` may finish
    release: AtomicU64,
    /// unfinished inner calls: key -> (serial, thread)
    fly: Mutex<BTreeMap<u64, Vec<(u64, usize)>>>,
    /// inner calls started in the current round: (key, serial, thread)
    started: Mutex<Vec<(u64, u64, usize)>>,
}
impl HerdShared {
    fn ended(&self, key: u64, serial: u64) {
        if let Some(v) = self.fly.lock().unwrap_or_else(|e| e.into_inner()).get_mut(&key) {
            v.retain(|(s, _)| *s != serial);
        }
    }
}
/// inner service of the herd instance: every call is recorded and stays pending until its round is released
#[derive(Clone)]
struct HerdInner(Arc<HerdShared>);
struct HerdFut {
    sh: Arc<HerdShared>,
    key: u64,
    serial: u64,
    round: u64,
    fail: bool,
    done: bool,
}
impl Service<HReq> for HerdInner {
    type Response = HResp;
    type Error = HErr;
    type Future = HerdFut;
    fn poll_ready(&mut self, _cx: &mut Context<'_>) -> Poll<Result<(), HErr>> {
        Poll::Ready(Ok(()))
    }
    fn call(&mut self, r: HReq) -> HerdFut {
        let serial = self.0.serial.fetch_add(1, Ordering::SeqCst);
        self.0.fly.lock().unwrap_or_else(|e| e.into_inner()).entry(r.key).or_default().push((serial, r.tid));
        self.0.started.lock().unwrap_or_else(|e| e.into_inner()).push((r.key, serial, r.tid));
        HerdFut { sh: self.0.clone(), key: r.key, serial, round: r.round, fail: r.fail, done: false }
    }
}
impl Future for HerdFut {
    type Output = Result<HResp, HErr>;
    fn poll(mut self: Pin<&mut Self>, _cx: &mut Context<'_>) -> Poll<Self::Output> {
        if self.sh.release.load(Ordering::Acquire) < self.round {
            return Poll::Pending; // polled by hand
        }
        self.done = true;
        self.sh.ended(self.key, self.serial);
        Poll::Ready(if self.fail { Err(HErr(self.serial)) } else { Ok(HResp(self.serial)) })
    }
}
impl Drop for HerdFut {
    fn drop(&mut self) {
        if !self.done {
            self.sh.ended(self.key, self.serial);
        }
    }
}

/// what a herd thread received
#[derive(Clone, Debug, PartialEq)]
enum Got {
    Ok(u64),
    Err(u64),
    Cancelled,
    Recv,
    NotReady,
    Stuck,
}
impl std::fmt::Display for Got {
    fn fmt(&self, f: &mut std::fmt::Formatter<'_>) -> std::fmt::Result {
        match self {
            Got::Ok(s) => write!(f, "ok:{}", s),
            Got::Err(s) => write!(f, "err:inner:{}", s),
            Got::Cancelled => write!(f, "err:leader_cancelled"),
            Got::Recv => write!(f, "err:recv_error"),
            Got::NotReady => write!(f, "notready"),
            Got::Stuck => write!(f, "<still pending long after the inner calls of the round were released (20 s; 0.3 s in a round in which some key had no inner call)>"),
        }
    }
}

struct Lanes {
    /// the round the threads may start (0: none yet); `u64::MAX`: stop
    round: AtomicU64,
    returned: AtomicUsize,
    finished: AtomicUsize,
    got: Mutex<Vec<Option<Got>>>,
    /// how long (real ns) a thread goes on polling its future after the release of the round: `HERD_DEADLINE_NS`, or a
    /// short time when the coordinator has seen that some key of the round has NO inner call (already a violation;
    /// requests that joined a call of another key — e.g. the never-finishing ballast — would wait the whole bound)
    patience: AtomicU64,
}

/// wait for `cond`: spin briefly (the normal case: the other threads are running, the wait is shorter than a
/// microsecond), then give the processor away between looks (oversubscribed machine); `false` at the deadline
fn spin_until(mut cond: impl FnMut() -> bool, deadline_ns: u64) -> bool {
    let mut spins = 0u32;
    let mut t0 = 0u64;
    loop {
        if cond() {
            return true;
        }
        spins = spins.wrapping_add(1);
        if spins < 2000 {
            std::hint::spin_loop();
            continue;
        }
        if spins % 256 == 0 {
            let now = real_ns();
            if t0 == 0 {
                t0 = now;
            } else if now - t0 > deadline_ns {
                return false;
            }
        }
        std::thread::yield_now();
    }
}

/// One herd run at a time on this machine: the check runs a dozen harness processes side by side, and a race
/// between N spinning threads is only a race if they have N processors (oversubscribed, every rendezvous costs a
/// scheduler quantum: measured 20x slower, and the arrivals are no longer simultaneous). Advisory `flock` on a
/// file in the temp directory, released when the descriptor is closed (also if the process dies); if the file
/// cannot be opened the run goes ahead without it.
struct HerdLock(libc::c_int);
impl HerdLock {
    fn acquire() -> HerdLock {
        let path = std::env::temp_dir().join("trh-herd.lock");
        let Ok(c) = std::ffi::CString::new(path.to_string_lossy().as_bytes()) else { return HerdLock(-1) };
        let fd = unsafe { libc::open(c.as_ptr(), libc::O_CREAT | libc::O_RDWR | libc::O_CLOEXEC, 0o666) };
        if fd >= 0 {
            // waiting for the other processes' runs is progress as far as the watchdog is concerned
            let nap = libc::timespec { tv_sec: 0, tv_nsec: 2_000_000 };
            while unsafe { libc::flock(fd, libc::LOCK_EX | libc::LOCK_NB) } != 0 {
                beat();
                unsafe { libc::nanosleep(&nap, std::ptr::null_mut()) };
            }
            beat();
        }
        HerdLock(fd)
    }
}
impl Drop for HerdLock {
    fn drop(&mut self) {
        if self.0 >= 0 {
            unsafe { libc::close(self.0) };
        }
    }
}

const HERD_DEADLINE_NS: u64 = 20_000_000_000;
/// … when some key of the round has no inner call at all (see `Lanes::patience`)
const HERD_ORPHAN_NS: u64 = 300_000_000;
const BALLAST_KEY: u64 = u64::MAX;

fn herd_thread<Sv>(svc: Sv, tid: usize, keys: usize, out: u8, lanes: Arc<Lanes>, sh: Arc<HerdShared>)
where
    Sv: Service<HReq, Response = HResp, Error = CoalesceError<HErr>> + Clone,
{
    let mut cx = Context::from_waker(Waker::noop());
    let mut seen = 0u64;
    loop {
        // the start line
        let mut r = 0;
        spin_until(
            || {
                r = lanes.round.load(Ordering::Acquire);
                r != seen
            },
            u64::MAX,
        );
        if r == u64::MAX {
            return;
        }
        seen = r;
        let key = 1 + (tid % keys) as u64;
        let fail = out == 1 || (out == 2 && r % 2 == 1);
        // the way `svc.clone().oneshot(req)` does it: a handle of its own, readied, called
        let mut s = svc.clone();
        let ready = matches!(s.poll_ready(&mut cx), Poll::Ready(Ok(())));
        let mut fut = if ready {
            ARMED.with(|a| a.set(true));
            let f = s.call(HReq { key, tid, round: r, fail });
            ARMED.with(|a| a.set(false));
            Some(Box::pin(f))
        } else {
            None
        };
        lanes.returned.fetch_add(1, Ordering::SeqCst);
        // every thread of the round is back from `call()`: the coordinator looks, then lets the inner calls finish
        spin_until(|| sh.release.load(Ordering::Acquire) >= r, u64::MAX);
        let got = match fut.as_mut() {
            None => Got::NotReady,
            Some(f) => {
                let mut res = None;
                let ok = spin_until(
                    || match f.as_mut().poll(&mut cx) {
                        Poll::Ready(x) => {
                            res = Some(x);
                            true
                        }
                        Poll::Pending => false,
                    },
                    lanes.patience.load(Ordering::SeqCst),
                );
                match (ok, res) {
                    (true, Some(Ok(x))) => Got::Ok(x.0),
                    (true, Some(Err(CoalesceError::Service(e)))) => Got::Err(e.0),
                    (true, Some(Err(CoalesceError::LeaderCancelled))) => Got::Cancelled,
                    (true, Some(Err(CoalesceError::RecvError))) => Got::Recv,
                    _ => Got::Stuck,
                }
            }
        };
        drop(fut);
        drop(s);
        lanes.got.lock().unwrap_or_else(|e| e.into_inner())[tid] = Some(got);
        lanes.finished.fetch_add(1, Ordering::SeqCst);
    }
}

/// `manual herd threads=<N> rounds=<R> [keys=<M>] [gate=none|clone|hash] [ballast=0|1] [out=ok|err|mix] [gate_us=<T>]`
///
/// A bounded SEARCH on real OS threads for executions in which the election of a key's leader is not atomic. A
/// fresh `CoalesceLayer` (public builder) over an inner service whose calls stay pending until released; N
/// threads, each with a clone of the service; per round all of them are released together from a start line
/// (they spin on the round counter) and do `svc.clone()`, `poll_ready`, `call(req)` — thread t for key 1 + t mod M.
/// Only when ALL of them have returned from `call()` are the inner calls allowed to finish; then every thread
/// polls its own future to completion. So in every round all N requests of a key arrive while the first one's
/// inner call is in flight, and the clauses of the property say exactly what must be seen (the oracles):
///   1. per key, exactly ONE inner call was started and is unfinished when all threads are back from `call()`
///      ("at most one call to the wrapped service in flight per key"; 0 would mean the request was not forwarded);
///   2. every request of that key receives that call's result — the same serial number, `Ok` or the inner error —
///      never `leader_cancelled`, never another call's result, never nothing.
/// The keys are reused in the next round, so a key left registered shows as a round with 0 inner calls.
///
/// `gate=` widens the race window from inside `call()`, through the key type (which, like the key extractor, is
/// the user's): `clone`: the threads meet in `K::clone`, i.e. immediately before the look-up (no lock can be
/// held there); `hash`: they meet in `K::hash`, i.e. INSIDE the look-up (the map is kept non-empty by a
/// permanently in-flight request for another key, `ballast=1`, because hashbrown does not hash on an empty map).
/// Where the look-up and the registration are one critical section under an exclusive lock only one thread can
/// be there at a time: the first one waits `gate_us` (real time), gives up, and the round proceeds as an
/// ordinary race — the rendezvous is timed, it cannot deadlock. Where the look-up admits several threads at
/// once (a read lock, a lock-free read) they all meet inside it and have all seen "vacant" when they go on:
/// a deterministic schedule. `gate=none`: plain race from the start line.
///
/// Compared line: `herd rounds=<performed> calls=<N*R> inner=<inner calls> shared=<requests that received the
/// result of the (first) call of their key and round> anomalies=<violating rounds>`; meta `#herd …` (always) and
/// `#herd-fail …` (first violating round in full: a concrete replay). A clean run proves nothing.
fn herd(kv: &Kv) {
    let threads = kv.u64("threads", 4).clamp(2, 32) as usize;
    let rounds = kv.u64("rounds", 100).clamp(1, 5_000_000);
    let keys = (kv.u64("keys", 1).max(1) as usize).min(threads);
    let at = match kv.str("gate", "none").as_str() {
        "clone" => GateAt::Clone,
        "hash" => GateAt::Hash,
        _ => GateAt::None,
    };
    let ballast = kv.u64("ballast", 1) == 1;
    let out = match kv.str("out", "ok").as_str() {
        "err" => 1u8,
        "mix" => 2,
        _ => 0,
    };
    let gate = Arc::new(Gate {
        at,
        parties: threads,
        timeout_ns: kv.u64("gate_us", 3000).clamp(10, 1_000_000) * 1000,
        arrived: AtomicUsize::new(0),
        broken: AtomicBool::new(false),
        met: AtomicU64::new(0),
        timeouts: AtomicU64::new(0),
    });
    let sh = Arc::new(HerdShared::default());
    let lanes = Arc::new(Lanes {
        round: AtomicU64::new(0),
        returned: AtomicUsize::new(0),
        finished: AtomicUsize::new(0),
        got: Mutex::new(vec![None; threads]),
        patience: AtomicU64::new(HERD_DEADLINE_NS),
    });
    let g = gate.clone();
    let hm = kv.u64("hmod", 0);
    let layer = CoalesceLayer::builder(move |r: &HReq| GKey { k: r.key, hm, gate: g.clone() }).name("herd").build();
    let svc = layer.layer(HerdInner(sh.clone()));
    let cfg = format!(
        "threads={} rounds={} keys={} gate={} ballast={} out={}{}",
        threads,
        rounds,
        keys,
        kv.str("gate", "none"),
        ballast as u8,
        kv.str("out", "ok"),
        if hm == 0 { String::new() } else { format!(" hmod={}", hm) }
    );
    let _exclusive = HerdLock::acquire();
    let t0 = real_ns();
    // another key permanently in flight: the map is never empty
    let mut cx = Context::from_waker(Waker::noop());
    let ballast_fut = if ballast {
        let mut s = svc.clone();
        let _ = s.poll_ready(&mut cx);
        Some(Box::pin(s.call(HReq { key: BALLAST_KEY, tid: usize::MAX, round: u64::MAX - 1, fail: false })))
    } else {
        None
    };
    sh.started.lock().unwrap().clear();
    let first_serial = sh.serial.load(Ordering::SeqCst);
    let mut handles = Vec::new();
    let mut spawn_failed = false;
    for tid in 0..threads {
        let (s, l, h) = (svc.clone(), lanes.clone(), sh.clone());
        match std::thread::Builder::new().name(format!("herd-{}", tid)).spawn(move || herd_thread(s, tid, keys, out, l, h)) {
            Ok(h) => handles.push(h),
            Err(_) => spawn_failed = true,
        }
    }
    let stop = |handles: Vec<std::thread::JoinHandle<()>>, join: bool| {
        lanes.round.store(u64::MAX, Ordering::SeqCst);
        sh.release.store(u64::MAX, Ordering::SeqCst);
        if join {
            for h in handles {
                let _ = h.join();
            }
        }
    };
    if spawn_failed {
        stop(handles, true);
        log_raw("#harness-panic herd: could not create the threads".into());
        return;
    }
    let (mut performed, mut inner, mut shared, mut bad_rounds) = (0u64, 0u64, 0u64, 0u64);
    let mut first_fail: Option<String> = None;
    let mut max_leaders = 0usize;
    for r in 1..=rounds {
        beat();
        gate.reset();
        lanes.returned.store(0, Ordering::SeqCst);
        lanes.finished.store(0, Ordering::SeqCst);
        sh.started.lock().unwrap_or_else(|e| e.into_inner()).clear();
        lanes.round.store(r, Ordering::Release);
        if !spin_until(|| lanes.returned.load(Ordering::Acquire) >= threads, HERD_DEADLINE_NS) {
            let back = lanes.returned.load(Ordering::SeqCst);
            stop(handles, false); // the stuck threads are abandoned
            log_raw(format!("#herd {} performed={} aborted=1", cfg, performed));
            log_raw(format!(
                "#herd-fail {} :: round {}: only {} of {} threads returned from Service::call within 20 s (the others are stuck inside it) :: replay: manual herd {}",
                cfg, r, back, threads, cfg.replace(&format!("rounds={}", rounds), &format!("rounds={}", r))
            ));
            log(format!("herd rounds={} calls={} inner={} shared={} anomalies={}", performed, performed * threads as u64, inner, shared, bad_rounds + 1));
            return;
        }
        // all threads are back from `call()`, no inner call may have finished: look
        let started: Vec<(u64, u64, usize)> = sh.started.lock().unwrap_or_else(|e| e.into_inner()).clone();
        let flying: BTreeMap<u64, Vec<(u64, usize)>> = sh.fly.lock().unwrap_or_else(|e| e.into_inner()).clone();
        let orphan = (1..=keys as u64).any(|k| !started.iter().any(|x| x.0 == k));
        lanes.patience.store(if orphan { HERD_ORPHAN_NS } else { HERD_DEADLINE_NS }, Ordering::SeqCst);
        sh.release.store(r, Ordering::Release);
        spin_until(|| lanes.finished.load(Ordering::Acquire) >= threads, u64::MAX);
        let got: Vec<Option<Got>> = {
            let mut g = lanes.got.lock().unwrap_or_else(|e| e.into_inner());
            let v = g.clone();
            g.iter_mut().for_each(|x| *x = None);
            v
        };
        performed += 1;
        inner += started.len() as u64;
        let fail = out == 1 || (out == 2 && r % 2 == 1);
        let mut why: Vec<String> = Vec::new();
        for key in 1..=keys as u64 {
            let askers: Vec<usize> = (0..threads).filter(|t| 1 + (t % keys) as u64 == key).collect();
            let calls: Vec<(u64, usize)> = started.iter().filter(|x| x.0 == key).map(|x| (x.1, x.2)).collect();
            let unfinished = flying.get(&key).map(|v| v.len()).unwrap_or(0);
            max_leaders = max_leaders.max(unfinished);
            if calls.len() != 1 || unfinished != 1 {
                why.push(format!(
                    "{} requests for key {} (threads {:?}) were inside Service::call at the same time and {} inner call(s) were started for it ({}), {} of them in flight together when all threads had returned — the property allows exactly one",
                    askers.len(),
                    key,
                    askers,
                    calls.len(),
                    calls.iter().map(|(s, t)| format!("call {} by thread {}", s, t)).collect::<Vec<_>>().join(", "),
                    unfinished
                ));
            }
            let want = calls.iter().map(|x| x.0).min().map(|s| if fail { Got::Err(s) } else { Got::Ok(s) });
            let mut wrong: Vec<String> = Vec::new();
            for t in &askers {
                let g = got[*t].clone().unwrap_or(Got::Stuck);
                if Some(&g) == want.as_ref() {
                    shared += 1;
                } else {
                    wrong.push(format!("thread {} received {}", t, g));
                }
            }
            if !wrong.is_empty() {
                why.push(format!(
                    "key {}: every request must receive {} (the result of the call in flight for its key), but {}",
                    key,
                    want.map(|w| w.to_string()).unwrap_or_else(|| "the result of one inner call".into()),
                    wrong.join(", ")
                ));
            }
        }
        if !why.is_empty() {
            bad_rounds += 1;
            if first_fail.is_none() {
                first_fail = Some(format!(
                    "round {}: {} :: replay: manual herd {}",
                    r,
                    why.join(" | "),
                    cfg.replace(&format!("rounds={}", rounds), &format!("rounds={}", r))
                ));
            }
            // requests that never resolve cost real time in every round (`Lanes::patience`): a few such rounds are
            // enough, the run ends here (`performed` says how many rounds were made)
            if bad_rounds >= 3 && got.iter().any(|g| matches!(g, Some(Got::Stuck) | None)) {
                break;
            }
        }
    }
    stop(handles, true);
    drop(ballast_fut);
    drop(svc);
    drop(layer);
    let _ = first_serial;
    let wall = (real_ns() - t0) / 1000;
    log_raw(format!(
        "#herd {} performed={} wall_us={} met={} gate_timeouts={} max_in_flight_per_key={} bad_rounds={}",
        cfg,
        performed,
        wall,
        gate.met.load(Ordering::SeqCst),
        gate.timeouts.load(Ordering::SeqCst),
        max_leaders,
        bad_rounds
    ));
    if let Some(f) = first_fail {
        log_raw(format!(
            "#herd-fail {} :: {} :: totals: {} of {} rounds violated, {} inner calls for {} (key, round) pairs, {} of {} requests received the result of their key's call",
            cfg,
            f,
            bad_rounds,
            performed,
            inner,
            performed * keys as u64,
            shared,
            performed * threads as u64
        ));
    }
    log(format!("herd rounds={} calls={} inner={} shared={} anomalies={}", performed, performed * threads as u64, inner, shared, bad_rounds));
}

// ------------------------------------------------------------------ arrivals racing with a completion on real OS threads

thread_local! {
    /// set by a `finish` thread around the poll of a future that LEADS (one-shot: cleared by the first value dropped)
    static FIN_ARMED: Cell<bool> = const { Cell::new(false) };
    /// serial of the inner call started by the `Service::call` this thread is in (or has just left)
    static FIN_LED: Cell<Option<u64>> = const { Cell::new(None) };
}

/// A TIMED rendezvous inside the destructor of the response / error value (types of the wrapped service, i.e. the
/// user's): the first such value destroyed on the completing thread DURING the poll that completes a leader — the
/// copy made for the waiters, when nobody has subscribed — pauses until the other threads of the round have each
/// made a request (returned from `Service::call`) or `timeout_ns` of real time have passed. Code that publishes and
/// unregisters in one critical section keeps those threads out until the pause is over (cost: one time-out per
/// round, no deadlock); code in which the key is still registered, or already free, at that point lets them in.
struct FinHook {
    gate: bool,
    parties: usize,
    timeout_ns: u64,
    round: AtomicU64,
    /// the round in which a completing thread is (or was) paused inside the destructor
    in_drop: AtomicU64,
    /// requests made since (threads that have returned from `call()`)
    joined: AtomicUsize,
    met: AtomicU64,
    timeouts: AtomicU64,
}
struct Val {
    serial: u64,
    hook: Arc<FinHook>,
}
impl Clone for Val {
    fn clone(&self) -> Val {
        Val { serial: self.serial, hook: self.hook.clone() }
    }
}
impl Drop for Val {
    fn drop(&mut self) {
        let h = &self.hook;
        if !h.gate || !FIN_ARMED.with(|a| a.replace(false)) {
            return;
        }
        h.in_drop.store(h.round.load(Ordering::SeqCst), Ordering::SeqCst);
        let t0 = real_ns();
        let mut spins = 0u32;
        loop {
            if h.joined.load(Ordering::Acquire) >= h.parties {
                h.met.fetch_add(1, Ordering::Relaxed);
                return;
            }
            spins += 1;
            if spins % 64 == 0 {
                if real_ns().saturating_sub(t0) > h.timeout_ns {
                    h.timeouts.fetch_add(1, Ordering::Relaxed);
                    return;
                }
                std::thread::yield_now();
            } else {
                std::hint::spin_loop();
            }
        }
    }
}
#[derive(Clone)]
struct FResp(Val);
#[derive(Clone)]
struct FErr(Val);
struct FReq {
    key: u64,
    tid: usize,
}

struct CallRec {
    key: u64,
    tid: usize,
    fail: bool,
    /// logical instants: the request that led it entered `Service::call` (the key is registered somewhere in
    /// there, BEFORE `inner.call()`: from then on others can join); the poll of the leader's call future that
    /// completed it returned
    enter: Option<u64>,
    end: Option<u64>,
}
struct ReqRec {
    tid: usize,
    key: u64,
    /// logical instants just before / just after `Service::call`
    enter: u64,
    exit: u64,
    led: Option<u64>,
    got: Got,
}
struct FinShared {
    seq: AtomicU64,
    serial: AtomicU64,
    out: u8,
    /// unfinished inner calls per key (index key-1)
    fly: Vec<AtomicUsize>,
    calls: Mutex<BTreeMap<u64, CallRec>>,
    reqs: Mutex<Vec<ReqRec>>,
    overlaps: Mutex<Vec<String>>,
}
#[derive(Clone)]
struct FinInner(Arc<FinShared>, Arc<FinHook>);
struct FinFut {
    sh: Arc<FinShared>,
    hook: Arc<FinHook>,
    key: u64,
    serial: u64,
    fail: bool,
    pend: u64,
    done: bool,
}
impl Service<FReq> for FinInner {
    type Response = FResp;
    type Error = FErr;
    type Future = FinFut;
    fn poll_ready(&mut self, _cx: &mut Context<'_>) -> Poll<Result<(), FErr>> {
        Poll::Ready(Ok(()))
    }
    fn call(&mut self, r: FReq) -> FinFut {
        let sh = &self.0;
        let serial = sh.serial.fetch_add(1, Ordering::SeqCst);
        let fail = sh.out == 1 || (sh.out == 2 && serial % 2 == 1);
        let before = sh.fly[(r.key - 1) as usize].fetch_add(1, Ordering::SeqCst);
        if before > 0 {
            sh.overlaps.lock().unwrap_or_else(|e| e.into_inner()).push(format!(
                "inner call {} for key {} was started by thread {} while {} earlier inner call(s) for that key had neither finished nor been dropped",
                serial, r.key, r.tid, before
            ));
        }
        sh.calls.lock().unwrap_or_else(|e| e.into_inner()).insert(serial, CallRec { key: r.key, tid: r.tid, fail, enter: None, end: None });
        FIN_LED.with(|l| l.set(Some(serial)));
        // with the rendezvous the call completes at the leader's first poll; in the plain race it takes 0..2 polls
        let pend = if self.1.gate { 0 } else { serial % 3 };
        FinFut { sh: sh.clone(), hook: self.1.clone(), key: r.key, serial, fail, pend, done: false }
    }
}
impl Future for FinFut {
    type Output = Result<FResp, FErr>;
    fn poll(mut self: Pin<&mut Self>, _cx: &mut Context<'_>) -> Poll<Self::Output> {
        if self.pend > 0 {
            self.pend -= 1;
            return Poll::Pending; // polled by hand
        }
        self.done = true;
        self.sh.fly[(self.key - 1) as usize].fetch_sub(1, Ordering::SeqCst);
        let v = Val { serial: self.serial, hook: self.hook.clone() };
        Poll::Ready(if self.fail { Err(FErr(v)) } else { Ok(FResp(v)) })
    }
}
impl Drop for FinFut {
    fn drop(&mut self) {
        if !self.done {
            self.sh.fly[(self.key - 1) as usize].fetch_sub(1, Ordering::SeqCst);
        }
    }
}

struct FinLanes {
    round: AtomicU64,
    leader_done: AtomicU64,
    finished: AtomicUsize,
}

/// one request the way `svc.clone().oneshot(req)` makes it, polled to completion by this thread
fn finish_request<Sv>(svc: &Sv, tid: usize, key: u64, arm: bool, count: bool, sh: &FinShared, hook: &FinHook)
where
    Sv: Service<FReq, Response = FResp, Error = CoalesceError<FErr>> + Clone,
{
    let mut cx = Context::from_waker(Waker::noop());
    let mut s = svc.clone();
    let ready = matches!(s.poll_ready(&mut cx), Poll::Ready(Ok(())));
    let enter = sh.seq.fetch_add(1, Ordering::SeqCst);
    FIN_LED.with(|l| l.set(None));
    let mut fut = if ready { Some(Box::pin(s.call(FReq { key, tid }))) } else { None };
    let led = FIN_LED.with(|l| l.take());
    if let Some(k) = led {
        if let Some(c) = sh.calls.lock().unwrap_or_else(|e| e.into_inner()).get_mut(&k) {
            c.enter = Some(enter);
        }
    }
    let exit = sh.seq.fetch_add(1, Ordering::SeqCst);
    if count {
        hook.joined.fetch_add(1, Ordering::SeqCst);
    }
    let got = match fut.as_mut() {
        None => Got::NotReady,
        Some(f) => {
            let mut res = None;
            let ok = spin_until(
                || {
                    FIN_ARMED.with(|a| a.set(arm && led.is_some()));
                    let p = f.as_mut().poll(&mut cx);
                    FIN_ARMED.with(|a| a.set(false));
                    match p {
                        Poll::Ready(x) => {
                            if let Some(k) = led {
                                // the poll that completed the call this request led has returned
                                let now = sh.seq.fetch_add(1, Ordering::SeqCst);
                                if let Some(c) = sh.calls.lock().unwrap_or_else(|e| e.into_inner()).get_mut(&k) {
                                    c.end = Some(now);
                                }
                            }
                            res = Some(x);
                            true
                        }
                        Poll::Pending => false,
                    }
                },
                HERD_DEADLINE_NS,
            );
            match (ok, res) {
                (true, Some(Ok(x))) => Got::Ok(x.0.serial),
                (true, Some(Err(CoalesceError::Service(e)))) => Got::Err(e.0.serial),
                (true, Some(Err(CoalesceError::LeaderCancelled))) => Got::Cancelled,
                (true, Some(Err(CoalesceError::RecvError))) => Got::Recv,
                _ => Got::Stuck,
            }
        }
    };
    drop(fut);
    drop(s);
    sh.reqs.lock().unwrap_or_else(|e| e.into_inner()).push(ReqRec { tid, key, enter, exit, led, got });
}

fn finish_thread<Sv>(svc: Sv, tid: usize, threads: usize, keys: usize, rounds: u64, lanes: Arc<FinLanes>, sh: Arc<FinShared>, hook: Arc<FinHook>)
where
    Sv: Service<FReq, Response = FResp, Error = CoalesceError<FErr>> + Clone,
{
    let mut seen = 0u64;
    loop {
        let mut r = 0;
        spin_until(
            || {
                r = lanes.round.load(Ordering::Acquire);
                r != seen
            },
            u64::MAX,
        );
        if r == u64::MAX {
            return;
        }
        seen = r;
        if hook.gate {
            // one completion per round: this round's first request (the key is free: it leads), and everybody
            // else arrives while its thread is inside the completion — or, failing that, right after it
            let first = (r as usize) % threads == tid;
            if !first {
                spin_until(|| hook.in_drop.load(Ordering::Acquire) == r || lanes.leader_done.load(Ordering::Acquire) == r, HERD_DEADLINE_NS);
            }
            finish_request(&svc, tid, 1, first, !first, &sh, &hook);
            if first {
                lanes.leader_done.store(r, Ordering::SeqCst);
            }
        } else {
            // plain race: every thread makes `rounds` requests back to back, completions and arrivals interleave freely
            let key = 1 + (tid % keys) as u64;
            for i in 0..rounds {
                if i % 64 == 0 {
                    beat();
                }
                finish_request(&svc, tid, key, false, false, &sh, &hook);
            }
        }
        lanes.finished.fetch_add(1, Ordering::SeqCst);
    }
}

/// The clauses of the property for requests none of which is ever dropped unfinished and whose inner calls never
/// panic: every request receives the result (Ok / the inner error, identified by the serial number) of an inner
/// call for ITS key that was in flight at some moment while the request was inside `Service::call` — the call it
/// joined, or the fresh one it started itself — and nothing else: never `leader_cancelled`, never `recv_error`,
/// never the result of a call that was over before it arrived or started after it had been answered.
fn finish_judge(calls: &BTreeMap<u64, CallRec>, reqs: &[ReqRec]) -> (Vec<String>, u64, u64) {
    let mut why = Vec::new();
    let (mut joined, mut fresh) = (0u64, 0u64);
    for q in reqs {
        let who = format!("a request of thread {} for key {}", q.tid, q.key);
        let s = match &q.got {
            Got::Ok(s) | Got::Err(s) => *s,
            Got::Cancelled => {
                why.push(format!(
                    "{} {} failed with err:leader_cancelled, but no leader was dropped and no inner call panicked (every call future of this run is polled to completion)",
                    who,
                    match q.led { Some(k) => format!("(which started inner call {})", k), None => "(coalesced onto a call in flight)".into() }
                ));
                continue;
            }
            g => {
                why.push(format!("{} received {}", who, g));
                continue;
            }
        };
        match q.led {
            Some(k) if k != s => {
                why.push(format!("{} started inner call {} but received the result of call {}", who, k, s));
                continue;
            }
            Some(_) => fresh += 1,
            None => joined += 1,
        }
        let Some(c) = calls.get(&s) else {
            why.push(format!("{} received the result of an inner call ({}) that was never made", who, s));
            continue;
        };
        let is_err = matches!(q.got, Got::Err(_));
        if c.key != q.key || c.fail != is_err {
            why.push(format!("{} received {} but inner call {} was made for key {} and {}", who, q.got, s, c.key, if c.fail { "failed" } else { "succeeded" }));
        } else if c.enter.map(|e| e >= q.exit).unwrap_or(false) {
            why.push(format!("{} received the result of inner call {}, which was started only after the request had returned from Service::call", who, s));
        } else if c.end.map(|e| e <= q.enter).unwrap_or(false) {
            why.push(format!("{} received the result of inner call {}, which had been completed (its leader, thread {}, had its result) before the request arrived: a stale result instead of a fresh call", who, s, c.tid));
        }
    }
    (why, joined, fresh)
}

/// `manual finish threads=<N> rounds=<R> [keys=<M>] [gate=none|drop] [out=ok|err|mix] [gate_us=<T>]`
///
/// Arrivals racing with a COMPLETION on real OS threads (the `herd` run races arrivals with each other while nothing
/// can complete). A separate instance: fresh `CoalesceLayer` over an inner service that records every call; nothing
/// is ever dropped unfinished and nothing panics, so the property leaves a request exactly two fates: it shares the
/// result of the call in flight when it arrived, or it starts a fresh call — see `finish_judge` (the oracle; exact,
/// no tolerance). In particular `leader_cancelled` must never be seen. Also checked, by the inner service itself:
/// never two unfinished inner calls for one key.
///
/// `gate=none`: N threads, each with a clone of the service, make R requests each for key 1 + t mod M back to back
/// (`clone`, `poll_ready`, `call`, poll to completion); the inner calls take 0..2 polls; completions and arrivals
/// interleave as the machine schedules them (a SEARCH; depends on cores and load).
/// `gate=drop`: R rounds; in each, one thread makes a request (key 1 is free: it leads) and polls it; the inner call
/// completes at that poll, and the copy of the result made for the waiters — nobody has subscribed — is destroyed
/// inside the completion: its destructor (`FinHook`, a timed rendezvous) holds the completing thread there until
/// each of the other N-1 threads has made a request for the key. Where publishing the result and unregistering the
/// key are one critical section those requests wait at the lock until the time-out (`gate_us`, default 3 ms real
/// time) and then start / join a fresh call; where the key is still registered after the result has gone out, or
/// any other intermediate state is visible, they see it: a deterministic schedule, every round.
///
/// Compared line: `finish rounds=<R> calls=<N*R> anomalies=<violating requests + overlapping inner calls>`; meta
/// `#finish …` (always) and `#finish-fail …` (the first violations in full and a one-line replay).
fn finish(kv: &Kv) {
    let threads = kv.u64("threads", 2).clamp(2, 32) as usize;
    let rounds = kv.u64("rounds", 100).clamp(1, 1_000_000);
    let gate = kv.str("gate", "none") == "drop";
    let keys = if gate { 1 } else { (kv.u64("keys", 1).max(1) as usize).min(threads) };
    let out = match kv.str("out", "ok").as_str() {
        "err" => 1u8,
        "mix" => 2,
        _ => 0,
    };
    let hook = Arc::new(FinHook {
        gate,
        parties: threads - 1,
        timeout_ns: kv.u64("gate_us", 3000).clamp(10, 1_000_000) * 1000,
        round: AtomicU64::new(0),
        in_drop: AtomicU64::new(0),
        joined: AtomicUsize::new(0),
        met: AtomicU64::new(0),
        timeouts: AtomicU64::new(0),
    });
    let sh = Arc::new(FinShared {
        seq: AtomicU64::new(1),
        serial: AtomicU64::new(0),
        out,
        fly: (0..keys).map(|_| AtomicUsize::new(0)).collect(),
        calls: Mutex::new(BTreeMap::new()),
        reqs: Mutex::new(Vec::new()),
        overlaps: Mutex::new(Vec::new()),
    });
    let lanes = Arc::new(FinLanes { round: AtomicU64::new(0), leader_done: AtomicU64::new(0), finished: AtomicUsize::new(0) });
    let layer = CoalesceLayer::builder(|r: &FReq| r.key).name("finish").build();
    let svc = layer.layer(FinInner(sh.clone(), hook.clone()));
    let cfg = format!(
        "threads={} rounds={} keys={} gate={} out={}",
        threads,
        rounds,
        keys,
        if gate { "drop" } else { "none" },
        kv.str("out", "ok")
    );
    let _exclusive = HerdLock::acquire();
    let t0 = real_ns();
    let mut handles = Vec::new();
    let mut spawn_failed = false;
    for tid in 0..threads {
        let (s, l, h, k) = (svc.clone(), lanes.clone(), sh.clone(), hook.clone());
        match std::thread::Builder::new().name(format!("finish-{}", tid)).spawn(move || finish_thread(s, tid, threads, keys, rounds, l, h, k)) {
            Ok(h) => handles.push(h),
            Err(_) => spawn_failed = true,
        }
    }
    let stop = |handles: Vec<std::thread::JoinHandle<()>>, join: bool| {
        lanes.round.store(u64::MAX, Ordering::SeqCst);
        if join {
            for h in handles {
                let _ = h.join();
            }
        }
    };
    if spawn_failed {
        stop(handles, true);
        log_raw("#harness-panic finish: could not create the threads".into());
        return;
    }
    let calls_total = rounds * threads as u64;
    let (mut performed, mut bad, mut inner, mut joined, mut fresh) = (0u64, 0u64, 0u64, 0u64, 0u64);
    let mut fails: Vec<String> = Vec::new();
    let steps = if gate { rounds } else { 1 };
    for r in 1..=steps {
        beat();
        hook.round.store(r, Ordering::SeqCst);
        hook.joined.store(0, Ordering::SeqCst);
        lanes.finished.store(0, Ordering::SeqCst);
        lanes.round.store(r, Ordering::Release);
        // (a thread that cannot finish gives up after 20 s per request and reports `Stuck`)
        if !spin_until(|| lanes.finished.load(Ordering::Acquire) >= threads, if gate { 4 * HERD_DEADLINE_NS } else { u64::MAX }) {
            stop(handles, false);
            log_raw(format!("#finish {} performed={} aborted=1", cfg, performed));
            log_raw(format!("#finish-fail {} :: round {}: not all threads came back within 80 s :: replay: manual finish {}", cfg, r, cfg));
            log(format!("finish rounds={} calls={} anomalies={}", rounds, calls_total, bad + 1));
            return;
        }
        performed += 1;
        let calls = sh.calls.lock().unwrap_or_else(|e| e.into_inner());
        let reqs = std::mem::take(&mut *sh.reqs.lock().unwrap_or_else(|e| e.into_inner()));
        let overlaps = std::mem::take(&mut *sh.overlaps.lock().unwrap_or_else(|e| e.into_inner()));
        inner = calls.len() as u64;
        let (why, j, f) = finish_judge(&calls, &reqs);
        drop(calls);
        joined += j;
        fresh += f;
        bad += (why.len() + overlaps.len()) as u64;
        for w in overlaps.into_iter().chain(why) {
            if fails.len() < 3 {
                fails.push(if gate { format!("round {}: {}", r, w) } else { w });
            }
        }
    }
    stop(handles, true);
    drop(svc);
    drop(layer);
    let wall = (real_ns() - t0) / 1000;
    log_raw(format!(
        "#finish {} performed={} wall_us={} inner={} joined={} fresh={} met={} gate_timeouts={} bad={}",
        cfg,
        performed,
        wall,
        inner,
        joined,
        fresh,
        hook.met.load(Ordering::SeqCst),
        hook.timeouts.load(Ordering::SeqCst),
        bad
    ));
    if !fails.is_empty() {
        log_raw(format!(
            "#finish-fail {} :: {} :: replay: manual finish {} :: totals: {} violation(s) among {} requests ({} inner calls, {} requests coalesced, {} led a call)",
            cfg,
            fails.join(" | "),
            cfg,
            bad,
            calls_total,
            inner,
            joined,
            fresh
        ));
    }
    log(format!("finish rounds={} calls={} anomalies={}", rounds, calls_total, bad));
}
