//! C11: the real `CoalesceLayer` (key extractor `|r: &Req| r.key`) over the scripted inner service.
//!
//! `Service::call` decides leader / waiter and, for a leader, calls the inner service at once,
//! so the whole of that happens in `arrive`.  Besides the compared events the adapter writes
//! meta lines (never compared with the model, used by the python monitors only):
//!   `#arrive <c> <key>`  before `call()` (a leader's `inner_call` line follows immediately),
//!   `#poll <c>`          at every poll of a call future that made no inner call in `call()`.
use crate::world::*;
use std::future::Future;
use std::pin::Pin;
use std::task::{Context, Poll};
use tower::{Layer, Service};
use tower_resilience_coalesce::{CoalesceError, CoalesceLayer, CoalesceService};

type KeyFn = fn(&Req) -> u64;
fn key_of(r: &Req) -> u64 {
    r.key
}

/// The scripted inner service, except that `call()` itself panics for a request marked
/// `callpanic=1` (the synchronous part of a `service_fn` closure panicking, a service that
/// insists on `poll_ready`, …). Nothing is logged and no serial number is consumed: the
/// scripted service is not reached.
#[derive(Clone)]
pub struct CallPanic {
    inner: Inner,
}
const CALL_PANIC: u64 = u64::MAX;
impl Service<Req> for CallPanic {
    type Response = Resp;
    type Error = IErr;
    type Future = InnerFut;
    fn poll_ready(&mut self, cx: &mut Context<'_>) -> Poll<Result<(), IErr>> {
        self.inner.poll_ready(cx)
    }
    fn call(&mut self, req: Req) -> InnerFut {
        if req.tag == CALL_PANIC {
            panic!("scripted panic inside call()");
        }
        self.inner.call(req)
    }
}

pub struct Adapter {
    svc: CoalesceService<CallPanic, u64, Req, KeyFn>,
}

impl Adapter {
    pub fn new(_kv: &Kv) -> Adapter {
        let layer: CoalesceLayer<u64, Req, KeyFn> = CoalesceLayer::builder(key_of as KeyFn).name("verif").build();
        Adapter { svc: layer.layer(CallPanic { inner: Inner::new() }) }
    }
}

pub fn render(r: Result<Resp, CoalesceError<IErr>>) -> String {
    match r {
        Ok(x) => format!("ok:{}", x.v),
        Err(CoalesceError::Service(e)) => format!("err:inner{}:{}", e.kind, e.v),
        Err(CoalesceError::LeaderCancelled) => "err:leader_cancelled".into(),
        Err(CoalesceError::RecvError) => "err:recv_error".into(),
    }
}

/// logs `#poll c` at every poll (monitors only)
struct Traced<F> {
    c: usize,
    on: bool,
    fut: Pin<Box<F>>,
}
impl<F: Future> Future for Traced<F> {
    type Output = F::Output;
    fn poll(mut self: Pin<&mut Self>, cx: &mut Context<'_>) -> Poll<F::Output> {
        if self.on {
            log_raw(format!("#poll {}", self.c));
        }
        self.fut.as_mut().poll(cx)
    }
}

impl Mw for Adapter {
    fn arrive(&mut self, c: usize, kv: &Kv) -> Option<CallFut> {
        let mut svc = self.svc.clone();
        let mut req = Req::new(c, kv);
        if kv.u64("callpanic", 0) == 1 {
            req.tag = CALL_PANIC;
        }
        match poll_ready_once(&mut svc) {
            Poll::Ready(Ok(())) => {}
            _ => {
                log(format!("result {} notready", c));
                return None;
            }
        }
        log_raw(format!("#arrive {} {}", c, req.key));
        let before = log_len();
        let fut = match std::panic::catch_unwind(std::panic::AssertUnwindSafe(|| svc.call(req))) {
            Ok(f) => f,
            Err(_) => {
                // `Service::call` unwound: the caller never gets a future
                log(format!("result {} panic", c));
                return None;
            }
        };
        let led = log_len() != before; // the inner service logged `inner_call`
        let fut = Traced { c, on: !led, fut: Box::pin(fut) };
        Some(held(fut, render))
    }
}
