//! C11: the real `CoalesceLayer` (key extractor `|r: &Req| r.key`) over the scripted inner service.
//!
//! `Service::call` decides leader / waiter and, for a leader, calls the inner service at once,
//! so the whole of that happens in `arrive`.  Besides the compared events the adapter writes
//! meta lines (never compared with the model, used by the python monitors only):
//!   `#arrive <c> <key>`  before `call()` (a leader's `inner_call` line follows immediately),
//!   `#poll <c>`          at every poll of a call future that made no inner call in `call()`.
//!   `#dropsvc`           the adapter dropped its service handle and the layer (`manual dropsvc`).
//!
//! `manual dropsvc`: every `CoalesceService` handle sharing the in-flight table goes away while call
//! futures may still be in flight (what `svc.clone().oneshot(req)` bursts do when the last request
//! consumes the original handle). The per-arrival clone made in `arrive` is dropped when `arrive`
//! returns, as `Oneshot` does right after `call`, so after `dropsvc` only the call futures themselves
//! can keep anything alive. No request can be made afterwards: a later `arrive` is answered `noop`.
//!
//! `manual ondrop c=<c> by=<c2> inner=<lat>:<out> [thread=1]`: arms a one-shot hook on the INNER future of
//! caller `c`: when that future is destroyed unfinished (its leader was dropped), its destructor — before it
//! releases anything, i.e. before `inner_drop` is logged — lets a request `c2` for the same key arrive
//! (`clone` / `poll_ready` / `call`), on the dropping thread itself (a destructor that issues a request) or,
//! with `thread=1`, on a second OS thread while the destructor blocks until that thread has returned (a slow
//! destructor and a concurrent caller: a real two-thread schedule, made deterministic by the join).
//! `CoalesceFuture::drop` unregisters the key and only then lets its fields be destroyed, so this is the
//! one point at which code can run between "key unregistered" and "inner future destroyed". Meta line
//! `#ondrop <c> <c2>`; the future obtained for `c2` is parked and handed out by the next `arrive <c2> …`
//! (which then makes no call of its own), so that the case can go on polling it.
use crate::world::*;
use std::collections::{BTreeMap, BTreeSet};
use std::future::Future;
use std::pin::Pin;
use std::sync::{Arc, Mutex};
use std::task::{Context, Poll};
use tower::{Layer, Service};
use tower_resilience_coalesce::{CoalesceError, CoalesceLayer, CoalesceService};

type KeyFn = fn(&Req) -> u64;
fn key_of(r: &Req) -> u64 {
    r.key
}

/// The scripted inner service, except that `call()` itself panics for a request marked
/// `callpanic=1` (the synchronous part of a `service_fn` closure panicking, a service that
/// insists on `poll_ready`, …). Nothing is logged and no serial number is consumed: the
/// scripted service is not reached.
#[derive(Clone)]
pub struct CallPanic {
    inner: Inner,
    shared: Arc<Mutex<Shared>>,
}
const CALL_PANIC: u64 = u64::MAX;
impl Service<Req> for CallPanic {
    type Response = Resp;
    type Error = IErr;
    type Future = Hooked;
    fn poll_ready(&mut self, cx: &mut Context<'_>) -> Poll<Result<(), IErr>> {
        self.inner.poll_ready(cx)
    }
    fn call(&mut self, req: Req) -> Hooked {
        if req.tag == CALL_PANIC {
            panic!("scripted panic inside call()");
        }
        let (c, key) = (req.c, req.key);
        Hooked { c, key, over: false, shared: self.shared.clone(), fut: self.inner.call(req) }
    }
}

type Svc = CoalesceService<CallPanic, u64, Req, KeyFn>;
type SvcFut = <Svc as Service<Req>>::Future;

/// What the inner futures' destructors need: the owner's handle, the armed hooks, the parked futures.
pub struct Shared {
    /// the owner's handle; `None` once `manual dropsvc` has dropped it
    svc: Option<Svc>,
    /// `manual ondrop c=.. by=..`: leader -> (new caller, its arguments, on a second thread)
    hooks: BTreeMap<usize, (usize, Kv, bool)>,
    /// futures obtained inside a destructor, waiting for their `arrive` op
    parked: BTreeMap<usize, (SvcFut, bool)>,
    /// every caller that has made (or been refused) a request
    known: BTreeSet<usize>,
}

/// The scripted inner future, with the destructor hook described at the top of the file. Field order
/// matters: `Drop::drop` below runs first, then `fut` is destroyed (and logs `inner_drop`).
pub struct Hooked {
    c: usize,
    key: u64,
    /// finished, or panicked inside `poll`: not in flight any more
    over: bool,
    shared: Arc<Mutex<Shared>>,
    fut: InnerFut,
}
impl Future for Hooked {
    type Output = Result<Resp, IErr>;
    fn poll(mut self: Pin<&mut Self>, cx: &mut Context<'_>) -> Poll<Self::Output> {
        self.over = true; // stays set if the poll below unwinds
        let r = Pin::new(&mut self.fut).poll(cx);
        if r.is_pending() {
            self.over = false;
        }
        r
    }
}
impl Drop for Hooked {
    fn drop(&mut self) {
        if self.over {
            return;
        }
        let job = {
            let mut sh = self.shared.lock().unwrap_or_else(|e| e.into_inner());
            match (sh.hooks.get(&self.c).cloned(), sh.svc.as_ref().map(|s| s.clone())) {
                (Some((c2, kv, thread)), Some(svc)) if !sh.known.contains(&c2) => {
                    sh.hooks.remove(&self.c);
                    sh.known.insert(c2);
                    Some((c2, kv, thread, svc))
                }
                _ => None,
            }
        };
        let Some((c2, kv, thread, svc)) = job else { return };
        log_raw(format!("#ondrop {} {}", self.c, c2));
        let mut req = Req::new(c2, &kv);
        req.key = self.key;
        let got = if thread {
            // this destructor blocks; meanwhile another thread makes the request
            let rt = tokio::runtime::Handle::current();
            std::thread::scope(|s| {
                s.spawn(move || {
                    let _g = rt.enter();
                    request(svc, c2, req)
                })
                .join()
                .unwrap_or(None)
            })
        } else {
            request(svc, c2, req)
        };
        if let Some(x) = got {
            self.shared.lock().unwrap_or_else(|e| e.into_inner()).parked.insert(c2, x);
        }
    }
}

/// One request the way a caller makes it: `poll_ready`, `call`; the handle (a clone) is dropped on return,
/// as `Oneshot` does. `None` when no future came into being (the adapter has logged why).
fn request(mut svc: Svc, c: usize, req: Req) -> Option<(SvcFut, bool)> {
    match poll_ready_once(&mut svc) {
        Poll::Ready(Ok(())) => {}
        _ => {
            log(format!("result {} notready", c));
            return None;
        }
    }
    log_raw(format!("#arrive {} {}", c, req.key));
    let before = log_len();
    let fut = match std::panic::catch_unwind(std::panic::AssertUnwindSafe(|| svc.call(req))) {
        Ok(f) => f,
        Err(_) => {
            // `Service::call` unwound: the caller never gets a future
            log(format!("result {} panic", c));
            return None;
        }
    };
    let led = log_len() != before; // the inner service logged `inner_call`
    Some((fut, led))
}

pub struct Adapter {
    shared: Arc<Mutex<Shared>>,
    layer: Option<CoalesceLayer<u64, Req, KeyFn>>,
}

impl Adapter {
    pub fn new(_kv: &Kv) -> Adapter {
        let layer: CoalesceLayer<u64, Req, KeyFn> = CoalesceLayer::builder(key_of as KeyFn).name("verif").build();
        let shared = Arc::new(Mutex::new(Shared { svc: None, hooks: BTreeMap::new(), parked: BTreeMap::new(), known: BTreeSet::new() }));
        let svc = layer.layer(CallPanic { inner: Inner::new(), shared: shared.clone() });
        shared.lock().unwrap().svc = Some(svc);
        Adapter { shared, layer: Some(layer) }
    }
    fn sh(&self) -> std::sync::MutexGuard<'_, Shared> {
        self.shared.lock().unwrap_or_else(|e| e.into_inner())
    }
}
impl Drop for Adapter {
    fn drop(&mut self) {
        // `Shared` holds the service, whose inner service holds `Shared`: break the cycle, outside the lock
        let (svc, parked) = {
            let mut sh = self.sh();
            sh.hooks.clear();
            (sh.svc.take(), std::mem::take(&mut sh.parked))
        };
        drop(parked);
        drop(svc);
    }
}

pub fn render(r: Result<Resp, CoalesceError<IErr>>) -> String {
    match r {
        Ok(x) => format!("ok:{}", x.v),
        Err(CoalesceError::Service(e)) => format!("err:inner{}:{}", e.kind, e.v),
        Err(CoalesceError::LeaderCancelled) => "err:leader_cancelled".into(),
        Err(CoalesceError::RecvError) => "err:recv_error".into(),
    }
}

/// logs `#poll c` at every poll (monitors only)
struct Traced<F> {
    c: usize,
    on: bool,
    fut: Pin<Box<F>>,
}
impl<F: Future> Future for Traced<F> {
    type Output = F::Output;
    fn poll(mut self: Pin<&mut Self>, cx: &mut Context<'_>) -> Poll<F::Output> {
        if self.on {
            log_raw(format!("#poll {}", self.c));
        }
        self.fut.as_mut().poll(cx)
    }
}

impl Mw for Adapter {
    fn arrive(&mut self, c: usize, kv: &Kv) -> Option<CallFut> {
        let (parked, owner) = {
            let mut sh = self.sh();
            sh.known.insert(c);
            (sh.parked.remove(&c), sh.svc.as_ref().map(|s| s.clone()))
        };
        let got = if let Some(x) = parked {
            // the request was made inside a destructor (`manual ondrop`); this op only hands the future to the poller
            Some(x)
        } else {
            let Some(svc) = owner else {
                // no handle left to call through: invalid operation
                log("noop".into());
                return None;
            };
            let mut req = Req::new(c, kv);
            if kv.u64("callpanic", 0) == 1 {
                req.tag = CALL_PANIC;
            }
            request(svc, c, req)
        };
        let (fut, led) = got?;
        let fut = Traced { c, on: !led, fut: Box::pin(fut) };
        Some(held(fut, render))
    }
    fn manual(&mut self, what: &str, kv: &Kv) {
        if what == "dropsvc" {
            let svc = {
                let mut sh = self.sh();
                if sh.svc.is_some() {
                    log_raw("#dropsvc".into());
                }
                sh.svc.take()
            };
            drop(svc);
            drop(self.layer.take());
        } else if what == "ondrop" {
            if let (Some(c), Some(c2)) = (kv.opt_u64("c"), kv.opt_u64("by")) {
                let args = Kv(kv.0.iter().filter(|(k, _)| k == "inner").cloned().collect());
                self.sh().hooks.insert(c as usize, (c2 as usize, args, kv.u64("thread", 0) == 1));
            }
        }
    }
}
