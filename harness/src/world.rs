//! The controlled world: virtual clock, event log, manual poller, scripted inner service.
#![allow(dead_code)]

use std::collections::{BTreeMap, VecDeque};
use std::future::Future;
use std::panic::{catch_unwind, AssertUnwindSafe};
use std::pin::Pin;
use std::sync::atomic::{AtomicBool, AtomicU64, Ordering};
use std::sync::{Arc, Mutex};
use std::task::{Context, Poll, Wake, Waker};
use std::time::Duration;

// ------------------------------------------------------------------ virtual clock

const BASE_NS: u64 = 1_000_000_000_000; // far from zero so that `Instant - Duration` never underflows
static VIRT_NS: AtomicU64 = AtomicU64::new(BASE_NS);
/// `begin_case` rewinds the cumulative virtual clock to `BASE_NS` once it is past this (2^62 ns, about 146 years)
const CLOCK_REWIND_NS: u64 = 1 << 62;
static VIRT_ON: AtomicBool = AtomicBool::new(true);
static CASE_START_NS: AtomicU64 = AtomicU64::new(BASE_NS);
/// wall time that passed inside synchronous code since the case began (not part of the op clock)
static SKEW_NS: AtomicU64 = AtomicU64::new(0);
/// length of one clock tick of the op language in ns (`adv n` = n ticks, `t=` in ticks): 1 ms by default, 1 µs for
/// cases whose header says `tick=us` (sub-millisecond instants; only for middleware timed by `std::time::Instant`,
/// tokio's timers have millisecond granularity)
static TICK_NS: AtomicU64 = AtomicU64::new(1_000_000);
pub fn set_tick_ns(ns: u64) {
    TICK_NS.store(ns, Ordering::SeqCst);
}
pub fn tick_ns() -> u64 {
    TICK_NS.load(Ordering::SeqCst)
}
/// a configured duration of `n` ticks
pub fn ticks(n: u64) -> Duration {
    Duration::from_nanos(n.saturating_mul(tick_ns()))
}

/// std's `Instant::now()` reaches the monotonic clock only through this libc symbol; the
/// definition in the executable takes precedence over libc's at link time.
#[no_mangle]
pub unsafe extern "C" fn clock_gettime(clk: libc::clockid_t, ts: *mut libc::timespec) -> libc::c_int {
    if VIRT_ON.load(Ordering::Relaxed)
        && (clk == libc::CLOCK_MONOTONIC || clk == libc::CLOCK_MONOTONIC_RAW || clk == libc::CLOCK_BOOTTIME)
    {
        let v = VIRT_NS.load(Ordering::SeqCst);
        (*ts).tv_sec = (v / 1_000_000_000) as libc::time_t;
        (*ts).tv_nsec = (v % 1_000_000_000) as _;
        return 0;
    }
    libc::syscall(libc::SYS_clock_gettime, clk, ts) as libc::c_int
}

/// Move only the (virtual) std clock forward: wall time passing inside synchronous code, e.g. a slow listener.
pub fn bump_std_clock(ms: u64) {
    VIRT_NS.fetch_add(ms * 1_000_000, Ordering::SeqCst);
    SKEW_NS.fetch_add(ms * 1_000_000, Ordering::SeqCst);
}
pub fn virt_now_ns() -> u64 {
    VIRT_NS.load(Ordering::SeqCst)
}
pub fn now_ms() -> u64 {
    (VIRT_NS.load(Ordering::SeqCst) - CASE_START_NS.load(Ordering::SeqCst) - SKEW_NS.load(Ordering::SeqCst)) / tick_ns()
}
pub fn now_ns_in_case() -> u64 {
    VIRT_NS.load(Ordering::SeqCst) - CASE_START_NS.load(Ordering::SeqCst)
}

/// Self-test of the interposition; an infrastructure error (exit 3), never a VIOLATION.
pub fn clock_selftest() {
    let a = std::time::Instant::now();
    unsafe {
        let req = libc::timespec { tv_sec: 0, tv_nsec: 2_000_000 };
        libc::nanosleep(&req, std::ptr::null_mut());
    }
    let b = std::time::Instant::now();
    if b != a {
        eprintln!("INFRA: clock_gettime interposition not effective (Instant moved across a real sleep)");
        std::process::exit(3);
    }
    VIRT_NS.fetch_add(5_000_000, Ordering::SeqCst);
    let c = std::time::Instant::now();
    if c.duration_since(a) != Duration::from_millis(5) {
        eprintln!("INFRA: clock_gettime interposition not exact");
        std::process::exit(3);
    }
}

/// Advance both clocks by the same amount and let timers / spawned tasks run.
pub async fn advance(ms: u64, yields: usize) {
    advance_ns(ms * tick_ns(), yields).await
}
pub async fn advance_ns(ns: u64, yields: usize) {
    // A very long advance (years) is made in stretches shorter than the span of tokio's timer wheel (2^36 ms, about 2.2
    // years): jumping over several wheel spans at once with two or more timers beyond the span registered makes this
    // tokio version's wheel crash (SIGSEGV in `Wheel::poll`). Real time does not jump either. Nothing is polled in
    // between; timers that fall due on the way fire (wake their tasks) in order, as they would anyway.
    const STRETCH_NS: u64 = (1 << 35) * 1_000_000;
    let mut ns = ns;
    while ns > STRETCH_NS {
        VIRT_NS.fetch_add(STRETCH_NS, Ordering::SeqCst);
        tokio::time::advance(Duration::from_nanos(STRETCH_NS)).await;
        ns -= STRETCH_NS;
    }
    VIRT_NS.fetch_add(ns, Ordering::SeqCst);
    tokio::time::advance(Duration::from_nanos(ns)).await;
    for _ in 0..yields {
        tokio::task::yield_now().await;
    }
}
pub async fn yields(n: usize) {
    for _ in 0..n {
        tokio::task::yield_now().await;
    }
}

// ------------------------------------------------------------------ watchdog (wall time)

/// exit code of the harness when one operation made no progress for `TRH_HANG_MS` of WALL time
pub const HANG_EXIT: i32 = 4;
static BEAT: AtomicU64 = AtomicU64::new(0);
static WATCH: Mutex<(String, usize, String)> = Mutex::new((String::new(), 0, String::new()));

/// the real monotonic clock (the interposed `clock_gettime` above is frozen): the raw syscall
pub fn wall_ns() -> u64 {
    let mut ts = libc::timespec { tv_sec: 0, tv_nsec: 0 };
    unsafe {
        libc::syscall(libc::SYS_clock_gettime, libc::CLOCK_MONOTONIC, &mut ts as *mut libc::timespec);
    }
    ts.tv_sec as u64 * 1_000_000_000 + ts.tv_nsec as u64
}
static BUSY: AtomicU64 = AtomicU64::new(0);
/// While a `Busy` exists the watchdog allows two minutes instead of `TRH_HANG_MS`: a real-thread scenario (stress
/// run, scheduled threads, a queue for a machine-wide lock) legitimately makes no log progress for a while,
/// especially on a loaded machine.
pub struct Busy;
impl Busy {
    pub fn new() -> Busy {
        BUSY.fetch_add(1, Ordering::SeqCst);
        Busy
    }
}
impl Drop for Busy {
    fn drop(&mut self) {
        // progress first: a watchdog tick between the two lines must not see "not busy, no beat for minutes"
        beat();
        BUSY.fetch_sub(1, Ordering::SeqCst);
        beat();
    }
}
/// progress: a case begins, an operation begins, a line is logged
pub fn beat() {
    BEAT.fetch_add(1, Ordering::Relaxed);
}
pub fn watch_case(n: &str) {
    if let Ok(mut w) = WATCH.try_lock() {
        *w = (n.to_string(), 0, String::new());
    }
    beat();
}
fn watch_op(i: usize, line: &str) {
    if let Ok(mut w) = WATCH.try_lock() {
        w.1 = i;
        w.2 = line.trim().to_string();
    }
    beat();
}
/// A deadlocked or endlessly looping middleware must not hang the check: when nothing progressed for `limit_ms` of wall
/// time, print the log of the current case so far and `#harness-hang <case> <op index> <op line>` (raw `write`: the
/// main thread may hold the stdout lock), and leave with `HANG_EXIT`. Output of earlier cases was flushed by `main`.
pub fn start_watchdog(limit_ms: u64) {
    std::thread::spawn(move || {
        let nap = libc::timespec { tv_sec: 0, tv_nsec: 20_000_000 };
        let (mut last, mut since) = (BEAT.load(Ordering::Relaxed), wall_ns());
        loop {
            unsafe {
                libc::nanosleep(&nap, std::ptr::null_mut());
            }
            let (b, now) = (BEAT.load(Ordering::Relaxed), wall_ns());
            if b != last {
                last = b;
                since = now;
                continue;
            }
            let limit = if BUSY.load(Ordering::SeqCst) > 0 { limit_ms.max(120_000) } else { limit_ms };
            if now.saturating_sub(since) < limit * 1_000_000 {
                continue;
            }
            let mut text = String::new();
            if let Ok(l) = LOG.try_lock() {
                for x in l.iter() {
                    text.push_str(x);
                    text.push('\n');
                }
            }
            let w = WATCH.try_lock().map(|w| w.clone()).unwrap_or_default();
            text.push_str(&format!("#harness-hang {} {} {}\n", w.0, w.1, w.2));
            let bytes = text.as_bytes();
            let mut off = 0;
            while off < bytes.len() {
                let n = unsafe { libc::write(1, bytes[off..].as_ptr() as *const libc::c_void, bytes.len() - off) };
                if n <= 0 {
                    break;
                }
                off += n as usize;
            }
            unsafe { libc::_exit(HANG_EXIT) }
        }
    });
}

// ------------------------------------------------------------------ event log

static LOG: Mutex<Vec<String>> = Mutex::new(Vec::new());
static SERIAL: AtomicU64 = AtomicU64::new(0);

pub fn log(s: String) {
    beat();
    let line = format!("t={} {}", now_ms(), s);
    LOG.lock().unwrap_or_else(|e| e.into_inner()).push(line);
}
pub fn log_raw(s: String) {
    LOG.lock().unwrap_or_else(|e| e.into_inner()).push(s);
}
pub fn log_len() -> usize {
    LOG.lock().unwrap_or_else(|e| e.into_inner()).len()
}
pub fn take_log() -> Vec<String> {
    std::mem::take(&mut *LOG.lock().unwrap_or_else(|e| e.into_inner()))
}
pub fn next_serial() -> u64 {
    SERIAL.fetch_add(1, Ordering::SeqCst)
}
static OBS: Mutex<Vec<String>> = Mutex::new(Vec::new());
static ANN: Mutex<Vec<String>> = Mutex::new(Vec::new());
/// Record an observed nondeterministic choice of the implementation (DESIGN §3.2); it is
/// appended as ` @k=v` to the operation line being executed in the annotated op file that
/// the model driver consumes.
pub fn obs(k: &str, v: impl std::fmt::Display) {
    OBS.lock().unwrap_or_else(|e| e.into_inner()).push(format!("@{}={}", k, v));
}
fn ann_push(line: &str) {
    let o: Vec<String> = std::mem::take(&mut *OBS.lock().unwrap_or_else(|e| e.into_inner()));
    let mut l = line.to_string();
    for x in o {
        l.push(' ');
        l.push_str(&x);
    }
    ANN.lock().unwrap_or_else(|e| e.into_inner()).push(l);
    ann_flush_late();
}
/// Operations performed from INSIDE the operation in progress whose place, for the model, is right AFTER it (requests
/// made from inside the poll of an inner call, `manual onpoll`): they are appended when the line of the operation in
/// progress has been written.
static ANN_LATE: Mutex<Vec<String>> = Mutex::new(Vec::new());
fn ann_flush_late() {
    let late: Vec<String> = std::mem::take(&mut *ANN_LATE.lock().unwrap_or_else(|e| e.into_inner()));
    if !late.is_empty() {
        ANN.lock().unwrap_or_else(|e| e.into_inner()).extend(late);
    }
}
fn ann_push_plain(line: &str) {
    ANN.lock().unwrap_or_else(|e| e.into_inner()).push(line.to_string());
}
/// Observed choices recorded since `obs_from` belong to the annotated line `ann_ix` (an operation performed from inside
/// another one: the `poll c2` of `manual ondrop`), not to the operation in progress.
fn ann_attach_obs(ann_ix: usize, obs_from: usize) {
    let mut o = OBS.lock().unwrap_or_else(|e| e.into_inner());
    if obs_from >= o.len() {
        return;
    }
    let mine: Vec<String> = o.split_off(obs_from);
    drop(o);
    let mut a = ANN.lock().unwrap_or_else(|e| e.into_inner());
    if let Some(l) = a.get_mut(ann_ix) {
        for x in mine {
            l.push(' ');
            l.push_str(&x);
        }
    }
}
pub fn take_annotated() -> Vec<String> {
    std::mem::take(&mut *ANN.lock().unwrap_or_else(|e| e.into_inner()))
}
pub fn begin_case() {
    OBS.lock().unwrap_or_else(|e| e.into_inner()).clear();
    ANN.lock().unwrap_or_else(|e| e.into_inner()).clear();
    ANN_LATE.lock().unwrap_or_else(|e| e.into_inner()).clear();
    SERIAL.store(0, Ordering::SeqCst);
    SKEW_NS.store(0, Ordering::SeqCst);
    // The virtual clock is cumulative over the cases of one process (u64 nanoseconds: about 584 years). Cases that move
    // it by decades (a waiter watched across tokio's 30-year far-future horizon) would exhaust that after a dozen or so,
    // so once a quarter of the range is used up the clock is rewound between two cases — nothing of the previous case
    // is alive here (its runtime and every future are gone), and no `Instant` is compared across cases. One case may
    // thus span up to about 430 years; processes that never get that far (all ordinary ones) see no change.
    if VIRT_NS.load(Ordering::SeqCst) > CLOCK_REWIND_NS {
        VIRT_NS.store(BASE_NS, Ordering::SeqCst);
    }
    CASE_START_NS.store(VIRT_NS.load(Ordering::SeqCst), Ordering::SeqCst);
    take_log();
}

// ------------------------------------------------------------------ key=value arguments

#[derive(Clone, Debug, Default)]
pub struct Kv(pub Vec<(String, String)>);
impl Kv {
    pub fn parse(words: &[&str]) -> Kv {
        Kv(words
            .iter()
            .filter_map(|w| w.split_once('=').map(|(a, b)| (a.to_string(), b.to_string())))
            .collect())
    }
    pub fn get(&self, k: &str) -> Option<&str> {
        self.0.iter().find(|(a, _)| a == k).map(|(_, b)| b.as_str())
    }
    pub fn u64(&self, k: &str, d: u64) -> u64 {
        self.get(k).and_then(|v| v.parse().ok()).unwrap_or(d)
    }
    pub fn opt_u64(&self, k: &str) -> Option<u64> {
        self.get(k).and_then(|v| v.parse().ok())
    }
    pub fn str(&self, k: &str, d: &str) -> String {
        self.get(k).unwrap_or(d).to_string()
    }
}

// ------------------------------------------------------------------ scripted inner service

#[derive(Clone, Copy, Debug, PartialEq)]
pub enum Out {
    Ok,
    Err(u8),
    Panic,
    Never,
    /// never completes and exhausts tokio's cooperative budget on every poll
    Hog,
}
#[derive(Clone, Copy, Debug)]
pub struct Step {
    pub lat: u64,
    pub out: Out,
}
/// `inner=5:ok,0:err1,3:panic,0:never`
pub fn parse_plan(s: &str) -> VecDeque<Step> {
    let mut v = VecDeque::new();
    if s.is_empty() {
        return v;
    }
    for part in s.split(',') {
        let (l, o) = part.split_once(':').unwrap_or(("0", part));
        let lat = l.parse().unwrap_or(0);
        let out = if o == "ok" {
            Out::Ok
        } else if o == "panic" {
            Out::Panic
        } else if o == "never" {
            Out::Never
        } else if o == "hog" {
            Out::Hog
        } else if let Some(k) = o.strip_prefix("err") {
            // `errK>J>…`: an error of kind K whose `source()` chain has the kinds J, …; the chain is given to the
            // error by adapters whose error type has one (`mw_reconnect::causes_of`), here only the head counts
            Out::Err(k.split('>').next().unwrap_or("").parse().unwrap_or(0))
        } else {
            Out::Ok
        };
        v.push_back(Step { lat, out });
    }
    v
}

#[derive(Clone, Debug)]
pub struct Req {
    pub c: usize,
    pub key: u64,
    pub tag: u64,
    pub plan: Arc<Mutex<VecDeque<Step>>>,
}
impl Req {
    pub fn new(c: usize, kv: &Kv) -> Req {
        Req {
            c,
            key: kv.u64("key", 0),
            tag: kv.u64("tag", c as u64),
            plan: Arc::new(Mutex::new(parse_plan(kv.get("inner").unwrap_or("0:ok")))),
        }
    }
}
#[derive(Clone, Debug, PartialEq)]
pub struct Resp {
    pub v: u64,
    pub c: usize,
    pub tag: u64,
}
#[derive(Clone, Debug, PartialEq)]
pub struct IErr {
    pub kind: u8,
    pub v: u64,
}
impl std::fmt::Display for IErr {
    fn fmt(&self, f: &mut std::fmt::Formatter<'_>) -> std::fmt::Result {
        write!(f, "ierr{}:{}", self.kind, self.v)
    }
}
impl std::error::Error for IErr {}

pub fn render_inner(r: &Result<Resp, IErr>) -> String {
    match r {
        Ok(x) => format!("ok:{}", x.v),
        Err(e) => format!("err:inner{}:{}", e.kind, e.v),
    }
}

/// Readiness behaviour of the inner service (C20); default: always ready, not strict.
#[derive(Clone, Debug, Default)]
pub struct InnerShared {
    pub strict: bool,
    pub next_instance: u64,
    /// scripted readiness answers consumed by successive poll_ready calls: 'r' ready, 'p' pending, 'e' error
    pub ready_script: VecDeque<char>,
    /// recovery (ms of virtual time): after a call an instance answers `Pending` to poll_ready until that much
    /// time has passed since the call (a connection being re-established, a saturated limiter); clones start
    /// recovered. The pending poll registers a timer wake-up. 0 = none.
    pub recover_ms: u64,
    /// the recovery concerns the whole service: after a call on ANY instance EVERY instance (fresh clones too — the
    /// layers leave a fresh clone behind with every call) is pending until `busy_until` (a saturated backend)
    pub recover_all: bool,
    pub busy_until: Option<tokio::time::Instant>,
    /// `Inner::tied()`: the service ties in-flight work to its live handles (a client handle of a shared connection
    /// that shuts down when the last handle goes away): `handles` counts the live `Inner` instances, `inflight` the
    /// unfinished calls (caller, serial); when the last instance is dropped while calls are unfinished,
    /// `inner_orphaned <c> <k>` is logged for each of them (once)
    pub tied: bool,
    pub handles: u64,
    pub inflight: Vec<(usize, u64)>,
}

pub struct Inner {
    pub shared: Arc<Mutex<InnerShared>>,
    pub instance: u64,
    pub ready: bool,
    pub label: &'static str,
    /// running recovery timer of this instance (see `InnerShared::recover_ms`)
    pub recovering: Option<Pin<Box<tokio::time::Sleep>>>,
}
impl Inner {
    pub fn new() -> Inner {
        Inner { shared: Arc::new(Mutex::new(InnerShared::default())), instance: 0, ready: false, label: "", recovering: None }
    }
    pub fn strict(script: &str) -> Inner {
        Inner::strict_rec(script, 0, false)
    }
    /// strict, with a readiness script and a per-instance recovery time after every call
    pub fn strict_rec(script: &str, recover_ms: u64, recover_all: bool) -> Inner {
        let sh = InnerShared { strict: true, next_instance: 1, ready_script: script.chars().collect(), recover_ms, recover_all, busy_until: None, ..Default::default() };
        Inner { shared: Arc::new(Mutex::new(sh)), instance: 0, ready: false, label: "", recovering: None }
    }
    /// in-flight calls notice when the last handle of the service is dropped (see `InnerShared::tied`)
    pub fn tied() -> Inner {
        let i = Inner::new();
        {
            let mut sh = i.shared.lock().unwrap();
            sh.tied = true;
            sh.handles = 1;
        }
        i
    }
    pub fn labelled(label: &'static str) -> Inner {
        let mut i = Inner::new();
        i.label = label;
        i
    }
}
impl Clone for Inner {
    fn clone(&self) -> Inner {
        let mut sh = self.shared.lock().unwrap();
        let id = sh.next_instance;
        sh.next_instance += 1;
        if sh.tied {
            sh.handles += 1;
        }
        Inner { shared: self.shared.clone(), instance: id, ready: false, label: self.label, recovering: None }
    }
}
impl Drop for Inner {
    fn drop(&mut self) {
        let orphans = {
            let mut sh = self.shared.lock().unwrap_or_else(|e| e.into_inner());
            if !sh.tied {
                return;
            }
            sh.handles = sh.handles.saturating_sub(1);
            if sh.handles > 0 {
                return;
            }
            std::mem::take(&mut sh.inflight)
        };
        for (c, k) in orphans {
            log(format!("{}inner_orphaned {} {}", self.label, c, k));
        }
    }
}

pub struct InnerFut {
    sleep: Option<Pin<Box<tokio::time::Sleep>>>,
    c: usize,
    k: u64,
    tag: u64,
    out: Out,
    done: bool,
    label: &'static str,
    /// `Inner::tied()`: where the call is registered as in flight
    tied: Option<Arc<Mutex<InnerShared>>>,
}
impl InnerFut {
    fn no_longer_in_flight(&mut self) {
        if let Some(sh) = self.tied.take() {
            let (c, k) = (self.c, self.k);
            sh.lock().unwrap_or_else(|e| e.into_inner()).inflight.retain(|x| *x != (c, k));
        }
    }
}
impl Future for InnerFut {
    type Output = Result<Resp, IErr>;
    fn poll(mut self: Pin<&mut Self>, cx: &mut Context<'_>) -> Poll<Self::Output> {
        if self.done {
            panic!("inner future polled after completion");
        }
        if self.out == Out::Never {
            run_poll_hooks(self.c);
            return Poll::Pending;
        }
        if self.out == Out::Hog {
            // burn the cooperative budget of the current task poll (bounded, in case there is none)
            for _ in 0..4096 {
                let mut f = Box::pin(tokio::task::consume_budget());
                if f.as_mut().poll(cx).is_pending() {
                    return Poll::Pending;
                }
            }
            return Poll::Pending;
        }
        if let Some(s) = self.sleep.as_mut() {
            if s.as_mut().poll(cx).is_pending() {
                run_poll_hooks(self.c);
                return Poll::Pending;
            }
        }
        self.done = true;
        self.no_longer_in_flight();
        let (c, k, l) = (self.c, self.k, self.label);
        match self.out {
            Out::Ok => {
                log(format!("{}inner_done {} {} ok", l, c, k));
                Poll::Ready(Ok(Resp { v: k, c, tag: self.tag }))
            }
            Out::Err(kind) => {
                log(format!("{}inner_done {} {} err{}", l, c, k, kind));
                Poll::Ready(Err(IErr { kind, v: k }))
            }
            Out::Panic => {
                log(format!("{}inner_done {} {} panic", l, c, k));
                panic!("scripted inner panic");
            }
            Out::Never | Out::Hog => unreachable!(),
        }
    }
}
impl Drop for InnerFut {
    fn drop(&mut self) {
        if !self.done {
            run_drop_hook(self.c);
            log(format!("{}inner_drop {} {}", self.label, self.c, self.k));
        }
        self.no_longer_in_flight();
    }
}

// ------------------------------------------------------------------ requests made from a destructor

/// Makes a request the way `Mw::arrive` does; owns everything it needs (a clone of the service), so that it can
/// be used from inside a destructor.
pub type Requester = std::rc::Rc<dyn Fn(usize, &Kv) -> Option<CallFut>>;

thread_local! {
    /// `manual ondrop c=<c> by=<c2> <arrive words>`: when the unfinished inner future of caller c is destroyed,
    /// request c2 arrives from inside that destructor, before the inner future has released anything
    static DROP_HOOKS: std::cell::RefCell<BTreeMap<usize, (usize, String, Requester)>> = std::cell::RefCell::new(BTreeMap::new());
    /// `manual onpoll c=<c> by=<c2> <arrive words>`: at the next poll of the inner future of caller c that leaves it
    /// pending, request c2 arrives FROM INSIDE THAT POLL (the wrapped service fans out through a clone of the
    /// middleware it sits behind) and is polled once right there; several hooks for one c fire in the order given
    static POLL_HOOKS: std::cell::RefCell<BTreeMap<usize, Vec<(usize, String, Requester)>>> = std::cell::RefCell::new(BTreeMap::new());
    static PARKED: std::cell::RefCell<Vec<(usize, Slot)>> = std::cell::RefCell::new(Vec::new());
    static KNOWN: std::cell::RefCell<std::collections::BTreeSet<usize>> = std::cell::RefCell::new(Default::default());
    static PARKED_KEPT: std::cell::RefCell<Vec<(usize, Slot)>> = std::cell::RefCell::new(Vec::new());
}

fn run_drop_hook(c: usize) {
    let job = DROP_HOOKS.with(|h| h.borrow_mut().remove(&c));
    let Some((c2, words, req)) = job else { return };
    if KNOWN.with(|k| !k.borrow_mut().insert(c2)) {
        return;
    }
    log_raw(format!("#ondrop {} {}", c, c2));
    // for the model the request arrives, and is polled once, just BEFORE the operation that destroys the inner
    // call: the call is still in flight while it is being torn down, so whatever it holds (a slot, a key, a trial)
    // is still held
    ann_push_plain(&format!("arrive {} {}", c2, words));
    let ws: Vec<&str> = words.split_whitespace().collect();
    let kv = Kv::parse(&ws);
    let Some(f) = req(c2, &kv) else { return };
    ann_push_plain(&format!("poll {}", c2));
    let ann_ix = ANN.lock().unwrap_or_else(|e| e.into_inner()).len() - 1;
    let obs_from = OBS.lock().unwrap_or_else(|e| e.into_inner()).len();
    let mut slot = Slot { fut: f, flag: Arc::new(Flag::new(false)), polled: true, keep: kv.u64("keep", 0) == 1, coop: false, burn: false };
    log_raw(format!("#fp {} {}", c2, now_ms()));
    let waker = Waker::from(slot.flag.clone());
    let mut cx = Context::from_waker(&waker);
    // the same step semantics as `Callers::poll`: a future that wakes itself while being polled is polled again
    let flag = slot.flag.clone();
    let polled = catch_unwind(AssertUnwindSafe(|| {
        let mut rounds = 0;
        loop {
            flag.0.store(false, Ordering::SeqCst);
            match poll_slot(&mut slot.fut, &mut cx, false) {
                Poll::Ready(v) => return Poll::Ready(v),
                Poll::Pending => {
                    rounds += 1;
                    if !flag.0.load(Ordering::SeqCst) || rounds >= SELF_WAKE_ROUNDS {
                        return Poll::Pending;
                    }
                }
            }
        }
    }));
    ann_attach_obs(ann_ix, obs_from);
    // requests nested in the poll of c2 (`manual onpoll`) come right after its `poll c2` line
    ann_flush_late();
    match polled {
        Ok(Poll::Pending) => PARKED.with(|p| p.borrow_mut().push((c2, slot))),
        Ok(Poll::Ready(v)) => {
            drop(slot);
            log(format!("result {} {}", c2, v));
        }
        Err(_) => {
            log(format!("result {} panic", c2));
            let _ = catch_unwind(AssertUnwindSafe(move || drop(slot)));
        }
    }
}

/// Requests made by the wrapped service itself while the inner call of caller `c` is being polled (`manual onpoll`).
/// The inner future has looked at its own state first (`join!(own_work, child_1, child_2, …)` polls in that order) and is
/// going to stay pending: each armed request arrives through the adapter's `requester()` — a clone of the very
/// middleware the inner call sits behind — and is polled once, here, inside the poll of its parent (and of whatever
/// the middleware wraps around that poll). Afterwards its future is handed to the top-level poller (as if the parent
/// had put it into a `FuturesUnordered` owned elsewhere). For the model the nested request is an ordinary one:
/// `arrive c2 …`, `poll c2` right AFTER the operation that polled the parent (whose own events all precede it).
fn run_poll_hooks(c: usize) {
    let jobs = POLL_HOOKS.with(|h| h.borrow_mut().remove(&c));
    let Some(jobs) = jobs else { return };
    for (c2, words, req) in jobs {
        if KNOWN.with(|k| !k.borrow_mut().insert(c2)) {
            continue;
        }
        log_raw(format!("#onpoll {} {}", c, c2));
        let ws: Vec<&str> = words.split_whitespace().collect();
        let kv = Kv::parse(&ws);
        let late_ix = {
            let mut late = ANN_LATE.lock().unwrap_or_else(|e| e.into_inner());
            late.push(format!("arrive {} {}", c2, words));
            late.len()
        };
        let Some(f) = req(c2, &kv) else { continue };
        // both lines are in place before the poll: what the nested request does to requests nested in IT comes after
        ANN_LATE.lock().unwrap_or_else(|e| e.into_inner()).push(format!("poll {}", c2));
        let obs_from = OBS.lock().unwrap_or_else(|e| e.into_inner()).len();
        let mut slot = Slot { fut: f, flag: Arc::new(Flag::new(false)), polled: true, keep: kv.u64("keep", 0) == 1, coop: false, burn: false };
        log_raw(format!("#fp {} {}", c2, now_ms()));
        let waker = Waker::from(slot.flag.clone());
        let mut cx = Context::from_waker(&waker);
        let flag = slot.flag.clone();
        let polled = catch_unwind(AssertUnwindSafe(|| {
            let mut rounds = 0;
            loop {
                flag.0.store(false, Ordering::SeqCst);
                match poll_slot(&mut slot.fut, &mut cx, false) {
                    Poll::Ready(v) => return Poll::Ready(v),
                    Poll::Pending => {
                        rounds += 1;
                        if !flag.0.load(Ordering::SeqCst) || rounds >= SELF_WAKE_ROUNDS {
                            return Poll::Pending;
                        }
                    }
                }
            }
        }));
        {
            // choices observed during the nested poll belong to its own line
            let mut o = OBS.lock().unwrap_or_else(|e| e.into_inner());
            if obs_from < o.len() {
                let mine: Vec<String> = o.split_off(obs_from);
                drop(o);
                let mut late = ANN_LATE.lock().unwrap_or_else(|e| e.into_inner());
                if let Some(l) = late.get_mut(late_ix) {
                    for x in mine {
                        l.push(' ');
                        l.push_str(&x);
                    }
                }
            }
        }
        match polled {
            Ok(Poll::Pending) => {
                log_raw(format!("#pollend {} {} pending", c2, now_ms()));
                PARKED.with(|p| p.borrow_mut().push((c2, slot)))
            }
            Ok(Poll::Ready(v)) => {
                if slot.keep {
                    // (a kept nested future: released with its caller id like any other)
                    PARKED_KEPT.with(|p| p.borrow_mut().push((c2, slot)));
                } else {
                    drop(slot);
                }
                log(format!("result {} {}", c2, v));
            }
            Err(_) => {
                log(format!("result {} panic", c2));
                let _ = catch_unwind(AssertUnwindSafe(move || drop(slot)));
            }
        }
    }
}

impl tower::Service<Req> for Inner {
    type Response = Resp;
    type Error = IErr;
    type Future = InnerFut;
    fn poll_ready(&mut self, _cx: &mut Context<'_>) -> Poll<Result<(), IErr>> {
        if let Some(s) = self.recovering.as_mut() {
            // still recovering from the previous call: pending for a stretch of virtual time (timer wake-up)
            if s.as_mut().poll(_cx).is_pending() {
                return Poll::Pending;
            }
            self.recovering = None;
        }
        let mut sh = self.shared.lock().unwrap();
        if let Some(t) = sh.busy_until {
            if tokio::time::Instant::now() < t {
                drop(sh);
                let mut s = Box::pin(tokio::time::sleep_until(t));
                let _ = s.as_mut().poll(_cx);
                self.recovering = Some(s);
                return Poll::Pending;
            }
        }
        // (a readiness script may also be installed on a non-strict inner service: `InnerShared::ready_script` pushed by
        // the adapter just before it polls a handle ready — the plain `inner_call c k` log format is kept)
        if sh.strict || !sh.ready_script.is_empty() {
            match sh.ready_script.pop_front() {
                Some('p') => {
                    // pending: the harness polls again by itself (no waker needed; callers re-poll)
                    _cx.waker().wake_by_ref();
                    return Poll::Pending;
                }
                Some('e') => {
                    return Poll::Ready(Err(IErr { kind: 9, v: 0 }));
                }
                _ => {}
            }
        }
        drop(sh);
        self.ready = true;
        Poll::Ready(Ok(()))
    }
    fn call(&mut self, req: Req) -> InnerFut {
        let k = next_serial();
        let step = req.plan.lock().unwrap().pop_front().unwrap_or(Step { lat: 0, out: Out::Ok });
        let (strict, rec, tied) = {
            let mut sh = self.shared.lock().unwrap();
            if sh.recover_ms > 0 && sh.recover_all {
                sh.busy_until = Some(tokio::time::Instant::now() + Duration::from_millis(sh.recover_ms));
            }
            if sh.tied {
                sh.inflight.push((req.c, k));
            }
            (sh.strict, if sh.recover_all { 0 } else { sh.recover_ms }, sh.tied)
        };
        if rec > 0 {
            self.recovering = Some(Box::pin(tokio::time::sleep(Duration::from_millis(rec))));
        }
        if strict {
            log(format!("{}inner_call {} {} tag={} ready={}", self.label, req.c, k, req.tag, self.ready as u8));
        } else {
            log(format!("{}inner_call {} {}", self.label, req.c, k));
        }
        self.ready = false;
        let sleep = if step.lat > 0 { Some(Box::pin(tokio::time::sleep(Duration::from_millis(step.lat)))) } else { None };
        InnerFut { sleep, c: req.c, k, tag: req.tag, out: step.out, done: false, label: self.label, tied: if tied { Some(self.shared.clone()) } else { None } }
    }
}

// ------------------------------------------------------------------ manual poller

pub struct Flag(pub AtomicBool, pub Mutex<Vec<u64>>);
impl Flag {
    pub fn new(init: bool) -> Flag {
        Flag(AtomicBool::new(init), Mutex::new(Vec::new()))
    }
    fn fire(&self) {
        self.0.store(true, Ordering::SeqCst);
        let mut v = self.1.lock().unwrap_or_else(|e| e.into_inner());
        let t = now_ms();
        if v.last() != Some(&t) {
            v.push(t);
        }
    }
}
impl Wake for Flag {
    fn wake(self: Arc<Self>) {
        self.fire();
    }
    fn wake_by_ref(self: &Arc<Self>) {
        self.fire();
    }
}

pub type CallFut = Pin<Box<dyn Future<Output = String>>>;

/// how many times one `poll` step re-polls a future that woke itself during the poll
pub const SELF_WAKE_ROUNDS: usize = 8;

/// The middleware's call future, held (not dropped) after it has resolved: it lives until the caller's
/// slot is dropped — at once by default, or at a later `release` op when the caller keeps finished futures.
pub struct Held<F: Future> {
    fut: Pin<Box<F>>,
    render: fn(F::Output) -> String,
    done: bool,
}
impl<F: Future> Future for Held<F> {
    type Output = String;
    fn poll(mut self: Pin<&mut Self>, cx: &mut Context<'_>) -> Poll<String> {
        if self.done {
            panic!("call future polled after completion");
        }
        match self.fut.as_mut().poll(cx) {
            Poll::Ready(v) => {
                self.done = true;
                Poll::Ready((self.render)(v))
            }
            Poll::Pending => Poll::Pending,
        }
    }
}
pub fn held<F: Future + 'static>(fut: F, render: fn(F::Output) -> String) -> CallFut {
    Box::pin(Held { fut: Box::pin(fut), render, done: false })
}

/// `arrive … unwind=1`: the call future is OWNED BY THE FRAME THAT POLLS IT, the way a spawned task's future is owned
/// by the runtime's poll frame, an `async` block's awaited future by that block, a `select!`/`join!` arm by the
/// macro's future: when its own `poll` panics it is destroyed WHILE THAT PANIC IS UNWINDING
/// (`std::thread::panicking()` is true inside its destructors). Without the option (`Held` in a `Slot`) the panic is
/// caught around the `poll` call alone and the future is destroyed afterwards, when the thread is no longer
/// panicking (`catch_unwind(|| fut.poll(cx))`, `FutureExt::catch_unwind`, a hand-written executor). Both are
/// legitimate callers; a middleware must clean up after a panicking poll in both.
pub struct OwnedByFrame {
    fut: Option<CallFut>,
}
impl Future for OwnedByFrame {
    type Output = String;
    fn poll(mut self: Pin<&mut Self>, cx: &mut Context<'_>) -> Poll<String> {
        // moved into this frame for the duration of the poll: an unwinding poll destroys it on its way out
        let mut f = self.fut.take().expect("call future polled after its poll panicked");
        let r = f.as_mut().poll(cx);
        self.fut = Some(f);
        r
    }
}
pub fn owned_by_frame(fut: CallFut) -> CallFut {
    Box::pin(OwnedByFrame { fut: Some(fut) })
}

struct Slot {
    fut: CallFut,
    flag: Arc<Flag>,
    polled: bool,
    /// keep the future alive after it has resolved, until a `release` op (a caller that holds a finished
    /// future, e.g. a pinned future in a select loop)
    keep: bool,
    /// poll under tokio's cooperative budget instead of unconstrained
    coop: bool,
    /// the first poll happens in a task poll whose cooperative budget is already used up (a caller that did
    /// 128 other things first); it is followed at once, in the same step, by an ordinary poll
    burn: bool,
}

/// Use up what is left of the cooperative budget of the current task poll.
fn burn_budget(cx: &mut Context<'_>) {
    for _ in 0..4096 {
        let mut f = Box::pin(tokio::task::consume_budget());
        if f.as_mut().poll(cx).is_pending() {
            return;
        }
    }
}

fn poll_slot(fut: &mut CallFut, cx: &mut Context<'_>, coop: bool) -> Poll<String> {
    if coop {
        fut.as_mut().poll(cx)
    } else {
        let mut u = tokio::task::unconstrained(std::future::poll_fn(|cx| fut.as_mut().poll(cx)));
        Pin::new(&mut u).poll(cx)
    }
}

#[derive(Default)]
pub struct Callers {
    slots: BTreeMap<usize, Slot>,
    kept: BTreeMap<usize, Slot>,
    pub seen: std::collections::BTreeSet<usize>,
    /// callers that made progress on a re-poll although their waker had not fired since the previous poll
    pub unwoken_progress: u64,
}

pub fn noop_cx_poll<F: Future + Unpin>(f: &mut F) -> Poll<F::Output> {
    let w = Waker::from(Arc::new(Flag::new(false)));
    let mut cx = Context::from_waker(&w);
    Pin::new(f).poll(&mut cx)
}
pub fn poll_ready_once<S: tower::Service<R>, R>(s: &mut S) -> Poll<Result<(), S::Error>> {
    let w = Waker::from(Arc::new(Flag::new(false)));
    let mut cx = Context::from_waker(&w);
    s.poll_ready(&mut cx)
}

impl Callers {
    pub fn new() -> Callers {
        Callers::default()
    }
    pub fn is_live(&self, c: usize) -> bool {
        self.slots.contains_key(&c)
    }
    pub fn live(&self) -> Vec<usize> {
        self.slots.keys().cloned().collect()
    }
    pub fn insert(&mut self, c: usize, fut: CallFut) {
        self.insert_opts(c, fut, false, false)
    }
    /// `coop`: poll under tokio's cooperative budget (default: unconstrained, so that the budget of the
    /// harness's own task never makes a resource spuriously pending)
    pub fn insert_opts(&mut self, c: usize, fut: CallFut, keep: bool, coop: bool) {
        self.insert_full(c, fut, keep, coop, false)
    }
    pub fn insert_full(&mut self, c: usize, fut: CallFut, keep: bool, coop: bool, burn: bool) {
        self.seen.insert(c);
        self.slots.insert(c, Slot { fut, flag: Arc::new(Flag::new(true)), polled: false, keep, coop, burn });
    }
    pub fn release(&mut self, c: usize) {
        if let Some(slot) = self.kept.remove(&c) {
            log_raw(format!("#release {} {}", c, now_ms()));
            let _ = catch_unwind(AssertUnwindSafe(move || drop(slot)));
        }
    }
    pub fn release_all(&mut self) {
        let ks: Vec<usize> = self.kept.keys().cloned().collect();
        for c in ks {
            self.release(c);
        }
    }
    /// Poll caller `c` once. Logs `result c …` when it resolves (or panics).
    pub fn poll(&mut self, c: usize) -> bool {
        let Some(slot) = self.slots.get_mut(&c) else { return false };
        let woken = slot.flag.0.swap(false, Ordering::SeqCst);
        // wake-up instants since the previous poll step, then those of this step's self-wakes (cumulative)
        let mut step_wakes: Vec<u64> = Vec::new();
        if !slot.polled {
            log_raw(format!("#fp {} {}", c, now_ms()));
        } else {
            let w: Vec<u64> = std::mem::take(&mut *slot.flag.1.lock().unwrap_or_else(|e| e.into_inner()));
            if !w.is_empty() {
                let ws: Vec<String> = w.iter().map(|x| x.to_string()).collect();
                log_raw(format!("#wake {} {}", c, ws.join(",")));
            }
            step_wakes = w;
        }
        let before = log_len();
        let waker = Waker::from(slot.flag.clone());
        let mut cx = Context::from_waker(&waker);
        let (coop, burn_now) = (slot.coop, slot.burn && !slot.polled);
        let flag = slot.flag.clone();
        let r = catch_unwind(AssertUnwindSafe(|| {
            if burn_now {
                burn_budget(&mut cx);
                if let Poll::Ready(v) = slot.fut.as_mut().poll(&mut cx) {
                    return Poll::Ready(v);
                }
            }
            // A future that wakes itself while it is being polled (yield_now, an exhausted cooperative budget) is
            // polled again by an executor without any time passing: one `poll` step runs it until it is pending
            // without having woken itself (bounded: a future that always wakes itself stays pending).
            let mut rounds = 0;
            loop {
                flag.0.store(false, Ordering::SeqCst);
                match poll_slot(&mut slot.fut, &mut cx, coop) {
                    Poll::Ready(v) => return Poll::Ready(v),
                    Poll::Pending => {
                        rounds += 1;
                        if !flag.0.load(Ordering::SeqCst) || rounds >= SELF_WAKE_ROUNDS {
                            return Poll::Pending;
                        }
                        let w: Vec<u64> = std::mem::take(&mut *flag.1.lock().unwrap_or_else(|e| e.into_inner()));
                        step_wakes.extend(w);
                        let ws: Vec<String> = step_wakes.iter().map(|x| x.to_string()).collect();
                        log_raw(format!("#wake {} {}", c, ws.join(",")));
                    }
                }
            }
        }));
        let was_polled = slot.polled;
        slot.polled = true;
        let _ = was_polled;
        let progressed;
        match r {
            Ok(Poll::Pending) => {
                progressed = log_len() != before;
                // meta: the caller was polled (to quiescence) at this instant and is still pending
                log_raw(format!("#pollend {} {} pending", c, now_ms()));
            }
            Ok(Poll::Ready(s)) => {
                progressed = true;
                // drop the future before logging the result: its drop glue belongs to this step
                let slot = self.slots.remove(&c).unwrap();
                if slot.keep {
                    self.kept.insert(c, slot);
                } else {
                    drop(slot);
                }
                log(format!("result {} {}", c, s));
            }
            Err(_) => {
                progressed = true;
                log(format!("result {} panic", c));
                let slot = self.slots.remove(&c).unwrap();
                let _ = catch_unwind(AssertUnwindSafe(move || drop(slot)));
            }
        }
        if progressed && was_polled && !woken {
            self.unwoken_progress += 1;
        }
        progressed
    }
    pub fn drop_caller(&mut self, c: usize) -> bool {
        self.drop_caller_opts(c, false)
    }
    /// `unwinding` (`drop c unwind=1`): the unfinished future goes away because the task / frame that owns it panics
    /// for a reason of its own — it is destroyed while that panic unwinds (`std::thread::panicking()` is true in its
    /// destructors), not by an orderly `drop`. For the middleware it is a cancellation like any other.
    pub fn drop_caller_opts(&mut self, c: usize, unwinding: bool) -> bool {
        if let Some(slot) = self.slots.remove(&c) {
            log_raw(format!("#drop {} {}{}", c, now_ms(), if unwinding { " unwinding" } else { "" }));
            let _ = catch_unwind(AssertUnwindSafe(move || {
                let owned = slot;
                if unwinding {
                    panic!("the owner of the call future panics");
                }
                drop(owned)
            }));
            true
        } else {
            false
        }
    }
}

// ------------------------------------------------------------------ generic case loop

pub trait Mw {
    /// Create the call future of caller `c` (the way a real caller does: clone/poll_ready/call).
    /// `None` when the request was refused before a future existed (the adapter logs why).
    fn arrive(&mut self, c: usize, kv: &Kv) -> Option<CallFut>;
    fn probe(&mut self, _what: &str, _kv: &Kv) {}
    fn manual(&mut self, _what: &str, _kv: &Kv) {}
    /// number of `yield_now` rounds after every operation (for middleware that spawns tasks)
    fn yields(&self) -> usize {
        0
    }
    /// a self-contained way of making a request (for `manual ondrop`); `None`: not supported by this adapter
    fn requester(&self) -> Option<Requester> {
        None
    }
}

pub async fn run_ops(mw: &mut dyn Mw, ops: &[String]) {
    let mut callers = Callers::new();
    let y = mw.yields();
    DROP_HOOKS.with(|h| h.borrow_mut().clear());
    POLL_HOOKS.with(|h| h.borrow_mut().clear());
    PARKED.with(|p| p.borrow_mut().clear());
    PARKED_KEPT.with(|p| p.borrow_mut().clear());
    KNOWN.with(|k| k.borrow_mut().clear());
    for (opi, line) in ops.iter().enumerate() {
        let words: Vec<&str> = line.split_whitespace().collect();
        if words.is_empty() {
            continue;
        }
        watch_op(opi, line);
        let arg_c = words.get(1).and_then(|w| w.parse::<usize>().ok());
        match words[0] {
            "arrive" => {
                if let Some(c) = arg_c {
                    if callers.seen.contains(&c) || KNOWN.with(|k| k.borrow().contains(&c)) {
                        log_raw("noop".into());
                    } else {
                        callers.seen.insert(c);
                        KNOWN.with(|k| k.borrow_mut().insert(c));
                        let kv = Kv::parse(&words[2..]);
                        if let Some(f) = mw.arrive(c, &kv) {
                            let f = if kv.u64("unwind", 0) == 1 { owned_by_frame(f) } else { f };
                            callers.insert_full(c, f, kv.u64("keep", 0) == 1, kv.u64("coop", 0) == 1, kv.u64("burn", 0) == 1);
                        }
                    }
                }
            }
            "poll" => {
                if let Some(c) = arg_c {
                    if callers.is_live(c) {
                        callers.poll(c);
                    } else {
                        log_raw("noop".into());
                    }
                }
            }
            "drop" => {
                if let Some(c) = arg_c {
                    if !callers.drop_caller_opts(c, Kv::parse(&words[2..]).u64("unwind", 0) == 1) {
                        log_raw("noop".into());
                    }
                }
            }
            "release" => {
                if let Some(c) = arg_c {
                    callers.release(c);
                }
            }
            "dropall" => {
                for c in callers.live() {
                    callers.drop_caller(c);
                    yields(y).await;
                    ann_push(&format!("drop {}", c));
                }
            }
            "adv" => {
                let ms = arg_c.unwrap_or(0) as u64;
                advance(ms, y).await;
            }
            "settle" => {
                let mut passes = 0;
                loop {
                    let before = log_len();
                    for c in callers.live() {
                        callers.poll(c);
                        yields(y).await;
                        ann_push(&format!("poll {}", c));
                    }
                    passes += 1;
                    if (log_len() == before && passes >= 2) || passes >= 64 {
                        break;
                    }
                }
            }
            "probe" => {
                let kv = Kv::parse(&words[1..]);
                mw.probe(words.get(1).cloned().unwrap_or(""), &kv);
            }
            "manual" if words.get(1) == Some(&"ondrop") && mw.requester().is_some() => {
                // (an adapter without `requester()` may implement `manual ondrop` itself: mw_coalesce.rs)
                let kv = Kv::parse(&words[2..]);
                if let (Some(c), Some(c2), Some(r)) = (kv.opt_u64("c"), kv.opt_u64("by"), mw.requester()) {
                    let rest: Vec<&str> = words[2..].iter().cloned().filter(|w| !w.starts_with("c=") && !w.starts_with("by=")).collect();
                    DROP_HOOKS.with(|h| h.borrow_mut().insert(c as usize, (c2 as usize, rest.join(" "), r)));
                }
            }
            "manual" if words.get(1) == Some(&"onpoll") && mw.requester().is_some() => {
                let kv = Kv::parse(&words[2..]);
                if let (Some(c), Some(c2), Some(r)) = (kv.opt_u64("c"), kv.opt_u64("by"), mw.requester()) {
                    let rest: Vec<&str> = words[2..].iter().cloned().filter(|w| !w.starts_with("c=") && !w.starts_with("by=")).collect();
                    POLL_HOOKS.with(|h| h.borrow_mut().entry(c as usize).or_default().push((c2 as usize, rest.join(" "), r)));
                }
            }
            "manual" => {
                if words.get(1) == Some(&"dropsvc") {
                    // an armed destructor hook owns a service handle: "every handle dropped" disarms it
                    DROP_HOOKS.with(|h| h.borrow_mut().clear());
                    POLL_HOOKS.with(|h| h.borrow_mut().clear());
                }
                let kv = Kv::parse(&words[1..]);
                mw.manual(words.get(1).cloned().unwrap_or(""), &kv);
            }
            _ => {}
        }
        // requests made from inside a destructor during this operation: their futures join the callers
        let parked: Vec<(usize, Slot)> = PARKED.with(|p| std::mem::take(&mut *p.borrow_mut()));
        for (c2, slot) in parked {
            callers.seen.insert(c2);
            callers.slots.insert(c2, slot);
        }
        let kept: Vec<(usize, Slot)> = PARKED_KEPT.with(|p| std::mem::take(&mut *p.borrow_mut()));
        for (c2, slot) in kept {
            callers.seen.insert(c2);
            callers.kept.insert(c2, slot);
        }
        yields(y.max(1)).await;
        if words[0] != "settle" && words[0] != "dropall" {
            ann_push(line.trim());
        }
    }
    DROP_HOOKS.with(|h| h.borrow_mut().clear());
    POLL_HOOKS.with(|h| h.borrow_mut().clear());
    // end of case: drop whatever is still alive, in ascending id (events of the tear-down are not compared)
    log_raw("end".into());
    let live = callers.live();
    for c in live {
        callers.drop_caller(c);
    }
    callers.release_all();
    if callers.unwoken_progress > 0 {
        log_raw(format!("#unwoken_progress {}", callers.unwoken_progress));
    }
}
