//! C12: the real `HedgeLayer` over the scripted inner service.
//!
//! header: `hedge max=<n> d=<ms> [ds=<ms>,<ms>,…] [kind=fixed|imm|fn] [unit=ms|us]`
//!   kind=fixed : `.delay(d)`                      (also the default when no kind is given)
//!   kind=imm   : `.no_delay()`
//!   kind=fn    : `.delay_fn(|n| ds[n-1] or d beyond the list)`   (n is 1-indexed, as in the crate)
//!   unit=us    : `d` and `ds` are microseconds (`Duration::from_micros`); default milliseconds
//!   `d` and every entry of `ds` may also be a duration that no `Instant` can be moved by, whatever the unit:
//!   `max` = `Duration::MAX`, `smax` = `Duration::from_secs(u64::MAX)`, `hmax` = `Duration::from_secs(1 << 63)`
//!   (tokio's `sleep` saturates such a deadline: the timer is never due)
//! arrive: `warm=<ms|never>,…` — readiness of the *fresh clones* of the inner service made for this request:
//!   the i-th fresh clone (i ≥ 1) whose readiness is polled reports `Pending` until `warm[i-1]` ms after its
//!   first `poll_ready` (`never`: for ever, no wake-up); beyond the list (and without `warm=`) clones are ready
//!   at once and nothing is logged. A listed clone logs `inner_warm <c> <i> <w>` at its first readiness poll.
//!   The instance the adapter itself polls ready and calls (the primary's) is always ready.
//! Attempts are spawned tasks; the `Obs` wrapper around `world::Inner` reports the order in which
//! attempts that were waiting on their timer complete (`@done=<serial>` on the op line): that order
//! is decided by tokio's timer wheel / run queue, and the model takes it as an observed choice.
use crate::world::*;
use std::future::Future;
use std::pin::Pin;
use std::collections::{BTreeMap, VecDeque};
use std::sync::atomic::{AtomicU64, Ordering};
use std::sync::{Arc, Mutex};
use std::task::{Context, Poll};
use std::time::Duration;
use tower::{Layer, Service};
use tower_resilience_hedge::{Hedge, HedgeError, HedgeLayer};

/// What the clones of one case share: the serial counter and the readiness plans of the requests.
#[derive(Default)]
pub struct Shared {
    /// number of inner calls made so far in this case = serial of the next one (the adapter is
    /// created per case and every inner call goes through this wrapper)
    calls: AtomicU64,
    /// request on whose behalf the adapter is cloning the layer right now (inherited by clones of that clone)
    cur: Mutex<Option<usize>>,
    /// per request: remaining warm-up plan (`None` = never ready) and number of fresh clones polled so far;
    /// registered by the adapter after it has driven the primary's instance itself
    warm: Mutex<BTreeMap<usize, (VecDeque<Option<u64>>, usize)>>,
    /// per request: serial of its first attempt that completed successfully
    first_ok: Mutex<BTreeMap<usize, u64>>,
}

enum Warm {
    /// readiness not polled yet
    Fresh,
    Warming(Pin<Box<tokio::time::Sleep>>),
    Never,
    Ready,
}

/// Wrapper around `world::Inner`: same calls, same results; reports timer-driven completions and gives
/// fresh clones the scripted readiness.
pub struct Obs {
    inner: Inner,
    sh: Arc<Shared>,
    req: Option<usize>,
    st: Warm,
    /// attempt number of this instance (0: the instance the adapter drove, i: the i-th fresh clone polled)
    att: usize,
    /// became ready by waiting on its warm-up timer
    waited: bool,
}
impl Clone for Obs {
    fn clone(&self) -> Obs {
        let req = self.req.or(*self.sh.cur.lock().unwrap());
        Obs { inner: self.inner.clone(), sh: self.sh.clone(), req, st: Warm::Fresh, att: 0, waited: false }
    }
}
pub struct ObsFut {
    f: InnerFut,
    k: u64,
    was_pending: bool,
    sh: Arc<Shared>,
}
impl Future for ObsFut {
    type Output = Result<Resp, IErr>;
    fn poll(mut self: Pin<&mut Self>, cx: &mut Context<'_>) -> Poll<Self::Output> {
        let k = self.k;
        let was_pending = self.was_pending;
        let r = std::panic::catch_unwind(std::panic::AssertUnwindSafe(|| Pin::new(&mut self.f).poll(cx)));
        match r {
            Ok(Poll::Pending) => {
                self.was_pending = true;
                Poll::Pending
            }
            Ok(Poll::Ready(x)) => {
                if was_pending {
                    obs("done", k);
                }
                if let Ok(r) = &x {
                    self.sh.first_ok.lock().unwrap().entry(r.c).or_insert(k);
                }
                Poll::Ready(x)
            }
            Err(p) => {
                if was_pending {
                    obs("done", k);
                }
                std::panic::resume_unwind(p)
            }
        }
    }
}
impl Service<Req> for Obs {
    type Response = Resp;
    type Error = IErr;
    type Future = ObsFut;
    fn poll_ready(&mut self, cx: &mut Context<'_>) -> Poll<Result<(), IErr>> {
        if let Warm::Fresh = self.st {
            self.st = Warm::Ready;
            if let Some(c) = self.req {
                let mut plans = self.sh.warm.lock().unwrap();
                if let Some((plan, n)) = plans.get_mut(&c) {
                    *n += 1;
                    self.att = *n;
                    match plan.pop_front() {
                        None => {}
                        Some(w) => {
                            let ws = w.map(|x| x.to_string()).unwrap_or_else(|| "never".into());
                            log(format!("inner_warm {} {} {}", c, self.att, ws));
                            match w {
                                Some(0) => {}
                                Some(ms) => self.st = Warm::Warming(Box::pin(tokio::time::sleep(Duration::from_millis(ms)))),
                                None => self.st = Warm::Never,
                            }
                        }
                    }
                }
            }
        }
        match &mut self.st {
            Warm::Never => return Poll::Pending,
            Warm::Warming(s) => {
                if s.as_mut().poll(cx).is_pending() {
                    return Poll::Pending;
                }
                self.st = Warm::Ready;
                self.waited = true;
            }
            _ => {}
        }
        self.inner.poll_ready(cx)
    }
    fn call(&mut self, req: Req) -> ObsFut {
        let k = self.sh.calls.fetch_add(1, Ordering::SeqCst);
        if self.waited {
            // an attempt whose clone became ready on its timer: when it calls is the runtime's choice
            obs("rdy", format!("{}:{}", req.c, self.att));
            self.waited = false;
        }
        log_raw(format!("#att {} {} {}", req.c, k, self.att));
        let f = self.inner.call(req);
        ObsFut { f, k, was_pending: false, sh: self.sh.clone() }
    }
}

/// The call future as the caller holds it. A poll by the caller that leaves the call pending although one of
/// its attempts had already completed successfully before that poll is recorded: `#held <c> <t> <serial>`
/// (nothing is recorded otherwise, so the marker never counts as progress of a healthy call).
struct Polled<F> {
    f: Pin<Box<F>>,
    c: usize,
    sh: Arc<Shared>,
}
impl<F: Future> Future for Polled<F> {
    type Output = F::Output;
    fn poll(mut self: Pin<&mut Self>, cx: &mut Context<'_>) -> Poll<F::Output> {
        let avail = self.sh.first_ok.lock().unwrap().get(&self.c).cloned();
        let r = self.f.as_mut().poll(cx);
        if let (Some(k), true) = (avail, r.is_pending()) {
            log_raw(format!("#held {} {} {}", self.c, now_ms(), k));
        }
        r
    }
}

pub struct Adapter {
    svc: Hedge<Obs>,
    sh: Arc<Shared>,
}

impl Adapter {
    pub fn new(kv: &Kv) -> Adapter {
        let max = kv.u64("max", 2) as usize;
        let us = kv.str("unit", "ms") == "us";
        let dur = move |x: &str| -> Option<Duration> {
            match x {
                "max" => Some(Duration::MAX),
                "smax" => Some(Duration::from_secs(u64::MAX)),
                "hmax" => Some(Duration::from_secs(1 << 63)),
                _ => x.parse::<u64>().ok().map(|v| if us { Duration::from_micros(v) } else { Duration::from_millis(v) }),
            }
        };
        let d = dur(&kv.str("d", "0")).unwrap_or(Duration::ZERO);
        let ds: Vec<Duration> = kv
            .get("ds")
            .map(|s| s.split(',').filter_map(|x| dur(x)).collect())
            .unwrap_or_default();
        let b = HedgeLayer::builder().max_hedged_attempts(max);
        let b = match kv.str("kind", "fixed").as_str() {
            "imm" => b.no_delay(),
            "fn" => b.delay_fn(move |n| if n >= 1 && n - 1 < ds.len() { ds[n - 1] } else { d }),
            _ => b.delay(d),
        };
        let layer = b.build();
        let sh = Arc::new(Shared::default());
        let obs = Obs { inner: Inner::new(), sh: sh.clone(), req: None, st: Warm::Fresh, att: 0, waited: false };
        Adapter { svc: layer.layer(obs), sh }
    }
}

pub fn render(r: Result<Resp, HedgeError<IErr>>) -> String {
    match r {
        Ok(x) => format!("ok:{}", x.v),
        Err(HedgeError::AllAttemptsFailed(e)) => format!("err:all_failed:inner{}:{}", e.kind, e.v),
        Err(HedgeError::Inner(e)) => format!("err:inner{}:{}", e.kind, e.v),
    }
}

impl Mw for Adapter {
    fn arrive(&mut self, c: usize, kv: &Kv) -> Option<CallFut> {
        *self.sh.cur.lock().unwrap() = Some(c);
        let mut svc = self.svc.clone();
        *self.sh.cur.lock().unwrap() = None;
        let req = Req::new(c, kv);
        match poll_ready_once(&mut svc) {
            Poll::Ready(Ok(())) => {}
            _ => {
                log(format!("result {} notready", c));
                return None;
            }
        }
        let fut = svc.call(req);
        // from here on the fresh clones made for this request follow its readiness plan
        let plan: VecDeque<Option<u64>> = kv
            .get("warm")
            .map(|s| s.split(',').filter(|x| !x.is_empty()).map(|x| x.parse().ok()).collect())
            .unwrap_or_default();
        self.sh.warm.lock().unwrap().insert(c, (plan, 0));
        Some(held(Polled { f: Box::pin(fut), c, sh: self.sh.clone() }, render))
    }
    fn yields(&self) -> usize {
        8
    }
}
