//! C12: the real `HedgeLayer` over the scripted inner service.
//!
//! header: `hedge max=<n> d=<ms> [ds=<ms>,<ms>,…] [kind=fixed|imm|fn] [unit=ms|us]`
//!   kind=fixed : `.delay(d)`                      (also the default when no kind is given)
//!   kind=imm   : `.no_delay()`
//!   kind=fn    : `.delay_fn(|n| ds[n-1] or d beyond the list)`   (n is 1-indexed, as in the crate)
//!   unit=us    : `d` and `ds` are microseconds (`Duration::from_micros`); default milliseconds
//!   `d` and every entry of `ds` may also be a duration that no `Instant` can be moved by, whatever the unit:
//!   `max` = `Duration::MAX`, `smax` = `Duration::from_secs(u64::MAX)`, `hmax` = `Duration::from_secs(1 << 63)`
//!   (tokio's `sleep` saturates such a deadline: the timer is never due)
//!   `max=0` is passed to the builder as it is (the builder documents a clamp to at least 1); `max=dflt`: the setter is
//!   not called (default 2); `d=dflt`: one second, and with kind=fixed `.delay(..)` is not called (the default)
//! construction paths: `via=builder` (default) `HedgeLayer::builder()…build()`; `via=dflt` the same through
//!   `HedgeConfigBuilder::default()`; `via=new` the shortcut `HedgeLayer::new(d)` (max/kind/name/listen do not apply);
//!   `via=direct` no layer at all: `Hedge::new(inner, HedgeConfig::default())`
//!   `name=<s>` `.name(s)` as the last setter (`nameat=first`: as the first one); `listen=1` `.on_event(..)`: the
//!   listener writes `#ev <event_type> <pattern_name>` meta lines (not compared with the model)
//! arrive: which handle makes the call —
//!   `svc=<k>` the k-th service built (lazily, on first use) from the ONE layer value, `lc=1`: from a clone of the layer
//!   taken at that moment; without `h=` the call is made on a fresh clone of that service, dropped afterwards;
//!   `h=<id>` a handle the adapter keeps: created on first use as a clone of service `svc` (or, with `from=<id2>`, as a
//!   clone of handle id2 — a clone taken after calls were made on it) and used again by every later `arrive … h=<id>`
//!   (poll_ready + call on the same handle, call after call); `#handle <c> <id> new|clone|reuse` meta lines;
//!   `rdy=err`: the handle's inner service fails this readiness poll (`Err(IErr{9,0})`): `Hedge::poll_ready` answers
//!   `HedgeError::Inner`, rendered as the result of the request, no call is made;
//!   `acc=1`: the caller inspects an error through `HedgeError`'s accessors (and its `Clone`): the result line gets the
//!   extra word `acc=af:<is_all_attempts_failed>,in:<is_inner>,ref:<inner()>,into:<clone().into_inner()>`
//! `manual dropsvc`: the layer, every service and every handle the adapter holds are dropped (calls in flight go on);
//!   later arrivals are answered `noop`
//! arrive: `warm=<ms|never|fail>,…` — readiness of the *fresh clones* of the inner service made for this request:
//!   the i-th fresh clone (i ≥ 1) whose readiness is polled reports `Pending` until `warm[i-1]` ms after its
//!   first `poll_ready` (`never`: for ever, no wake-up; `fail`: that first poll answers `Err(IErr{9,0})` — the
//!   attempt's task sends the error as its result and never calls); beyond the list (and without `warm=`) clones are ready
//!   at once and nothing is logged. A listed clone logs `inner_warm <c> <i> <w>` at its first readiness poll.
//!   The instance the adapter itself polls ready and calls (the primary's) is always ready.
//! Attempts are spawned tasks; the `Obs` wrapper around `world::Inner` reports the order in which
//! attempts that were waiting on their timer complete (`@done=<serial>` on the op line): that order
//! is decided by tokio's timer wheel / run queue, and the model takes it as an observed choice.
use crate::world::*;
use std::future::Future;
use std::pin::Pin;
use std::collections::{BTreeMap, VecDeque};
use std::sync::atomic::{AtomicU64, Ordering};
use std::sync::{Arc, Mutex};
use std::task::{Context, Poll};
use std::time::Duration;
use tower::{Layer, Service};
use tower_resilience_core::{FnListener, ResilienceEvent};
use tower_resilience_hedge::{Hedge, HedgeConfig, HedgeConfigBuilder, HedgeError, HedgeEvent, HedgeLayer};

/// What the clones of one case share: the serial counter and the readiness plans of the requests.
#[derive(Default)]
pub struct Shared {
    /// number of inner calls made so far in this case = serial of the next one (the adapter is
    /// created per case and every inner call goes through this wrapper)
    calls: AtomicU64,
    /// request on whose behalf the adapter is cloning the layer right now (inherited by clones of that clone)
    cur: Mutex<Option<usize>>,
    /// per request: remaining warm-up plan and number of fresh clones polled so far;
    /// registered by the adapter after it has driven the primary's instance itself
    warm: Mutex<BTreeMap<usize, (VecDeque<Plan>, usize)>>,
    /// per request: serial of its first attempt that completed successfully
    first_ok: Mutex<BTreeMap<usize, u64>>,
    /// requests whose handle fails its next readiness poll (`rdy=err`)
    fail: Mutex<std::collections::BTreeSet<usize>>,
}

/// readiness plan entry of one fresh clone
#[derive(Clone, Copy)]
pub enum Plan {
    /// ready that many ms after its first readiness poll
    After(u64),
    Never,
    /// the first readiness poll answers with an error
    Fail,
}

enum Warm {
    /// readiness not polled yet
    Fresh,
    Warming(Pin<Box<tokio::time::Sleep>>),
    Never,
    Ready,
}

/// Wrapper around `world::Inner`: same calls, same results; reports timer-driven completions and gives
/// fresh clones the scripted readiness.
pub struct Obs {
    inner: Inner,
    sh: Arc<Shared>,
    req: Option<usize>,
    st: Warm,
    /// attempt number of this instance (0: the instance the adapter drove, i: the i-th fresh clone polled)
    att: usize,
    /// became ready by waiting on its warm-up timer
    waited: bool,
}
impl Clone for Obs {
    fn clone(&self) -> Obs {
        let req = self.req.or(*self.sh.cur.lock().unwrap());
        Obs { inner: self.inner.clone(), sh: self.sh.clone(), req, st: Warm::Fresh, att: 0, waited: false }
    }
}
pub struct ObsFut {
    f: InnerFut,
    k: u64,
    was_pending: bool,
    sh: Arc<Shared>,
}
impl Future for ObsFut {
    type Output = Result<Resp, IErr>;
    fn poll(mut self: Pin<&mut Self>, cx: &mut Context<'_>) -> Poll<Self::Output> {
        let k = self.k;
        let was_pending = self.was_pending;
        let r = std::panic::catch_unwind(std::panic::AssertUnwindSafe(|| Pin::new(&mut self.f).poll(cx)));
        match r {
            Ok(Poll::Pending) => {
                self.was_pending = true;
                Poll::Pending
            }
            Ok(Poll::Ready(x)) => {
                if was_pending {
                    obs("done", k);
                }
                if let Ok(r) = &x {
                    self.sh.first_ok.lock().unwrap().entry(r.c).or_insert(k);
                }
                Poll::Ready(x)
            }
            Err(p) => {
                if was_pending {
                    obs("done", k);
                }
                std::panic::resume_unwind(p)
            }
        }
    }
}
impl Service<Req> for Obs {
    type Response = Resp;
    type Error = IErr;
    type Future = ObsFut;
    fn poll_ready(&mut self, cx: &mut Context<'_>) -> Poll<Result<(), IErr>> {
        // the adapter is driving this instance on behalf of a request (a kept handle serves one request after the
        // other: the instance its previous call left behind now belongs to the new request)
        if let Some(c) = *self.sh.cur.lock().unwrap() {
            self.req = Some(c);
            if self.sh.fail.lock().unwrap().remove(&c) {
                return Poll::Ready(Err(IErr { kind: 9, v: 0 }));
            }
        }
        if let Warm::Fresh = self.st {
            self.st = Warm::Ready;
            if let Some(c) = self.req {
                let mut plans = self.sh.warm.lock().unwrap();
                if let Some((plan, n)) = plans.get_mut(&c) {
                    *n += 1;
                    self.att = *n;
                    match plan.pop_front() {
                        None => {}
                        Some(w) => {
                            let ws = match w {
                                Plan::After(x) => x.to_string(),
                                Plan::Never => "never".into(),
                                Plan::Fail => "fail".into(),
                            };
                            log(format!("inner_warm {} {} {}", c, self.att, ws));
                            match w {
                                Plan::After(0) => {}
                                Plan::After(ms) => self.st = Warm::Warming(Box::pin(tokio::time::sleep(Duration::from_millis(ms)))),
                                Plan::Never => self.st = Warm::Never,
                                Plan::Fail => return Poll::Ready(Err(IErr { kind: 9, v: 0 })),
                            }
                        }
                    }
                }
            }
        }
        match &mut self.st {
            Warm::Never => return Poll::Pending,
            Warm::Warming(s) => {
                if s.as_mut().poll(cx).is_pending() {
                    return Poll::Pending;
                }
                self.st = Warm::Ready;
                self.waited = true;
            }
            _ => {}
        }
        self.inner.poll_ready(cx)
    }
    fn call(&mut self, req: Req) -> ObsFut {
        let k = self.sh.calls.fetch_add(1, Ordering::SeqCst);
        if self.waited {
            // an attempt whose clone became ready on its timer: when it calls is the runtime's choice
            obs("rdy", format!("{}:{}", req.c, self.att));
            self.waited = false;
        }
        log_raw(format!("#att {} {} {}", req.c, k, self.att));
        let f = self.inner.call(req);
        ObsFut { f, k, was_pending: false, sh: self.sh.clone() }
    }
}

/// The call future as the caller holds it. A poll by the caller that leaves the call pending although one of
/// its attempts had already completed successfully before that poll is recorded: `#held <c> <t> <serial>`
/// (nothing is recorded otherwise, so the marker never counts as progress of a healthy call).
struct Polled<F> {
    f: Pin<Box<F>>,
    c: usize,
    sh: Arc<Shared>,
}
impl<F: Future> Future for Polled<F> {
    type Output = F::Output;
    fn poll(mut self: Pin<&mut Self>, cx: &mut Context<'_>) -> Poll<F::Output> {
        let avail = self.sh.first_ok.lock().unwrap().get(&self.c).cloned();
        let r = self.f.as_mut().poll(cx);
        if let (Some(k), true) = (avail, r.is_pending()) {
            log_raw(format!("#held {} {} {}", self.c, now_ms(), k));
        }
        r
    }
}

/// how services are made
enum Maker {
    /// the one layer value every service of the case is built from
    Layer(HedgeLayer),
    /// `via=direct`: `Hedge::new(inner, HedgeConfig::default())`
    Direct,
    /// after `manual dropsvc`
    Gone,
}

pub struct Adapter {
    maker: Maker,
    /// services built from the layer so far, by index (`svc=<k>`)
    svcs: BTreeMap<u64, Hedge<Obs>>,
    /// handles kept between requests (`h=<id>`)
    handles: BTreeMap<u64, Hedge<Obs>>,
    sh: Arc<Shared>,
}

impl Adapter {
    pub fn new(kv: &Kv) -> Adapter {
        let max_s = kv.str("max", "2");
        let max = kv.u64("max", 2) as usize;
        let us = kv.str("unit", "ms") == "us";
        let dur = move |x: &str| -> Option<Duration> {
            match x {
                "max" => Some(Duration::MAX),
                "smax" => Some(Duration::from_secs(u64::MAX)),
                "hmax" => Some(Duration::from_secs(1 << 63)),
                // the documented default delay
                "dflt" => Some(Duration::from_secs(1)),
                _ => x.parse::<u64>().ok().map(|v| if us { Duration::from_micros(v) } else { Duration::from_millis(v) }),
            }
        };
        let d_s = kv.str("d", "0");
        let d = dur(&d_s).unwrap_or(Duration::ZERO);
        let ds: Vec<Duration> = kv
            .get("ds")
            .map(|s| s.split(',').filter_map(|x| dur(x)).collect())
            .unwrap_or_default();
        let via = kv.str("via", "builder");
        let maker = match via.as_str() {
            "direct" => Maker::Direct,
            "new" => Maker::Layer(HedgeLayer::new(d)),
            _ => {
                let mut b = if via == "dflt" { HedgeConfigBuilder::default() } else { HedgeLayer::builder() };
                let name = kv.get("name").map(|s| s.to_string());
                let first = kv.str("nameat", "last") == "first";
                if let (Some(n), true) = (&name, first) {
                    b = b.name(n.clone());
                }
                if max_s != "dflt" {
                    b = b.max_hedged_attempts(max);
                }
                b = match kv.str("kind", "fixed").as_str() {
                    "imm" => b.no_delay(),
                    "fn" => b.delay_fn(move |n| if n >= 1 && n - 1 < ds.len() { ds[n - 1] } else { d }),
                    _ if d_s == "dflt" => b,
                    _ => b.delay(d),
                };
                if kv.u64("listen", 0) == 1 {
                    b = b.on_event(FnListener::new(|e: &HedgeEvent| {
                        let _ = e.timestamp();
                        log_raw(format!("#ev {} {}", e.event_type(), e.pattern_name()));
                    }));
                }
                if let (Some(n), false) = (&name, first) {
                    b = b.name(n.clone());
                }
                Maker::Layer(b.build())
            }
        };
        Adapter { maker, svcs: BTreeMap::new(), handles: BTreeMap::new(), sh: Arc::new(Shared::default()) }
    }

    /// service number k, built on first use: every service from the same layer value (`lc`: from a clone of it taken
    /// now), each around its own instance of the scripted inner service
    fn service(&mut self, k: u64, lc: bool) -> Option<&mut Hedge<Obs>> {
        if !self.svcs.contains_key(&k) {
            let obs = Obs { inner: Inner::new(), sh: self.sh.clone(), req: None, st: Warm::Fresh, att: 0, waited: false };
            let svc = match &self.maker {
                Maker::Layer(l) if lc => l.clone().layer(obs),
                Maker::Layer(l) => l.layer(obs),
                Maker::Direct => Hedge::new(obs, HedgeConfig::default()),
                Maker::Gone => return None,
            };
            self.svcs.insert(k, svc);
        }
        self.svcs.get_mut(&k)
    }
}

pub fn render(r: Result<Resp, HedgeError<IErr>>) -> String {
    match r {
        Ok(x) => format!("ok:{}", x.v),
        Err(HedgeError::AllAttemptsFailed(e)) => format!("err:all_failed:inner{}:{}", e.kind, e.v),
        Err(HedgeError::Inner(e)) => format!("err:inner{}:{}", e.kind, e.v),
    }
}

/// a caller that looks at an error through the accessors of `HedgeError` (and its `Clone` impl)
pub fn render_acc(r: Result<Resp, HedgeError<IErr>>) -> String {
    match r {
        Ok(x) => format!("ok:{}", x.v),
        Err(e) => {
            let (af, inn) = (e.is_all_attempts_failed(), e.is_inner());
            let rf = e.inner().clone();
            let into = e.clone().into_inner();
            format!("{} acc=af:{},in:{},ref:inner{}:{},into:inner{}:{}", render(Err(e)), af as u8, inn as u8, rf.kind, rf.v, into.kind, into.v)
        }
    }
}

impl Mw for Adapter {
    fn arrive(&mut self, c: usize, kv: &Kv) -> Option<CallFut> {
        if let Maker::Gone = self.maker {
            log_raw("noop".into());
            return None;
        }
        let rend: fn(Result<Resp, HedgeError<IErr>>) -> String = if kv.u64("acc", 0) == 1 { render_acc } else { render };
        let (k, lc) = (kv.u64("svc", 0), kv.u64("lc", 0) == 1);
        *self.sh.cur.lock().unwrap() = Some(c);
        // the handle the request is made on
        let mut once;
        let svc: &mut Hedge<Obs> = match kv.opt_u64("h") {
            None => {
                once = self.service(k, lc)?.clone();
                &mut once
            }
            Some(h) => {
                if self.handles.contains_key(&h) {
                    log_raw(format!("#handle {} {} reuse", c, h));
                } else {
                    let from = kv.opt_u64("from").and_then(|f| self.handles.get(&f)).map(|s| s.clone());
                    log_raw(format!("#handle {} {} {}", c, h, if from.is_some() { "clone" } else { "new" }));
                    let new = match from {
                        Some(s) => s,
                        None => self.service(k, lc)?.clone(),
                    };
                    self.handles.insert(h, new);
                }
                self.handles.get_mut(&h).unwrap()
            }
        };
        if kv.str("rdy", "ok") == "err" {
            self.sh.fail.lock().unwrap().insert(c);
        }
        let req = Req::new(c, kv);
        let ready = poll_ready_once(svc);
        self.sh.fail.lock().unwrap().remove(&c);
        match ready {
            Poll::Ready(Ok(())) => {}
            Poll::Ready(Err(e)) => {
                *self.sh.cur.lock().unwrap() = None;
                log(format!("result {} {}", c, rend(Err(e))));
                return None;
            }
            Poll::Pending => {
                *self.sh.cur.lock().unwrap() = None;
                log(format!("result {} notready", c));
                return None;
            }
        }
        let fut = svc.call(req);
        *self.sh.cur.lock().unwrap() = None;
        // from here on the fresh clones made for this request follow its readiness plan
        let plan: VecDeque<Plan> = kv
            .get("warm")
            .map(|s| {
                s.split(',')
                    .filter(|x| !x.is_empty())
                    .map(|x| if x == "fail" { Plan::Fail } else { x.parse().map(Plan::After).unwrap_or(Plan::Never) })
                    .collect()
            })
            .unwrap_or_default();
        self.sh.warm.lock().unwrap().insert(c, (plan, 0));
        Some(held(Polled { f: Box::pin(fut), c, sh: self.sh.clone() }, rend))
    }
    fn manual(&mut self, what: &str, _kv: &Kv) {
        if what == "dropsvc" {
            // every service handle, clone and the layer itself
            self.handles.clear();
            self.svcs.clear();
            self.maker = Maker::Gone;
        }
    }
    fn yields(&self) -> usize {
        8
    }
}
