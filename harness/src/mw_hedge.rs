//! C12: the real `HedgeLayer` over the scripted inner service.
//!
//! header: `hedge max=<n> d=<ms> [ds=<ms>,<ms>,…] [kind=fixed|imm|fn]`
//!   kind=fixed : `.delay(d)`                      (also the default when no kind is given)
//!   kind=imm   : `.no_delay()`
//!   kind=fn    : `.delay_fn(|n| ds[n-1] or d beyond the list)`   (n is 1-indexed, as in the crate)
//! Attempts are spawned tasks; the `Obs` wrapper around `world::Inner` reports the order in which
//! attempts that were waiting on their timer complete (`@done=<serial>` on the op line): that order
//! is decided by tokio's timer wheel / run queue, and the model takes it as an observed choice.
use crate::world::*;
use std::future::Future;
use std::pin::Pin;
use std::sync::atomic::{AtomicU64, Ordering};
use std::sync::Arc;
use std::task::{Context, Poll};
use std::time::Duration;
use tower::{Layer, Service};
use tower_resilience_hedge::{Hedge, HedgeError, HedgeLayer};

/// Transparent wrapper: same calls, same results; only reports timer-driven completions.
#[derive(Clone)]
pub struct Obs {
    inner: Inner,
    /// number of inner calls made so far in this case = serial of the next one (the adapter is
    /// created per case and every inner call goes through this wrapper)
    calls: Arc<AtomicU64>,
}
pub struct ObsFut {
    f: InnerFut,
    k: u64,
    was_pending: bool,
}
impl Future for ObsFut {
    type Output = Result<Resp, IErr>;
    fn poll(mut self: Pin<&mut Self>, cx: &mut Context<'_>) -> Poll<Self::Output> {
        let k = self.k;
        let was_pending = self.was_pending;
        let r = std::panic::catch_unwind(std::panic::AssertUnwindSafe(|| Pin::new(&mut self.f).poll(cx)));
        match r {
            Ok(Poll::Pending) => {
                self.was_pending = true;
                Poll::Pending
            }
            Ok(Poll::Ready(x)) => {
                if was_pending {
                    obs("done", k);
                }
                Poll::Ready(x)
            }
            Err(p) => {
                if was_pending {
                    obs("done", k);
                }
                std::panic::resume_unwind(p)
            }
        }
    }
}
impl Service<Req> for Obs {
    type Response = Resp;
    type Error = IErr;
    type Future = ObsFut;
    fn poll_ready(&mut self, cx: &mut Context<'_>) -> Poll<Result<(), IErr>> {
        self.inner.poll_ready(cx)
    }
    fn call(&mut self, req: Req) -> ObsFut {
        let k = self.calls.fetch_add(1, Ordering::SeqCst);
        let f = self.inner.call(req);
        ObsFut { f, k, was_pending: false }
    }
}

pub struct Adapter {
    svc: Hedge<Obs>,
}

impl Adapter {
    pub fn new(kv: &Kv) -> Adapter {
        let max = kv.u64("max", 2) as usize;
        let d = kv.u64("d", 0);
        let ds: Vec<u64> = kv
            .get("ds")
            .map(|s| s.split(',').filter_map(|x| x.parse().ok()).collect())
            .unwrap_or_default();
        let b = HedgeLayer::builder().max_hedged_attempts(max);
        let b = match kv.str("kind", "fixed").as_str() {
            "imm" => b.no_delay(),
            "fn" => b.delay_fn(move |n| {
                let ms = if n >= 1 && n - 1 < ds.len() { ds[n - 1] } else { d };
                Duration::from_millis(ms)
            }),
            _ => b.delay(Duration::from_millis(d)),
        };
        let layer = b.build();
        Adapter { svc: layer.layer(Obs { inner: Inner::new(), calls: Arc::new(AtomicU64::new(0)) }) }
    }
}

pub fn render(r: Result<Resp, HedgeError<IErr>>) -> String {
    match r {
        Ok(x) => format!("ok:{}", x.v),
        Err(HedgeError::AllAttemptsFailed(e)) => format!("err:all_failed:inner{}:{}", e.kind, e.v),
        Err(HedgeError::Inner(e)) => format!("err:inner{}:{}", e.kind, e.v),
    }
}

impl Mw for Adapter {
    fn arrive(&mut self, c: usize, kv: &Kv) -> Option<CallFut> {
        let mut svc = self.svc.clone();
        let req = Req::new(c, kv);
        match poll_ready_once(&mut svc) {
            Poll::Ready(Ok(())) => {}
            _ => {
                log(format!("result {} notready", c));
                return None;
            }
        }
        let fut = svc.call(req);
        Some(held(fut, render))
    }
    fn yields(&self) -> usize {
        8
    }
}
