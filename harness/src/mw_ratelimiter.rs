//! C02 / C15: the real `RateLimiterLayer` over the scripted inner service.
//!
//! Observed choices (DESIGN §3.2), appended to the `poll` op line for the model:
//!   `@rej=1|0`  on the first poll that did not reach the inner service: rejected at once or put to sleep
//!                (the sliding counter decides this from a float-valued wait estimate);
//!   `@woke=1|0` on every later poll: whether the future's waker has fired since the previous poll
//!                (while the caller sleeps inside `acquire()` the only waker holder is the sleep timer);
//!   `@adm=1`    on the poll during which the caller reached the wrapped service (its `inner_call` was logged): the
//!                sliding counter's `f64` comparison on the exact boundary and a wait estimate that rounds to
//!                `Duration::ZERO` both show as "admitted although the exact test finds no room";
//!   `@b1=1`     on every poll of a case whose configured period B is such that this platform's `f64` quotient
//!                `(2·B).as_secs_f64() / B.as_secs_f64()` truncates to 1 (the sliding counter's `buckets_passed` at
//!                exactly two buckets): computed here with the same `Duration::as_secs_f64` the limiter uses.
//!
//! The wrapped service is the strict scripted service (`inner_call c k tag=… ready=0|1`: `ready=0` = called on an
//! instance that had not been polled ready). `manual busy ms=<n>`: the wrapped service (every instance, fresh clones
//! too) answers `Pending` to `poll_ready` until n ticks from now (a saturated backend; `ms=0` ends it); a caller that
//! arrives meanwhile finds `poll_ready` pending and gives up (`result c notready`). `manual ready script=pe…`: the
//! next `poll_ready` calls of the wrapped service (when it is not busy) answer pending / error / ready; an error
//! comes back from `RateLimiter::poll_ready`, is logged `ready_err c <error>` and the caller gives up as well.
//! `manual dropsvc`: every service, kept handle and the layer are dropped, call futures live on.
//!
//! Construction (case header): `via=per_second n=<n>` / `via=per_minute n=<n>` / `via=burst rate=<r> burst=<b>` build
//! through the preset constructors, `via=default` through `RateLimiterConfigBuilder::default()`; `limit= period=
//! timeout= kind=` given with `via=` are builder methods called after it. Without `via`: the plain builder with every
//! field set (absent keys: limit 1, period 1000, timeout 0, fixed). `name=<s>`: `.name(s)`. `listen=1`: the three
//! listeners are registered (`#ev …` meta lines). `tick=us`: durations of the header and of `adv` are microseconds.
//!
//! Services and handles (`arrive c svc=<k> h=<j> lclone=1`): service 0 is built from the layer together with it;
//! service k is built from the SAME layer value when first used (`lclone=1`: from a clone of the layer taken at that
//! moment). Without `h=` the caller uses a fresh clone of the service (dropped after `call`); `h=0` calls the
//! service value itself, again and again; `h=j` a kept clone, taken when first used (so possibly after calls have
//! been made) and reused afterwards. A handle whose `poll_ready` was not ready is given up (dropped / replaced).
use crate::world::*;
use std::collections::BTreeMap;
use std::future::Future;
use std::pin::Pin;
use std::sync::atomic::{AtomicBool, Ordering};
use std::sync::{Arc, Mutex};
use std::task::{Context, Poll, Wake, Waker};
use tower::{Layer, Service};
use tower_resilience_ratelimiter::{RateLimiter, RateLimiterConfigBuilder, RateLimiterLayer, RateLimiterServiceError, WindowType};

struct Svc {
    root: RateLimiter<Inner>,
    kept: BTreeMap<u64, RateLimiter<Inner>>,
}

pub struct Adapter {
    /// `None` after `manual dropsvc`
    layer: Option<RateLimiterLayer>,
    svcs: BTreeMap<u64, Svc>,
    /// the wrapped service every rate limiter service gets a clone of (`None` after `manual dropsvc`)
    wrapped: Option<Inner>,
    /// readiness state of the wrapped service (not a handle of the rate limiter)
    inner: Arc<Mutex<InnerShared>>,
    /// what the registered listeners were told since the last poll (`listen=1`)
    events: Arc<Mutex<Vec<String>>>,
    /// `((2·B).as_secs_f64() / B.as_secs_f64()) as u32 == 1` for the configured period B
    b1: bool,
}

impl Adapter {
    pub fn new(kv: &Kv) -> Adapter {
        let kind = |s: &str| match s {
            "log" => WindowType::SlidingLog,
            "counter" => WindowType::SlidingCounter,
            _ => WindowType::Fixed,
        };
        let n = kv.u64("n", 1) as usize;
        let (mut b, preset) = match kv.str("via", "builder").as_str() {
            "per_second" => (RateLimiterLayer::per_second(n), true),
            "per_minute" => (RateLimiterLayer::per_minute(n), true),
            "burst" => (RateLimiterLayer::burst(kv.u64("rate", 1) as usize, kv.u64("burst", 0) as usize), true),
            "default" => (RateLimiterConfigBuilder::default(), true),
            _ => (RateLimiterLayer::builder(), false),
        };
        // builder methods after the preset: only the fields the header names; plain builder: every field
        if let Some(l) = kv.opt_u64("limit").or(if preset { None } else { Some(1) }) {
            b = b.limit_for_period(l as usize);
        }
        if let Some(p) = kv.opt_u64("period").or(if preset { None } else { Some(1000) }) {
            b = b.refresh_period(ticks(p));
        }
        if let Some(t) = kv.opt_u64("timeout").or(if preset { None } else { Some(0) }) {
            b = b.timeout_duration(ticks(t));
        }
        if let Some(k) = kv.get("kind").or(if preset { None } else { Some("fixed") }) {
            b = b.window_type(kind(k));
        }
        if let Some(name) = kv.get("name") {
            b = b.name(name);
        }
        let events: Arc<Mutex<Vec<String>>> = Arc::new(Mutex::new(Vec::new()));
        if kv.u64("listen", 0) == 1 {
            let (e1, e2, e3) = (events.clone(), events.clone(), events.clone());
            b = b
                .on_permit_acquired(move |d| e1.lock().unwrap().push(format!("#ev acquired {}", d.as_nanos())))
                .on_permit_rejected(move |d| e2.lock().unwrap().push(format!("#ev rejected {}", d.as_nanos())))
                .on_permits_refreshed(move |n| e3.lock().unwrap().push(format!("#ev refreshed {}", n)));
        }
        // the period the limiter was configured with: the header's, else the documented one of the construction path
        let period = kv.opt_u64("period").map(ticks).unwrap_or(match kv.str("via", "builder").as_str() {
            "per_minute" => std::time::Duration::from_secs(60),
            "builder" => ticks(1000),
            _ => std::time::Duration::from_secs(1),
        });
        // since fix 13eda6c the limiter counts elapsed buckets in integer nanoseconds: no f64 slip at exactly two buckets
        let b1 = false && period > std::time::Duration::ZERO;
        let layer = b.build();
        // the limiter of service 0 (period_start / bucket_start = now) is created here, at t = 0 of the case
        let wrapped = Inner::strict("");
        let shared = wrapped.shared.clone();
        let mut svcs = BTreeMap::new();
        svcs.insert(0, Svc { root: layer.layer(wrapped.clone()), kept: BTreeMap::new() });
        Adapter { layer: Some(layer), svcs, wrapped: Some(wrapped), inner: shared, events, b1 }
    }
}

pub fn render(r: Result<Resp, RateLimiterServiceError<IErr>>) -> String {
    match r {
        Ok(x) => format!("ok:{}", x.v),
        Err(e) => {
            // the error as a caller sees it through the accessor methods, cross-checked against the variant
            let variant_limited = matches!(e, RateLimiterServiceError::RateLimited);
            let (limited, inner) = (e.is_rate_limited(), e.is_inner());
            match (variant_limited, limited, inner, e.into_inner()) {
                (true, true, false, None) => "err:ratelimited".into(),
                (false, false, true, Some(ie)) => format!("err:inner{}:{}", ie.kind, ie.v),
                _ => format!("err:accessors-disagree:{}:{}:{}", variant_limited as u8, limited as u8, inner as u8),
            }
        }
    }
}

struct Relay {
    fired: AtomicBool,
    parent: Mutex<Waker>,
}
impl Wake for Relay {
    fn wake(self: Arc<Self>) {
        self.wake_by_ref();
    }
    fn wake_by_ref(self: &Arc<Self>) {
        self.fired.store(true, Ordering::SeqCst);
        self.parent.lock().unwrap_or_else(|e| e.into_inner()).wake_by_ref();
    }
}

/// `@adm` / `@b1` of one poll, recorded when the poll ends — by return or by unwinding.
struct AdmGuard<'a> {
    called: &'a mut bool,
    before: usize,
    b1: bool,
}
impl Drop for AdmGuard<'_> {
    fn drop(&mut self) {
        if !*self.called && log_len() != self.before {
            // the only thing a call that has not been admitted yet can log during its poll is its `inner_call`
            *self.called = true;
            obs("adm", 1);
        }
        if self.b1 {
            obs("b1", 1);
        }
    }
}

/// Forwards polls to the call future, recording the observed choices.
struct Observed<F> {
    fut: Pin<Box<F>>,
    relay: Option<Arc<Relay>>,
    polled: bool,
    /// the caller has reached the wrapped service
    called: bool,
    b1: bool,
    events: Arc<Mutex<Vec<String>>>,
}
impl<F: Future<Output = String>> Future for Observed<F> {
    type Output = String;
    fn poll(mut self: Pin<&mut Self>, cx: &mut Context<'_>) -> Poll<String> {
        let first = !self.polled;
        self.polled = true;
        let woke = self.relay.as_ref().map(|r| r.fired.swap(false, Ordering::SeqCst)).unwrap_or(false);
        if !first {
            obs("woke", woke as u8);
        }
        // one relay per caller for its whole life (a timer keeps the waker it was given); refresh its parent
        let relay = match self.relay.clone() {
            Some(old) => {
                *old.parent.lock().unwrap_or_else(|e| e.into_inner()) = cx.waker().clone();
                old
            }
            None => Arc::new(Relay { fired: AtomicBool::new(false), parent: Mutex::new(cx.waker().clone()) }),
        };
        self.relay = Some(relay.clone());
        let waker = Waker::from(relay);
        let mut cx2 = Context::from_waker(&waker);
        let before = log_len();
        let r = {
            // recorded by a guard: the wrapped service's call may panic out of this poll
            let this = &mut *self;
            let _guard = AdmGuard { called: &mut this.called, before, b1: this.b1 };
            this.fut.as_mut().poll(&mut cx2)
        };
        if first && log_len() == before {
            // no inner call in the first poll: rejected at once, or told to wait
            match &r {
                Poll::Ready(_) => obs("rej", 1),
                Poll::Pending => obs("rej", 0),
            }
        }
        // what the listeners were told during this poll (meta lines, not compared)
        for l in std::mem::take(&mut *self.events.lock().unwrap_or_else(|e| e.into_inner())) {
            log_raw(l);
        }
        r
    }
}

impl Mw for Adapter {
    fn manual(&mut self, what: &str, kv: &Kv) {
        match what {
            "dropsvc" => {
                self.svcs.clear();
                self.layer = None;
                self.wrapped = None;
            }
            "busy" => {
                let until = tokio::time::Instant::now() + ticks(kv.u64("ms", 0));
                self.inner.lock().unwrap().busy_until = Some(until);
            }
            "ready" => {
                let script = kv.str("script", "");
                self.inner.lock().unwrap().ready_script.extend(script.chars());
            }
            _ => {}
        }
    }
    fn arrive(&mut self, c: usize, kv: &Kv) -> Option<CallFut> {
        let (Some(layer), Some(wrapped)) = (self.layer.as_ref(), self.wrapped.as_ref()) else {
            log_raw("noop".into());
            return None;
        };
        let k = kv.u64("svc", 0);
        if !self.svcs.contains_key(&k) {
            // another service from the same layer value (or from a clone of it taken now)
            let root = if kv.u64("lclone", 0) == 1 { layer.clone().layer(wrapped.clone()) } else { layer.layer(wrapped.clone()) };
            self.svcs.insert(k, Svc { root, kept: BTreeMap::new() });
        }
        let Svc { root, kept } = self.svcs.get_mut(&k).unwrap();
        let which = kv.opt_u64("h");
        let mut temp;
        let h: &mut RateLimiter<Inner> = match which {
            None => {
                temp = root.clone();
                &mut temp
            }
            Some(0) => &mut *root,
            Some(j) => kept.entry(j).or_insert_with(|| root.clone()),
        };
        let req = Req::new(c, kv);
        let turned_away = match poll_ready_once(h) {
            std::task::Poll::Ready(Ok(())) => false,
            std::task::Poll::Ready(Err(e)) => {
                match e {
                    RateLimiterServiceError::Inner(e) => log(format!("ready_err {} inner{}:{}", c, e.kind, e.v)),
                    RateLimiterServiceError::RateLimited => log(format!("ready_err {} ratelimited", c)),
                }
                true
            }
            std::task::Poll::Pending => true,
        };
        if turned_away {
            log(format!("result {} notready", c));
            // the caller gives up and with it the handle it was waiting on
            match which {
                None => {}
                Some(0) => {
                    let fresh = root.clone();
                    *root = fresh;
                }
                Some(j) => {
                    kept.remove(&j);
                }
            }
            return None;
        }
        let fut = h.call(req);
        let inner = async move { render(fut.await) };
        Some(Box::pin(Observed { fut: Box::pin(inner), relay: None, polled: false, called: false, b1: self.b1, events: self.events.clone() }))
    }
}
