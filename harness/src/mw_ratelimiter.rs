//! C02 / C15: the real `RateLimiterLayer` over the scripted inner service.
//!
//! Observed choices (DESIGN §3.2), appended to the `poll` op line for the model:
//!   `@rej=1|0`  on the first poll that did not reach the inner service: rejected at once or put to sleep
//!                (the sliding counter decides this from a float-valued wait estimate);
//!   `@woke=1|0` on every later poll: whether the future's waker has fired since the previous poll
//!                (while the caller sleeps inside `acquire()` the only waker holder is the sleep timer).
//!
//! The wrapped service is the strict scripted service (`inner_call c k tag=… ready=0|1`: `ready=0` = called on an
//! instance that had not been polled ready). `manual busy ms=<n>`: the wrapped service (every instance, fresh clones
//! too) answers `Pending` to `poll_ready` until n ms from now (a saturated backend; `ms=0` ends it); a caller that
//! arrives meanwhile finds `poll_ready` pending and gives up (`result c notready`). `manual dropsvc`: the service
//! handle (the only one the adapter holds; the layer is gone after construction) is dropped, call futures live on.
use crate::world::*;
use std::future::Future;
use std::pin::Pin;
use std::sync::atomic::{AtomicBool, Ordering};
use std::sync::{Arc, Mutex};
use std::task::{Context, Poll, Wake, Waker};
use std::time::Duration;
use tower::{Layer, Service};
use tower_resilience_ratelimiter::{RateLimiter, RateLimiterLayer, RateLimiterServiceError, WindowType};

pub struct Adapter {
    /// `None` after `manual dropsvc`
    svc: Option<RateLimiter<Inner>>,
    /// readiness state of the wrapped service (not a handle of the rate limiter)
    inner: Arc<Mutex<InnerShared>>,
}

impl Adapter {
    pub fn new(kv: &Kv) -> Adapter {
        let wt = match kv.str("kind", "fixed").as_str() {
            "log" => WindowType::SlidingLog,
            "counter" => WindowType::SlidingCounter,
            _ => WindowType::Fixed,
        };
        let layer = RateLimiterLayer::builder()
            .limit_for_period(kv.u64("limit", 1) as usize)
            .refresh_period(Duration::from_millis(kv.u64("period", 1000)))
            .timeout_duration(Duration::from_millis(kv.u64("timeout", 0)))
            .window_type(wt)
            .build();
        // the limiter (period_start / bucket_start = now) is created here, at t = 0 of the case
        let inner = Inner::strict("");
        let shared = inner.shared.clone();
        Adapter { svc: Some(layer.layer(inner)), inner: shared }
    }
}

pub fn render(r: Result<Resp, RateLimiterServiceError<IErr>>) -> String {
    match r {
        Ok(x) => format!("ok:{}", x.v),
        Err(RateLimiterServiceError::Inner(e)) => format!("err:inner{}:{}", e.kind, e.v),
        Err(RateLimiterServiceError::RateLimited) => "err:ratelimited".into(),
    }
}

struct Relay {
    fired: AtomicBool,
    parent: Mutex<Waker>,
}
impl Wake for Relay {
    fn wake(self: Arc<Self>) {
        self.wake_by_ref();
    }
    fn wake_by_ref(self: &Arc<Self>) {
        self.fired.store(true, Ordering::SeqCst);
        self.parent.lock().unwrap_or_else(|e| e.into_inner()).wake_by_ref();
    }
}

/// Forwards polls to the call future, recording the observed choices.
struct Observed<F> {
    fut: Pin<Box<F>>,
    relay: Option<Arc<Relay>>,
    polled: bool,
}
impl<F: Future<Output = String>> Future for Observed<F> {
    type Output = String;
    fn poll(mut self: Pin<&mut Self>, cx: &mut Context<'_>) -> Poll<String> {
        let first = !self.polled;
        self.polled = true;
        let woke = self.relay.as_ref().map(|r| r.fired.swap(false, Ordering::SeqCst)).unwrap_or(false);
        if !first {
            obs("woke", woke as u8);
        }
        // one relay per caller for its whole life (a timer keeps the waker it was given); refresh its parent
        let relay = match self.relay.clone() {
            Some(old) => {
                *old.parent.lock().unwrap_or_else(|e| e.into_inner()) = cx.waker().clone();
                old
            }
            None => Arc::new(Relay { fired: AtomicBool::new(false), parent: Mutex::new(cx.waker().clone()) }),
        };
        self.relay = Some(relay.clone());
        let waker = Waker::from(relay);
        let mut cx2 = Context::from_waker(&waker);
        let before = log_len();
        let r = self.fut.as_mut().poll(&mut cx2);
        if first && log_len() == before {
            // no inner call in the first poll: rejected at once, or told to wait
            match &r {
                Poll::Ready(_) => obs("rej", 1),
                Poll::Pending => obs("rej", 0),
            }
        }
        r
    }
}

impl Mw for Adapter {
    fn manual(&mut self, what: &str, kv: &Kv) {
        match what {
            "dropsvc" => {
                self.svc = None;
            }
            "busy" => {
                let until = tokio::time::Instant::now() + Duration::from_millis(kv.u64("ms", 0));
                self.inner.lock().unwrap().busy_until = Some(until);
            }
            _ => {}
        }
    }
    fn arrive(&mut self, c: usize, kv: &Kv) -> Option<CallFut> {
        let Some(svc) = self.svc.as_ref() else {
            log_raw("noop".into());
            return None;
        };
        let mut svc = svc.clone();
        let req = Req::new(c, kv);
        match poll_ready_once(&mut svc) {
            std::task::Poll::Ready(Ok(())) => {}
            _ => {
                log(format!("result {} notready", c));
                return None;
            }
        }
        let fut = svc.call(req);
        let inner = async move { render(fut.await) };
        Some(Box::pin(Observed { fut: Box::pin(inner), relay: None, polled: false }))
    }
}
