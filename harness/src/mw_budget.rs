//! C08: the real retry budgets with hooked atomics under the baton scheduler.
//! ops: `manual thread t=<i> prog=<W|D…>` … then `manual sched s=<tid,tid,…>` runs the schedule.
use crate::sched::{atrace_push, atrace_take, run_scheduled_opt};
use crate::world::*;
use std::sync::Arc;
use tower_resilience_retry::{AimdBudget, RetryBudget, RetryBudgetBuilder, TokenBucketBudget};

pub struct Adapter {
    kv: Kv,
    progs: Vec<String>,
}

impl Adapter {
    pub fn new(kv: &Kv) -> Adapter {
        Adapter { kv: kv.clone(), progs: Vec::new() }
    }
}


/// `chain=<setter>.<setter>…` (or `chain=-` for none): the budget is built through `RetryBudgetBuilder` with the setters
/// applied in the order given — token bucket: `i<n>` initial_tokens, `m<n>` max_tokens, `r<n>` tokens_per_second;
/// AIMD: `n<n>` min_budget, `x<n>` max_budget, `d<n>` deposit_amount, `w<n>` withdraw_amount, `f<p>_<q>` decrease_factor.
/// Settings the chain does not name keep the builder's defaults.
fn build_chain(chain: &str, aimd: bool) -> Arc<dyn RetryBudget> {
    let items: Vec<&str> = chain.split('.').filter(|x| !x.is_empty() && *x != "-").collect();
    let num = |x: &str| x[1..].parse::<usize>().unwrap_or(0);
    if aimd {
        let mut b = RetryBudgetBuilder::new().aimd();
        for it in items {
            b = match &it[..1] {
                "n" => b.min_budget(num(it)),
                "x" => b.max_budget(num(it)),
                "d" => b.deposit_amount(num(it)),
                "w" => b.withdraw_amount(num(it)),
                "f" => {
                    let (p, q) = it[1..].split_once('_').unwrap_or(("1", "2"));
                    b.decrease_factor(p.parse::<f64>().unwrap_or(1.0) / q.parse::<f64>().unwrap_or(2.0))
                }
                _ => b,
            };
        }
        b.build()
    } else {
        let mut b = RetryBudgetBuilder::new().token_bucket();
        for it in items {
            b = match &it[..1] {
                "i" => b.initial_tokens(num(it)),
                "m" => b.max_tokens(num(it)),
                "r" => b.tokens_per_second(num(it) as f64),
                _ => b,
            };
        }
        b.build()
    }
}

fn build(kv: &Kv, aimd: bool) -> (Arc<dyn RetryBudget>, Option<Arc<AimdBudget>>) {
    if let Some(chain) = kv.get("chain") {
        return (build_chain(chain, aimd), None);
    }
    if aimd {
                    let num = kv.u64("fnum", 1) as f64;
                    let den = kv.u64("fden", 2) as f64;
                    let b = Arc::new(AimdBudget::new(
                        kv.u64("min", 1) as usize,
                        kv.u64("max", 10) as usize,
                        kv.u64("dep", 1) as usize,
                        kv.u64("wd", 1) as usize,
                        num / den,
                    ));
                    (b.clone(), Some(b))
                } else {
                    (
                        Arc::new(TokenBucketBudget::new(
                            1.0,
                            kv.u64("max", 10) as usize,
                            kv.u64("initial", 0) as usize,
                        )),
                        None,
                    )
                }
}

impl Mw for Adapter {
    fn arrive(&mut self, _c: usize, _kv: &Kv) -> Option<CallFut> {
        None
    }
    fn manual(&mut self, what: &str, kv: &Kv) {
        match what {
            "thread" => {
                let t = kv.u64("t", 0) as usize;
                while self.progs.len() <= t {
                    self.progs.push(String::new());
                }
                self.progs[t] = kv.str("prog", "");
            }
            "sched" => {
                let schedule: Vec<usize> =
                    kv.str("s", "").split(',').filter(|x| !x.is_empty()).filter_map(|x| x.parse().ok()).collect();
                let aimd = self.kv.str("kind", "token") == "aimd";
                let kvc = self.kv.clone();
                let built = std::panic::catch_unwind(std::panic::AssertUnwindSafe(move || build(&kvc, aimd)));
                let (budget, aimd_ref) = match built {
                    Ok(x) => x,
                    Err(_) => {
                        // the configuration was rejected at construction: there is no budget to exercise
                        log("construct panic".to_string());
                        return;
                    }
                };
                let mut bodies: Vec<Box<dyn FnOnce() -> Vec<String> + Send>> = Vec::new();
                let _ = atrace_take();
                for (tid, p) in self.progs.iter().enumerate() {
                    let p = p.clone();
                    let b = budget.clone();
                    bodies.push(Box::new(move || {
                        let mut out = Vec::new();
                        for ch in p.chars() {
                            match ch {
                                'W' => {
                                    atrace_push(format!("b{}:W", tid));
                                    let r = if b.try_withdraw() { "1" } else { "0" };
                                    atrace_push(format!("e{}:{}", tid, r));
                                    out.push(r.to_string())
                                }
                                'D' => {
                                    atrace_push(format!("b{}:D", tid));
                                    b.deposit();
                                    atrace_push(format!("e{}:-", tid));
                                    out.push("-".to_string())
                                }
                                _ => {}
                            }
                        }
                        out
                    }));
                }
                let (trace, outs) = run_scheduled_opt(bodies, &schedule, self.kv.u64("inner", 0) == 1);
                // the value-level trace travels to the model as an observed choice of the `sched` operation; the
                // implementation's claim is that it follows the read-modify-write protocol (`trace-ok`), the model's
                // verified checker (`TR.Budget.checkTrace`) confirms or refutes it
                let at = atrace_take();
                obs("tr", if at.is_empty() { "-".to_string() } else { at.join(";") });
                for l in trace {
                    log(l);
                }
                for (i, o) in outs.iter().enumerate() {
                    log(format!("th {} {}", i, o.join(",")));
                }
                log(format!("balance {}", budget.balance()));
                if let Some(a) = aimd_ref {
                    log(format!("limit {}", a.current_max()));
                }
                log("trace-ok".to_string());
            }
            _ => {}
        }
    }
}
