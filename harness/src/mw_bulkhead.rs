//! C01 / C07: the real `BulkheadLayer` over the scripted inner service.
use crate::world::*;
use std::time::Duration;
use tower::{Layer, Service};
use tower_resilience_bulkhead::{Bulkhead, BulkheadError, BulkheadLayer, BulkheadServiceError};

pub struct Adapter {
    svc: Bulkhead<Inner>,
}

impl Adapter {
    pub fn new(kv: &Kv) -> Adapter {
        let mut b = BulkheadLayer::builder().max_concurrent_calls(kv.u64("max", 1) as usize);
        if kv.get("wait") == Some("max") {
            b = b.max_wait_duration(Duration::MAX);
        } else if let Some(ms) = kv.opt_u64("wait") {
            b = b.max_wait_duration(Duration::from_millis(ms));
        }
        let layer = b.build();
        Adapter { svc: layer.layer(Inner::new()) }
    }
}

pub fn render(r: Result<Resp, BulkheadServiceError<IErr>>) -> String {
    match r {
        Ok(x) => format!("ok:{}", x.v),
        Err(BulkheadServiceError::Inner(e)) => format!("err:inner{}:{}", e.kind, e.v),
        Err(BulkheadServiceError::Bulkhead(BulkheadError::Timeout)) => "err:timeout".into(),
        Err(BulkheadServiceError::Bulkhead(BulkheadError::BulkheadFull { .. })) => "err:full".into(),
    }
}

impl Mw for Adapter {
    fn arrive(&mut self, c: usize, kv: &Kv) -> Option<CallFut> {
        let mut svc = self.svc.clone();
        let req = Req::new(c, kv);
        match poll_ready_once(&mut svc) {
            std::task::Poll::Ready(Ok(())) => {}
            _ => {
                log(format!("result {} notready", c));
                return None;
            }
        }
        let fut = svc.call(req);
        Some(held(fut, render))
    }
}
