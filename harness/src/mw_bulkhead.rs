//! C01 / C07: the real `BulkheadLayer` over the scripted inner service.
use crate::world::*;
use std::time::Duration;
use tower::{Layer, Service};
use tower_resilience_bulkhead::{Bulkhead, BulkheadError, BulkheadLayer, BulkheadServiceError};

pub struct Adapter {
    svc: Bulkhead<Inner>,
    idle: Vec<Bulkhead<Inner>>,
    gone: bool,
}

impl Adapter {
    pub fn new(kv: &Kv) -> Adapter {
        let mut b = BulkheadLayer::builder().max_concurrent_calls(kv.u64("max", 1) as usize);
        // builder setter order: `pre=reject` calls reject_when_full() BEFORE the wait is set (the wait wins),
        // `post=reject` calls it AFTER (zero wait wins): the last setter decides
        if kv.get("pre") == Some("reject") {
            b = b.reject_when_full();
        }
        if kv.get("wait") == Some("max") {
            b = b.max_wait_duration(Duration::MAX);
        } else if let Some(ms) = kv.opt_u64("wait") {
            b = b.max_wait_duration(Duration::from_millis(ms));
        }
        if kv.get("post") == Some("reject") {
            b = b.reject_when_full();
        }
        let layer = b.build();
        Adapter { svc: layer.layer(Inner::new()), idle: Vec::new(), gone: false }
    }
}

pub fn render(r: Result<Resp, BulkheadServiceError<IErr>>) -> String {
    match r {
        Ok(x) => format!("ok:{}", x.v),
        Err(BulkheadServiceError::Inner(e)) => format!("err:inner{}:{}", e.kind, e.v),
        Err(BulkheadServiceError::Bulkhead(BulkheadError::Timeout)) => "err:timeout".into(),
        Err(BulkheadServiceError::Bulkhead(BulkheadError::BulkheadFull { .. })) => "err:full".into(),
    }
}

impl Mw for Adapter {
    /// `via=` says how the caller obtains the handle it calls (all are legitimate Tower usage and must behave alike):
    /// `clone` (default) clone the template, ready the clone, call it; `readyclone` ready the template first, then
    /// clone it, ready the clone, call the clone (the template stays ready-but-uncalled); `swap` the
    /// `mem::replace` idiom: ready the template, leave a fresh clone in its place, call the readied one;
    /// `template` ready and call the template itself.
    fn arrive(&mut self, c: usize, kv: &Kv) -> Option<CallFut> {
        if self.gone {
            log_raw("noop".into());
            return None;
        }
        let req = Req::new(c, kv);
        let via = kv.str("via", "clone");
        let ready = |svc: &mut Bulkhead<Inner>| matches!(poll_ready_once(svc), std::task::Poll::Ready(Ok(())));
        let fut = match via.as_str() {
            "readyclone" => {
                if !ready(&mut self.svc) {
                    log(format!("result {} notready", c));
                    return None;
                }
                let mut svc = self.svc.clone();
                if !ready(&mut svc) {
                    log(format!("result {} notready", c));
                    return None;
                }
                svc.call(req)
            }
            "swap" => {
                if !ready(&mut self.svc) {
                    log(format!("result {} notready", c));
                    return None;
                }
                let fresh = self.svc.clone();
                let mut readied = std::mem::replace(&mut self.svc, fresh);
                readied.call(req)
            }
            "template" => {
                if !ready(&mut self.svc) {
                    log(format!("result {} notready", c));
                    return None;
                }
                self.svc.call(req)
            }
            _ => {
                let mut svc = self.svc.clone();
                if !ready(&mut svc) {
                    log(format!("result {} notready", c));
                    return None;
                }
                svc.call(req)
            }
        };
        Some(held(fut, render))
    }
    /// `manual readyidle`: a handle is polled ready and then kept, never called (a balancer's ready-cache, a request
    /// abandoned between `ready()` and `call()`); it must not cost capacity.
    fn requester(&self) -> Option<Requester> {
        if self.gone {
            return None;
        }
        let template = self.svc.clone();
        Some(std::rc::Rc::new(move |c: usize, kv: &Kv| {
            let mut svc = template.clone();
            if !matches!(poll_ready_once(&mut svc), std::task::Poll::Ready(Ok(()))) {
                log(format!("result {} notready", c));
                return None;
            }
            Some(held(svc.call(Req::new(c, kv)), render))
        }))
    }
    /// `manual dropsvc`: every handle (template, idle handles) is dropped while calls may be in flight or not
    /// even polled yet; the handle is re-created from the layer for later arrivals — which therefore go through
    /// "the same bulkhead" only if the layer shares its state… it does not (each `layer()` call makes a new
    /// semaphore), so later `arrive`s are refused on both sides (`noop`).
    fn manual(&mut self, what: &str, _kv: &Kv) {
        if what == "dropsvc" {
            self.gone = true;
            self.idle.clear();
            let dummy = BulkheadLayer::builder().max_concurrent_calls(1).build().layer(Inner::new());
            drop(std::mem::replace(&mut self.svc, dummy));
            log_raw("#dropsvc".into());
        }
        if what == "readyidle" && !self.gone {
            let mut h = self.svc.clone();
            let _ = poll_ready_once(&mut h);
            self.idle.push(h);
        }
    }
}
