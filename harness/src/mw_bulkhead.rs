//! C01 / C07: the real `BulkheadLayer` over the scripted inner service.
//!
//! Header: `max=<n>` `wait=<ms>|max` `pre=reject` `post=reject` (builder setter order), `preset=small|medium|large`
//! (the layer is built through `BulkheadLayer::small()/medium()/large()`, customised afterwards by whatever else the
//! header gives), `ctor=new|default` (`BulkheadConfigBuilder::new()/default()` instead of `BulkheadLayer::builder()`),
//! `name=<s>` (`.name(s)`), `unit=us` (`wait=` is in microseconds: waits with a sub-millisecond part).
//! `max=0` is `max_concurrent_calls(0)` (nobody is ever admitted; the wait rule is the ordinary one). `wait=<ms>` takes any u64: waits
//! and `adv`s of decades are fine (world.rs rewinds the cumulative clock between cases and advances in stretches); `wait=max`
//! (`Duration::MAX`) is armed by tokio as now + 30 years, so it is never combined with such advances.
//! `manual onpoll c=<p> by=<c2> <arrive words>` (world.rs, through `requester()`): a request made by the wrapped service
//! itself, from inside the poll of the admitted call p, through a clone of the same bulkhead.
//!
//! ONE layer value is built per case. `arrive <c> svc=<k>` goes through service k (default 0): service k is built
//! lazily, from the layer value the adapter holds at that moment (odd k: from a clone of it, dropped afterwards),
//! over its own scripted inner service. `manual clonelayer` replaces the layer value by a clone of itself.
//! What the property says about "one bulkhead" holds per service; services built from one layer share nothing.
use crate::world::*;
use std::cell::RefCell;
use std::collections::BTreeMap;
use std::rc::Rc;
use std::sync::{Arc, Mutex};
use std::task::Poll;
use std::time::Duration;
use tower::{Layer, Service};
use tower_resilience_bulkhead::{Bulkhead, BulkheadConfigBuilder, BulkheadError, BulkheadLayer, BulkheadServiceError};

/// one service built from the layer: the handle callers clone (`template`), handles polled ready and kept (`idle`),
/// handles that are kept and called again and again (`pool`), and the readiness script of its inner service
struct Svc {
    template: Bulkhead<Inner>,
    inner: Arc<Mutex<InnerShared>>,
    idle: Vec<Bulkhead<Inner>>,
    pool: BTreeMap<u64, Bulkhead<Inner>>,
}

struct Core {
    layer: Option<BulkheadLayer>,
    svcs: BTreeMap<usize, Svc>,
    gone: bool,
}

pub struct Adapter {
    core: Rc<RefCell<Core>>,
}

fn build_layer(kv: &Kv) -> BulkheadLayer {
    let preset = kv.get("preset");
    let mut b = match (preset, kv.get("ctor")) {
        (Some("small"), _) => BulkheadLayer::small(),
        (Some("medium"), _) => BulkheadLayer::medium(),
        (Some("large"), _) => BulkheadLayer::large(),
        (_, Some("new")) => BulkheadConfigBuilder::new(),
        (_, Some("default")) => BulkheadConfigBuilder::default(),
        _ => BulkheadLayer::builder(),
    };
    // a preset is customised only by what the header names; without a preset `max` is always set (default 1)
    let is_preset = matches!(preset, Some("small") | Some("medium") | Some("large"));
    if !is_preset || kv.get("max").is_some() {
        b = b.max_concurrent_calls(kv.u64("max", 1) as usize);
    }
    // builder setter order: `pre=reject` calls reject_when_full() BEFORE the wait is set (the wait wins),
    // `post=reject` calls it AFTER (zero wait wins): the last setter decides
    if kv.get("pre") == Some("reject") {
        b = b.reject_when_full();
    }
    if kv.get("wait") == Some("max") {
        b = b.max_wait_duration(Duration::MAX);
    } else if let Some(w) = kv.opt_u64("wait") {
        // `unit=us`: the wait is given in microseconds (it need not be a whole number of milliseconds); the op clock
        // stays in milliseconds — tokio's timer fires at the first millisecond boundary at or after the deadline
        b = b.max_wait_duration(if kv.get("unit") == Some("us") { Duration::from_micros(w) } else { Duration::from_millis(w) });
    }
    if kv.get("post") == Some("reject") {
        b = b.reject_when_full();
    }
    if let Some(n) = kv.get("name") {
        b = b.name(n);
    }
    b.build()
}

impl Adapter {
    pub fn new(kv: &Kv) -> Adapter {
        let mut core = Core { layer: Some(build_layer(kv)), svcs: BTreeMap::new(), gone: false };
        // service 0 exists from the start (as it always did)
        core.svc(0);
        Adapter { core: Rc::new(RefCell::new(core)) }
    }
}

/// The result as a caller sees it. The variant is read off the value by pattern matching; what the error's accessors
/// (`is_bulkhead`, `is_inner`, `bulkhead_error`, `into_inner`) and its conversion into the umbrella
/// `ResilienceError` report about the same value must say the same thing ("rejected with the bulkhead timeout error"),
/// else the result is rendered `err:accessor-mismatch:…`.
pub fn render(r: Result<Resp, BulkheadServiceError<IErr>>) -> String {
    use tower_resilience_core::ResilienceError;
    let e = match r {
        Ok(x) => return format!("ok:{}", x.v),
        Err(e) => e,
    };
    let (text, is_b) = match &e {
        BulkheadServiceError::Inner(x) => (format!("err:inner{}:{}", x.kind, x.v), false),
        BulkheadServiceError::Bulkhead(BulkheadError::Timeout) => ("err:timeout".to_string(), true),
        BulkheadServiceError::Bulkhead(BulkheadError::BulkheadFull { .. }) => ("err:full".to_string(), true),
    };
    if e.is_bulkhead() != is_b || e.is_inner() == is_b || e.bulkhead_error().is_some() != is_b {
        return format!("err:accessor-mismatch:{}", text);
    }
    if is_b {
        let inner_kind = matches!(e.bulkhead_error(), Some(BulkheadError::Timeout));
        let same = match ResilienceError::<IErr>::from(e) {
            ResilienceError::Timeout { layer } => inner_kind && layer == "bulkhead",
            ResilienceError::BulkheadFull { .. } => !inner_kind,
            _ => false,
        };
        if !same {
            return format!("err:accessor-mismatch:{}", text);
        }
    } else {
        match e.into_inner() {
            Some(x) if format!("err:inner{}:{}", x.kind, x.v) == text => {}
            _ => return format!("err:accessor-mismatch:{}", text),
        }
    }
    text
}

/// what polling a handle ready came to
enum Rdy {
    Ready,
    /// still pending when the caller gave up
    NotReady,
    /// `poll_ready` failed: the rendered error; the handle must be discarded
    Failed(String),
}

/// Poll `h` ready the way a caller does (`ready().await`): until the answer is not `Pending`, at most once per
/// scripted answer (`rdy=<script>`: what the inner service answers to the successive `poll_ready` calls, 'p' pending,
/// 'r' ready, 'e' error; no script: the inner service is ready).
fn ready_handle(inner: &Arc<Mutex<InnerShared>>, h: &mut Bulkhead<Inner>, script: &str) -> Rdy {
    if !script.is_empty() {
        inner.lock().unwrap().ready_script = script.chars().collect();
    }
    let mut res = Rdy::NotReady;
    for _ in 0..script.len().max(1) {
        match poll_ready_once::<_, Req>(h) {
            Poll::Ready(Ok(())) => {
                res = Rdy::Ready;
                break;
            }
            Poll::Ready(Err(e)) => {
                res = Rdy::Failed(render(Err(e)));
                break;
            }
            Poll::Pending => {}
        }
    }
    if !script.is_empty() {
        inner.lock().unwrap().ready_script.clear();
    }
    res
}

impl Core {
    fn svc(&mut self, k: usize) -> &mut Svc {
        if !self.svcs.contains_key(&k) {
            let inner = Inner::new();
            let shared = inner.shared.clone();
            let layer = self.layer.as_ref().expect("layer");
            let template = if k % 2 == 1 {
                // a clone of the layer value, taken after other services were built, dropped right away
                let l2 = layer.clone();
                l2.layer(inner)
            } else {
                layer.layer(inner)
            };
            self.svcs.insert(k, Svc { template, inner: shared, idle: Vec::new(), pool: BTreeMap::new() });
        }
        self.svcs.get_mut(&k).unwrap()
    }

    /// `via=` says how the caller obtains the handle it calls (all are legitimate Tower usage and must behave alike):
    /// `clone` (default) clone the template, ready the clone, call it; `readyclone` ready the template first, then
    /// clone it, ready the clone, call the clone (the template stays ready-but-uncalled); `swap` the
    /// `mem::replace` idiom: ready the template, leave a fresh clone in its place, call the readied one;
    /// `template` ready and call the template itself; `pool h=<n> [from=<m>]` a handle that is kept and called again
    /// by later arrivals with the same `h` (created at first use as a clone of the template, or of pool handle m —
    /// a clone taken from a handle that has already made calls).
    /// `rdy=<script>` scripts the inner service's answers to the readiness polls of the handle that is going to be
    /// called. A handle whose `poll_ready` failed is discarded (the caller gets the error, `result c err:inner9:0`);
    /// a handle that stays pending is not called (`result c notready`).
    fn arrive(&mut self, c: usize, kv: &Kv) -> Option<CallFut> {
        if self.gone {
            log_raw("noop".into());
            return None;
        }
        let req = Req::new(c, kv);
        let via = kv.str("via", "clone");
        let script = kv.str("rdy", "");
        let s = self.svc(kv.u64("svc", 0) as usize);
        let inner = s.inner.clone();
        let refused = |r: Rdy| match r {
            Rdy::Failed(e) => log(format!("result {} {}", c, e)),
            _ => log(format!("result {} notready", c)),
        };
        let fut = match via.as_str() {
            "readyclone" => {
                if !matches!(ready_handle(&inner, &mut s.template, ""), Rdy::Ready) {
                    log(format!("result {} notready", c));
                    return None;
                }
                let mut h = s.template.clone();
                match ready_handle(&inner, &mut h, &script) {
                    Rdy::Ready => h.call(req),
                    r => {
                        refused(r);
                        return None;
                    }
                }
            }
            "swap" | "template" => {
                // the caller keeps another clone around: a handle whose readiness failed is replaced by it
                let backup = if script.contains('e') { Some(s.template.clone()) } else { None };
                match ready_handle(&inner, &mut s.template, &script) {
                    Rdy::Ready => {
                        if via == "swap" {
                            let fresh = s.template.clone();
                            let mut readied = std::mem::replace(&mut s.template, fresh);
                            readied.call(req)
                        } else {
                            s.template.call(req)
                        }
                    }
                    r => {
                        if let (Rdy::Failed(_), Some(b)) = (&r, backup) {
                            drop(std::mem::replace(&mut s.template, b));
                        }
                        refused(r);
                        return None;
                    }
                }
            }
            "pool" => {
                let hid = kv.u64("h", 0);
                if !s.pool.contains_key(&hid) {
                    let src = kv.opt_u64("from").and_then(|m| s.pool.get(&m)).unwrap_or(&s.template).clone();
                    s.pool.insert(hid, src);
                }
                let h = s.pool.get_mut(&hid).unwrap();
                match ready_handle(&inner, h, &script) {
                    Rdy::Ready => h.call(req),
                    r => {
                        if matches!(r, Rdy::Failed(_)) {
                            s.pool.remove(&hid);
                        }
                        refused(r);
                        return None;
                    }
                }
            }
            _ => {
                let mut h = s.template.clone();
                match ready_handle(&inner, &mut h, &script) {
                    Rdy::Ready => h.call(req),
                    r => {
                        refused(r);
                        return None;
                    }
                }
            }
        };
        Some(held(fut, render))
    }
}

impl Mw for Adapter {
    fn arrive(&mut self, c: usize, kv: &Kv) -> Option<CallFut> {
        self.core.borrow_mut().arrive(c, kv)
    }
    /// a request made from inside a destructor (`manual ondrop`) or from inside the poll of an admitted call
    /// (`manual onpoll`): the same paths as `arrive`
    fn requester(&self) -> Option<Requester> {
        if self.core.borrow().gone {
            return None;
        }
        let core = self.core.clone();
        Some(Rc::new(move |c: usize, kv: &Kv| match core.try_borrow_mut() {
            Ok(mut core) => core.arrive(c, kv),
            Err(_) => None,
        }))
    }
    /// `manual dropsvc`: every handle of every service (templates, idle and pooled handles) and the layer value are
    /// dropped while calls may be in flight or not even polled yet; later `arrive`s are refused on both sides (`noop`).
    /// `manual readyidle [svc=k] [rdy=<script>]`: a handle is polled ready and then kept, never called (a balancer's
    /// ready-cache, a request abandoned between `ready()` and `call()`); it must not cost capacity. If its readiness
    /// fails it is discarded — which must not concern anybody else either.
    /// `manual clonelayer`: the layer value is replaced by a clone of itself (services built later come from the clone).
    fn manual(&mut self, what: &str, kv: &Kv) {
        let mut core = self.core.borrow_mut();
        if what == "dropsvc" {
            core.gone = true;
            core.svcs.clear();
            core.layer = None;
            log_raw("#dropsvc".into());
        }
        if core.gone {
            return;
        }
        if what == "readyidle" {
            let script = kv.str("rdy", "");
            let s = core.svc(kv.u64("svc", 0) as usize);
            let mut h = s.template.clone();
            let inner = s.inner.clone();
            if !matches!(ready_handle(&inner, &mut h, &script), Rdy::Failed(_)) {
                s.idle.push(h);
            }
        }
        if what == "clonelayer" {
            let l2 = core.layer.as_ref().map(|l| l.clone());
            core.layer = l2;
        }
    }
}
