//! C18: the real `HealthCheckWrapper` (built through its public builder) over a scripted checker.
//!
//! Not caller-based. Header: `health n=<resources> sth=<success_threshold> fth=<failure_threshold>
//! iv=<interval ms> to=<check timeout ms> delay=<initial delay ms> strat=<first|rr|prefer|random|last|oob|none|second>
//! dflt=<item>`. Each resource has a queue of scripted check results (`manual script r=<i> seq=h,d3,u,k,s`):
//! letter = result (healthy / degraded / unhealthy / unknown / s = never completes), digits = latency in
//! virtual ms counted from the call of `check()`; an empty queue yields `dflt`.
//! The checker is the harness's own, so it logs `check_start r item k`, `check_done r sym k` and (from a
//! drop guard: the wrapper's `timeout` dropped the check future) `check_drop r k` (k = serial number of the check).
//!
//! Construction paths (header): `via=cfg` builds a stand-alone `HealthCheckConfig::builder()…build()` — a setter
//! only for the keys present in the header, so absent ones keep the crate's defaults — and hands it over with
//! `HealthCheckWrapperBuilder::default().with_config(cfg)`; `pre=k:v,…` / `post=k:v,…` (k in iv,delay,to,sth,fth)
//! call the wrapper builder's own setters before / after `with_config`; `cb=1` registers `on_health_change` and
//! `on_check_failed` (logged as `cb_change r old new` / `cb_failed r`); `chk=fn` gives the checker as a boxed
//! closure (the crate's blanket `HealthChecker` impl); `start=0` does not call `start()` when the wrapper is built.
//! Ops: `manual start` / `manual stop` (`start()` again, `stop()`), `probe config` (the getters of the config value),
//! `probe u8 v=<n>` (`HealthStatus` <-> `u8`), `probe fresh n=<k>` (contexts from `HealthCheckedContext::new`, a
//! closure through the `Selector` trait, extensions).
//! Every completion is also reported as an observed choice `@o=<serial>` on the op line: the order of completions
//! that fall on one instant is the scheduler's.
//! `strat=random` (`SelectionStrategy::Random`, cargo feature `random` of the crate, on in this build): the result of
//! every `get_healthy` / `get_usable` is reported as the observed choice `@pick=<resource>|none`; the model accepts
//! exactly the eligible resources.
//! Several wrappers (header `wrappers=<k>`, default 1): k wrappers over k scripted checkers of their own, every one with the
//! header's configuration and `n` resources. With `via=cfg` they are all built with `with_config(cfg.clone())` from ONE
//! `HealthCheckConfig` value (`share=0`: from a config value built separately for each). Every `manual` / `probe` op takes
//! `w=<j>` (default 0; j >= k: `noop`); every log line of wrapper j > 0 is prefixed `w<j> `, its resources are named
//! `w<j>r<i>`, its completions are reported as `@o=<j>.<serial>` (serials count per wrapper).
use crate::world::*;
use std::collections::VecDeque;
use std::future::Future;
use std::pin::Pin;
use std::sync::{Arc, Mutex};
use std::task::{Context, Poll};
use std::time::Duration;
use tower_resilience_healthcheck::{
    HealthCheckConfig, HealthCheckWrapper, HealthCheckWrapperBuilder, HealthCheckedContext, HealthChecker, HealthStatus, SelectionStrategy, Selector,
};

#[derive(Clone, Copy, Debug)]
struct Item {
    sym: char,
    lat: u64,
}

fn parse_item(tok: &str) -> Option<Item> {
    let mut ch = tok.chars();
    let sym = ch.next()?;
    if !matches!(sym, 'h' | 'd' | 'u' | 'k' | 's') {
        return None;
    }
    let rest: String = ch.collect();
    let lat = if rest.is_empty() { 0 } else { rest.parse().ok()? };
    Some(Item { sym, lat: if sym == 's' { 0 } else { lat } })
}

fn render_item(it: &Item) -> String {
    if it.sym == 's' {
        "s".to_string()
    } else {
        format!("{}{}", it.sym, it.lat)
    }
}

struct Scripts {
    q: Vec<VecDeque<Item>>,
    dflt: Item,
    /// checks started so far in this case (next serial)
    next: u64,
}

pub struct Checker {
    scripts: Arc<Mutex<Scripts>>,
    tag: usize,
}

/// a log line of wrapper `tag`: wrapper 0 as ever, the others prefixed `w<tag> `
fn wlog(tag: usize, s: String) {
    if tag == 0 {
        log(s)
    } else {
        log(format!("w{} {}", tag, s))
    }
}

/// an observed completion of wrapper `tag`
fn wobs(tag: usize, k: u64) {
    if tag == 0 {
        obs("o", k)
    } else {
        obs("o", format!("{}.{}", tag, k))
    }
}

pub struct CheckFut {
    tag: usize,
    r: usize,
    k: u64,
    sym: char,
    sleep: Option<Pin<Box<tokio::time::Sleep>>>,
    done: bool,
}

impl Future for CheckFut {
    type Output = HealthStatus;
    fn poll(mut self: Pin<&mut Self>, cx: &mut Context<'_>) -> Poll<HealthStatus> {
        if self.sym == 's' {
            return Poll::Pending;
        }
        if let Some(s) = self.sleep.as_mut() {
            if s.as_mut().poll(cx).is_pending() {
                return Poll::Pending;
            }
        }
        self.done = true;
        wobs(self.tag, self.k);
        wlog(self.tag, format!("check_done {} {} {}", self.r, self.sym, self.k));
        Poll::Ready(match self.sym {
            'h' => HealthStatus::Healthy,
            'd' => HealthStatus::Degraded,
            'u' => HealthStatus::Unhealthy,
            _ => HealthStatus::Unknown,
        })
    }
}

impl Drop for CheckFut {
    fn drop(&mut self) {
        if !self.done {
            wobs(self.tag, self.k);
            wlog(self.tag, format!("check_drop {} {}", self.r, self.k));
        }
    }
}

fn start_check(scripts: &Arc<Mutex<Scripts>>, tag: usize, r: usize) -> CheckFut {
    let (it, k) = {
        let mut s = scripts.lock().unwrap();
        let d = s.dflt;
        let k = s.next;
        s.next += 1;
        (s.q.get_mut(r).and_then(|q| q.pop_front()).unwrap_or(d), k)
    };
    wlog(tag, format!("check_start {} {} {}", r, render_item(&it), k));
    // latency counts from the call of `check()`: the Sleep is created here
    let sleep = if it.sym != 's' && it.lat > 0 {
        Some(Box::pin(tokio::time::sleep(Duration::from_millis(it.lat))))
    } else {
        None
    };
    CheckFut { tag, r, k, sym: it.sym, sleep, done: false }
}

impl HealthChecker<usize> for Checker {
    fn check(&self, r: &usize) -> impl Future<Output = HealthStatus> + Send {
        start_check(&self.scripts, self.tag, *r)
    }
}

/// the checker given as a closure: the crate's blanket `impl HealthChecker<T> for F where F: Fn(&T) -> Fut`
type FnChecker = Box<dyn Fn(&usize) -> CheckFut + Send + Sync>;

enum W {
    S(HealthCheckWrapper<usize, Checker>),
    F(HealthCheckWrapper<usize, FnChecker>),
}

/// the same expression on whichever wrapper type the case was built with
macro_rules! on_w {
    ($wr:expr, $w:ident => $e:expr) => {
        match $wr {
            W::S($w) => $e,
            W::F($w) => $e,
        }
    };
}

pub struct Adapter {
    /// the wrappers of the case (`wrappers=<k>`), each with the config value it was built from (when `via=cfg`) and the
    /// scripts of its own checker
    wrappers: Vec<W>,
    /// the `HealthCheckConfig` value handed to `with_config` (a clone of it), when that path was taken
    configs: Vec<Option<HealthCheckConfig>>,
    scripts: Vec<Arc<Mutex<Scripts>>>,
    n: usize,
    /// `SelectionStrategy::Random`: the result of a selection is the environment's choice, reported as `@pick=`
    random: bool,
}

fn strategy(name: &str) -> SelectionStrategy {
    match name {
        "rr" => SelectionStrategy::RoundRobin,
        "prefer" => SelectionStrategy::PreferHealthy,
        "random" => SelectionStrategy::Random,
        // custom selectors (the first one is the crate's own test selector)
        "last" => SelectionStrategy::Custom(Arc::new(|st: &[HealthStatus]| {
            st.iter().enumerate().filter(|(_, s)| s.is_healthy()).next_back().map(|(i, _)| i)
        })),
        "oob" => SelectionStrategy::Custom(Arc::new(|st: &[HealthStatus]| Some(st.len()))),
        "none" => SelectionStrategy::Custom(Arc::new(|_: &[HealthStatus]| None)),
        "second" => SelectionStrategy::Custom(Arc::new(|_: &[HealthStatus]| Some(1))),
        _ => SelectionStrategy::FirstAvailable,
    }
}

fn st_name(s: HealthStatus) -> &'static str {
    match s {
        HealthStatus::Healthy => "healthy",
        HealthStatus::Degraded => "degraded",
        HealthStatus::Unhealthy => "unhealthy",
        HealthStatus::Unknown => "unknown",
    }
}

/// poll an API future once: the wrapper's accessors only await an uncontended read lock
fn now_or_pending<T>(f: impl Future<Output = T>) -> Option<T> {
    let mut f = Box::pin(f);
    match noop_cx_poll(&mut f) {
        Poll::Ready(x) => Some(x),
        Poll::Pending => None,
    }
}

pub fn render(r: Option<Option<usize>>) -> String {
    match r {
        None => "pending".into(),
        Some(None) => "none".into(),
        Some(Some(i)) => format!("{}", i),
    }
}

fn st_letter(s: HealthStatus) -> &'static str {
    match s {
        HealthStatus::Healthy => "h",
        HealthStatus::Degraded => "d",
        HealthStatus::Unhealthy => "u",
        HealthStatus::Unknown => "k",
    }
}

/// resource names are `r<i>` (wrapper 0) / `w<j>r<i>`
fn res_name(tag: usize, i: usize) -> String {
    if tag == 0 {
        format!("r{}", i)
    } else {
        format!("w{}r{}", tag, i)
    }
}

/// -> (wrapper, resource index) of a resource name
fn res_index(name: &str) -> (usize, String) {
    match name.strip_prefix('w').and_then(|x| x.split_once('r')) {
        Some((j, i)) => (j.parse().unwrap_or(0), i.to_string()),
        None => (0, name.strip_prefix('r').unwrap_or(name).to_string()),
    }
}

/// `k:v,k:v` with k in iv,delay,to,sth,fth: the wrapper builder's own setters
fn apply_setters<C: HealthChecker<usize> + 'static>(mut b: HealthCheckWrapperBuilder<usize, C>, list: &str) -> HealthCheckWrapperBuilder<usize, C> {
    for part in list.split(',') {
        let Some((k, v)) = part.split_once(':') else { continue };
        let Ok(v) = v.parse::<u64>() else { continue };
        b = match k {
            "iv" => b.with_interval(Duration::from_millis(v)),
            "delay" => b.with_initial_delay(Duration::from_millis(v)),
            "to" => b.with_timeout(Duration::from_millis(v)),
            "sth" => b.with_success_threshold(v as u32),
            "fth" => b.with_failure_threshold(v as u32),
            _ => b,
        };
    }
    b
}

/// the stand-alone config: a setter only for the keys the header has (the others keep the crate's defaults)
fn build_config(kv: &Kv) -> HealthCheckConfig {
    let mut c = HealthCheckConfig::builder();
    if let Some(v) = kv.opt_u64("iv") {
        c = c.interval(Duration::from_millis(v));
    }
    if let Some(v) = kv.opt_u64("delay") {
        c = c.initial_delay(Duration::from_millis(v));
    }
    if let Some(v) = kv.opt_u64("to") {
        c = c.timeout(Duration::from_millis(v));
    }
    if let Some(v) = kv.opt_u64("sth") {
        c = c.success_threshold(v as u32);
    }
    if let Some(v) = kv.opt_u64("fth") {
        c = c.failure_threshold(v as u32);
    }
    if let Some(s) = kv.get("strat") {
        c = c.selection_strategy(strategy(s));
    }
    if kv.u64("cb", 0) == 1 {
        c = c
            .on_health_change(|name, old, new| {
                let (j, i) = res_index(name);
                wlog(j, format!("cb_change {} {} {}", i, st_letter(old), st_letter(new)))
            })
            .on_check_failed(|name, _err| {
                let (j, i) = res_index(name);
                wlog(j, format!("cb_failed {}", i))
            });
    }
    c.build()
}

/// `shared`: the ONE config value every wrapper of the case is built from (a clone of it each)
fn build<C: HealthChecker<usize> + 'static>(
    kv: &Kv,
    n: usize,
    tag: usize,
    shared: Option<&HealthCheckConfig>,
    checker: C,
) -> (HealthCheckWrapper<usize, C>, Option<HealthCheckConfig>) {
    if kv.get("via") == Some("cfg") {
        let cfg = match shared {
            Some(c) => c.clone(),
            None => build_config(kv),
        };
        let mut b = HealthCheckWrapperBuilder::default().with_checker(checker);
        for i in 0..n {
            b = b.with_context(i, res_name(tag, i));
        }
        // setters called before `with_config` are overwritten by it, those called after it override it
        b = apply_setters(b, &kv.str("pre", ""));
        b = b.with_config(cfg.clone());
        b = apply_setters(b, &kv.str("post", ""));
        (b.build(), Some(cfg))
    } else {
        let mut b = HealthCheckWrapper::builder().with_checker(checker);
        for i in 0..n {
            b = b.with_context(i, res_name(tag, i));
        }
        let w = b
            .with_interval(Duration::from_millis(kv.u64("iv", 10)))
            .with_initial_delay(Duration::from_millis(kv.u64("delay", 0)))
            .with_timeout(Duration::from_millis(kv.u64("to", 5)))
            .with_success_threshold(kv.u64("sth", 1) as u32)
            .with_failure_threshold(kv.u64("fth", 2) as u32)
            .with_selection_strategy(strategy(&kv.str("strat", "first")))
            .build();
        (w, None)
    }
}

impl Adapter {
    /// must be called inside the runtime (`start` spawns the periodic task)
    pub fn new(kv: &Kv) -> Adapter {
        let n = kv.u64("n", 1) as usize;
        let dflt = parse_item(&kv.str("dflt", "k")).unwrap_or(Item { sym: 'k', lat: 0 });
        let k = kv.u64("wrappers", 1).max(1) as usize;
        // one config value for all the wrappers (the usual way of configuring several pools alike), or one each
        let shared = if kv.get("via") == Some("cfg") && kv.u64("share", 1) != 0 { Some(build_config(kv)) } else { None };
        let (mut wrappers, mut configs, mut scripts) = (Vec::new(), Vec::new(), Vec::new());
        for tag in 0..k {
            let sc = Arc::new(Mutex::new(Scripts { q: (0..n).map(|_| VecDeque::new()).collect(), dflt, next: 0 }));
            let (wrapper, config) = if kv.get("chk") == Some("fn") {
                let sc = sc.clone();
                let f: FnChecker = Box::new(move |r: &usize| start_check(&sc, tag, *r));
                let (w, c) = build(kv, n, tag, shared.as_ref(), f);
                (W::F(w), c)
            } else {
                let (w, c) = build(kv, n, tag, shared.as_ref(), Checker { scripts: sc.clone(), tag });
                (W::S(w), c)
            };
            wrappers.push(wrapper);
            configs.push(config);
            scripts.push(sc);
        }
        let random = kv.get("strat") == Some("random");
        let a = Adapter { wrappers, configs, scripts, n, random };
        if kv.u64("start", 1) != 0 {
            for wr in &a.wrappers {
                if on_w!(wr, w => now_or_pending(w.start())).is_none() {
                    log("#start-pending".into());
                }
            }
        }
        a
    }
}

/// `probe fresh n=<k>`: contexts as `HealthCheckedContext::new` makes them, a closure used through the `Selector`
/// trait over them, and the extension store (which must leave status and counters alone)
fn fresh(k: usize) -> String {
    let ctxs: Vec<HealthCheckedContext<usize>> = (0..k).map(|i| HealthCheckedContext::new(i, format!("f{}", i))).collect();
    let all = |c: &[HealthCheckedContext<usize>]| {
        if c.is_empty() {
            "-".to_string()
        } else {
            c.iter().map(|x| st_letter(x.status())).collect::<Vec<_>>().join(",")
        }
    };
    let before = all(&ctxs);
    let f: u64 = ctxs.iter().map(|c| c.consecutive_failures()).sum();
    let s: u64 = ctxs.iter().map(|c| c.consecutive_successes()).sum();
    let first_unusable = |c: &[HealthCheckedContext<usize>]| c.iter().position(|x| !x.status().is_usable());
    let first_usable = |c: &[HealthCheckedContext<usize>]| c.iter().position(|x| x.status().is_usable());
    let sel = format!("{}/{}", render(Some(Selector::select(&first_unusable, &ctxs))), render(Some(Selector::select(&first_usable, &ctxs))));
    let opt = |v: Option<u64>| v.map(|x| x.to_string()).unwrap_or_else(|| "none".to_string());
    let ext = match ctxs.first() {
        None => "-".to_string(),
        Some(c) => {
            c.set_extension("x", Box::new(7u64));
            format!(
                "{}/{}/{}/{}",
                opt(c.get_extension::<u64>("x")),
                opt(c.get_extension::<u32>("x").map(|x| x as u64)),
                opt(c.get_extension::<u64>("y")),
                opt(c.clone().get_extension::<u64>("x"))
            )
        }
    };
    format!("{} f={} s={} sel={} ext={} after={}", before, f, s, sel, ext, all(&ctxs))
}

impl Mw for Adapter {
    fn arrive(&mut self, _c: usize, _kv: &Kv) -> Option<CallFut> {
        log("noop".into());
        None
    }
    fn yields(&self) -> usize {
        48 * self.wrappers.len()
    }
    fn manual(&mut self, what: &str, kv: &Kv) {
        // the wrapper the op is for (`w=<j>`, default 0)
        let j = kv.u64("w", 0) as usize;
        if j >= self.wrappers.len() {
            log("noop".into());
            return;
        }
        let wr = &self.wrappers[j];
        match what {
            "start" => {
                // `start()` again: the running periodic task is aborted, a new one spawned
                if on_w!(wr, w => now_or_pending(w.start())).is_none() {
                    log("#start-pending".into());
                }
                wlog(j, "started".into());
                return;
            }
            "stop" => {
                if on_w!(wr, w => now_or_pending(w.stop())).is_none() {
                    log("#stop-pending".into());
                }
                wlog(j, "stopped".into());
                return;
            }
            "script" => {}
            _ => {
                wlog(j, "noop".into());
                return;
            }
        }
        let r = kv.opt_u64("r").map(|x| x as usize);
        let items: Option<Vec<Item>> = kv.get("seq").map(|s| s.split(',').map(parse_item).collect()).unwrap_or(None);
        match (r, items) {
            (Some(r), Some(items)) if r < self.n => {
                self.scripts[j].lock().unwrap().q[r].extend(items);
            }
            _ => wlog(j, "noop".into()),
        }
    }
    fn probe(&mut self, what: &str, kv: &Kv) {
        let j = kv.u64("w", 0) as usize;
        if j >= self.wrappers.len() {
            log("noop".into());
            return;
        }
        let wr = &self.wrappers[j];
        let log = |s: String| wlog(j, s);
        match what {
            "status" | "details" => {
                let Some(r) = kv.opt_u64("r") else {
                    log("noop".into());
                    return;
                };
                let name = res_name(j, r as usize);
                if what == "status" {
                    let s = on_w!(wr, w => now_or_pending(w.get_status(&name)));
                    let txt = match s {
                        None => "pending",
                        Some(None) => "none",
                        Some(Some(s)) => st_name(s),
                    };
                    log(format!("probe status r={} = {}", r, txt));
                } else {
                    let d = on_w!(wr, w => now_or_pending(w.get_health_details())).unwrap_or_default();
                    match d.iter().find(|d| d.name == name) {
                        Some(d) => log(format!(
                            "probe details r={} = {} f={} s={}",
                            r,
                            st_name(d.status),
                            d.consecutive_failures,
                            d.consecutive_successes
                        )),
                        None => log(format!("probe details r={} = none", r)),
                    }
                }
            }
            "all" => {
                let v = on_w!(wr, w => now_or_pending(w.get_all_statuses())).unwrap_or_default();
                let txt: Vec<&str> = v.iter().map(|(_, s)| st_letter(*s)).collect();
                log(format!("probe all = {}", if txt.is_empty() { "-".to_string() } else { txt.join(",") }));
            }
            "get_healthy" | "get_usable" => {
                let res = if what == "get_healthy" {
                    on_w!(wr, w => now_or_pending(w.get_healthy()))
                } else {
                    on_w!(wr, w => now_or_pending(w.get_usable()))
                };
                if self.random {
                    obs("pick", render(res));
                }
                log(format!("probe {} = {}", what, render(res)));
            }
            "config" => match &self.configs[j] {
                // the getters of the stand-alone config value
                Some(c) => log(format!(
                    "probe config = iv={} delay={} to={} sth={} fth={}",
                    c.interval().as_millis(),
                    c.initial_delay().as_millis(),
                    c.timeout().as_millis(),
                    c.success_threshold(),
                    c.failure_threshold()
                )),
                None => log("noop".into()),
            },
            "u8" => match kv.opt_u64("v") {
                Some(v) if v < 256 => {
                    let st = HealthStatus::from(v as u8);
                    log(format!("probe u8 v={} = {} {}", v, st_name(st), u8::from(st)));
                }
                _ => log("noop".into()),
            },
            "fresh" => match kv.opt_u64("n") {
                Some(k) if k <= 8 => log(format!("probe fresh n={} = {}", k, fresh(k as usize))),
                _ => log("noop".into()),
            },
            _ => log("noop".into()),
        }
    }
}
