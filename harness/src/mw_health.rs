//! C18: the real `HealthCheckWrapper` (built through its public builder) over a scripted checker.
//!
//! Not caller-based. Header: `health n=<resources> sth=<success_threshold> fth=<failure_threshold>
//! iv=<interval ms> to=<check timeout ms> delay=<initial delay ms> strat=<first|rr|prefer|last|oob|none|second>
//! dflt=<item>`. Each resource has a queue of scripted check results (`manual script r=<i> seq=h,d3,u,k,s`):
//! letter = result (healthy / degraded / unhealthy / unknown / s = never completes), digits = latency in
//! virtual ms counted from the call of `check()`; an empty queue yields `dflt`.
//! The checker is the harness's own, so it logs `check_start r item`, `check_done r sym` and (from a
//! drop guard: the wrapper's `timeout` dropped the check future) `check_drop r`.
use crate::world::*;
use std::collections::VecDeque;
use std::future::Future;
use std::pin::Pin;
use std::sync::{Arc, Mutex};
use std::task::{Context, Poll};
use std::time::Duration;
use tower_resilience_healthcheck::{HealthCheckWrapper, HealthChecker, HealthStatus, SelectionStrategy};

#[derive(Clone, Copy, Debug)]
struct Item {
    sym: char,
    lat: u64,
}

fn parse_item(tok: &str) -> Option<Item> {
    let mut ch = tok.chars();
    let sym = ch.next()?;
    if !matches!(sym, 'h' | 'd' | 'u' | 'k' | 's') {
        return None;
    }
    let rest: String = ch.collect();
    let lat = if rest.is_empty() { 0 } else { rest.parse().ok()? };
    Some(Item { sym, lat: if sym == 's' { 0 } else { lat } })
}

fn render_item(it: &Item) -> String {
    if it.sym == 's' {
        "s".to_string()
    } else {
        format!("{}{}", it.sym, it.lat)
    }
}

struct Scripts {
    q: Vec<VecDeque<Item>>,
    dflt: Item,
}

pub struct Checker {
    scripts: Arc<Mutex<Scripts>>,
}

struct CheckFut {
    r: usize,
    sym: char,
    sleep: Option<Pin<Box<tokio::time::Sleep>>>,
    done: bool,
}

impl Future for CheckFut {
    type Output = HealthStatus;
    fn poll(mut self: Pin<&mut Self>, cx: &mut Context<'_>) -> Poll<HealthStatus> {
        if self.sym == 's' {
            return Poll::Pending;
        }
        if let Some(s) = self.sleep.as_mut() {
            if s.as_mut().poll(cx).is_pending() {
                return Poll::Pending;
            }
        }
        self.done = true;
        log(format!("check_done {} {}", self.r, self.sym));
        Poll::Ready(match self.sym {
            'h' => HealthStatus::Healthy,
            'd' => HealthStatus::Degraded,
            'u' => HealthStatus::Unhealthy,
            _ => HealthStatus::Unknown,
        })
    }
}

impl Drop for CheckFut {
    fn drop(&mut self) {
        if !self.done {
            log(format!("check_drop {}", self.r));
        }
    }
}

impl HealthChecker<usize> for Checker {
    fn check(&self, r: &usize) -> impl Future<Output = HealthStatus> + Send {
        let it = {
            let mut s = self.scripts.lock().unwrap();
            let d = s.dflt;
            s.q.get_mut(*r).and_then(|q| q.pop_front()).unwrap_or(d)
        };
        log(format!("check_start {} {}", r, render_item(&it)));
        // latency counts from the call of `check()`: the Sleep is created here
        let sleep = if it.sym != 's' && it.lat > 0 {
            Some(Box::pin(tokio::time::sleep(Duration::from_millis(it.lat))))
        } else {
            None
        };
        CheckFut { r: *r, sym: it.sym, sleep, done: false }
    }
}

pub struct Adapter {
    wrapper: HealthCheckWrapper<usize, Checker>,
    scripts: Arc<Mutex<Scripts>>,
    n: usize,
}

fn strategy(name: &str) -> SelectionStrategy {
    match name {
        "rr" => SelectionStrategy::RoundRobin,
        "prefer" => SelectionStrategy::PreferHealthy,
        // custom selectors (the first one is the crate's own test selector)
        "last" => SelectionStrategy::Custom(Arc::new(|st: &[HealthStatus]| {
            st.iter().enumerate().filter(|(_, s)| s.is_healthy()).next_back().map(|(i, _)| i)
        })),
        "oob" => SelectionStrategy::Custom(Arc::new(|st: &[HealthStatus]| Some(st.len()))),
        "none" => SelectionStrategy::Custom(Arc::new(|_: &[HealthStatus]| None)),
        "second" => SelectionStrategy::Custom(Arc::new(|_: &[HealthStatus]| Some(1))),
        _ => SelectionStrategy::FirstAvailable,
    }
}

fn st_name(s: HealthStatus) -> &'static str {
    match s {
        HealthStatus::Healthy => "healthy",
        HealthStatus::Degraded => "degraded",
        HealthStatus::Unhealthy => "unhealthy",
        HealthStatus::Unknown => "unknown",
    }
}

/// poll an API future once: the wrapper's accessors only await an uncontended read lock
fn now_or_pending<T>(f: impl Future<Output = T>) -> Option<T> {
    let mut f = Box::pin(f);
    match noop_cx_poll(&mut f) {
        Poll::Ready(x) => Some(x),
        Poll::Pending => None,
    }
}

pub fn render(r: Option<Option<usize>>) -> String {
    match r {
        None => "pending".into(),
        Some(None) => "none".into(),
        Some(Some(i)) => format!("{}", i),
    }
}

impl Adapter {
    /// must be called inside the runtime (`start` spawns the periodic task)
    pub fn new(kv: &Kv) -> Adapter {
        let n = kv.u64("n", 1) as usize;
        let dflt = parse_item(&kv.str("dflt", "k")).unwrap_or(Item { sym: 'k', lat: 0 });
        let scripts = Arc::new(Mutex::new(Scripts { q: (0..n).map(|_| VecDeque::new()).collect(), dflt }));
        let mut b = HealthCheckWrapper::builder().with_checker(Checker { scripts: scripts.clone() });
        for i in 0..n {
            b = b.with_context(i, format!("r{}", i));
        }
        let wrapper = b
            .with_interval(Duration::from_millis(kv.u64("iv", 10)))
            .with_initial_delay(Duration::from_millis(kv.u64("delay", 0)))
            .with_timeout(Duration::from_millis(kv.u64("to", 5)))
            .with_success_threshold(kv.u64("sth", 1) as u32)
            .with_failure_threshold(kv.u64("fth", 2) as u32)
            .with_selection_strategy(strategy(&kv.str("strat", "first")))
            .build();
        if now_or_pending(wrapper.start()).is_none() {
            log("#start-pending".into());
        }
        Adapter { wrapper, scripts, n }
    }
}

impl Mw for Adapter {
    fn arrive(&mut self, _c: usize, _kv: &Kv) -> Option<CallFut> {
        log("noop".into());
        None
    }
    fn yields(&self) -> usize {
        48
    }
    fn manual(&mut self, what: &str, kv: &Kv) {
        if what != "script" {
            log("noop".into());
            return;
        }
        let r = kv.opt_u64("r").map(|x| x as usize);
        let items: Option<Vec<Item>> = kv.get("seq").map(|s| s.split(',').map(parse_item).collect()).unwrap_or(None);
        match (r, items) {
            (Some(r), Some(items)) if r < self.n => {
                self.scripts.lock().unwrap().q[r].extend(items);
            }
            _ => log("noop".into()),
        }
    }
    fn probe(&mut self, what: &str, kv: &Kv) {
        match what {
            "status" | "details" => {
                let Some(r) = kv.opt_u64("r") else {
                    log("noop".into());
                    return;
                };
                let name = format!("r{}", r);
                if what == "status" {
                    let s = now_or_pending(self.wrapper.get_status(&name));
                    let txt = match s {
                        None => "pending",
                        Some(None) => "none",
                        Some(Some(s)) => st_name(s),
                    };
                    log(format!("probe status r={} = {}", r, txt));
                } else {
                    let d = now_or_pending(self.wrapper.get_health_details()).unwrap_or_default();
                    match d.iter().find(|d| d.name == name) {
                        Some(d) => log(format!(
                            "probe details r={} = {} f={} s={}",
                            r,
                            st_name(d.status),
                            d.consecutive_failures,
                            d.consecutive_successes
                        )),
                        None => log(format!("probe details r={} = none", r)),
                    }
                }
            }
            "all" => {
                let v = now_or_pending(self.wrapper.get_all_statuses()).unwrap_or_default();
                let txt: Vec<&str> = v
                    .iter()
                    .map(|(_, s)| match s {
                        HealthStatus::Healthy => "h",
                        HealthStatus::Degraded => "d",
                        HealthStatus::Unhealthy => "u",
                        HealthStatus::Unknown => "k",
                    })
                    .collect();
                log(format!("probe all = {}", if txt.is_empty() { "-".to_string() } else { txt.join(",") }));
            }
            "get_healthy" => log(format!("probe get_healthy = {}", render(now_or_pending(self.wrapper.get_healthy())))),
            "get_usable" => log(format!("probe get_usable = {}", render(now_or_pending(self.wrapper.get_usable())))),
            _ => log("noop".into()),
        }
    }
}
