//! C13 (part A): the real limit algorithms (`Aimd` over `AimdController`, `Vegas`) with hooked
//! atomics under the baton scheduler.
//! header: `limit kind=aimd|vegas min= max= initial= inc= fnum= fden= thr_ms= alpha= beta=`
//! ops: `manual thread t=<i> prog=<S<d>|F|L…>`, `manual warm prog=…` (sequential, on this thread, no
//! scheduler), `manual sched s=<tid,tid,…>` (runs the thread programs under the schedule).
use crate::sched::run_scheduled;
use crate::world::*;
use std::sync::Arc;
use std::time::Duration;
use tower_resilience_adaptive::{Aimd, Algorithm, ConcurrencyAlgorithm, Vegas};

/// latency table of the op language `S<d>` (nanoseconds); 0..3 are powers of two
pub fn lat_ns(d: u32) -> u64 {
    match d {
        0..=3 => 1u64 << (20 + d),
        4 => 3_000_000,
        5 => 5_000_000,
        6 => 7_000_000,
        7 => 1_000_000,
        8 => 1,
        _ => 0,
    }
}

#[derive(Clone, Copy, Debug)]
pub enum FOp {
    Succ(u64),
    Fail,
    Read,
}

pub fn parse_prog(s: &str) -> Vec<FOp> {
    let cs: Vec<char> = s.chars().collect();
    let mut v = Vec::new();
    let mut i = 0;
    while i < cs.len() {
        match cs[i] {
            'S' if i + 1 < cs.len() => {
                v.push(FOp::Succ(lat_ns((cs[i + 1] as u32).saturating_sub(48))));
                i += 2;
            }
            'F' => {
                v.push(FOp::Fail);
                i += 1;
            }
            'L' => {
                v.push(FOp::Read);
                i += 1;
            }
            _ => i += 1,
        }
    }
    v
}

/// The algorithm built through the public builders from the case header.
pub fn build_algorithm(kv: &Kv) -> Algorithm {
    let (min, max, initial) = (kv.u64("min", 1) as usize, kv.u64("max", 100) as usize, kv.u64("initial", 10) as usize);
    if kv.str("kind", "aimd") == "vegas" {
        Algorithm::Vegas(
            Vegas::builder()
                .initial_limit(initial)
                .min_limit(min)
                .max_limit(max)
                .alpha(kv.u64("alpha", 3) as usize)
                .beta(kv.u64("beta", 6) as usize)
                .build(),
        )
    } else {
        Algorithm::Aimd(
            Aimd::builder()
                .initial_limit(initial)
                .min_limit(min)
                .max_limit(max)
                .increase_by(kv.u64("inc", 1) as usize)
                .decrease_factor(kv.u64("fnum", 1) as f64 / kv.u64("fden", 2) as f64)
                .latency_threshold(Duration::from_millis(kv.u64("thr_ms", 100)))
                .build(),
        )
    }
}

/// Runs a feedback program on the calling thread; returns the values read by `limit()`.
pub fn run_prog(a: &Algorithm, prog: &[FOp]) -> Vec<String> {
    let mut out = Vec::new();
    for op in prog {
        match op {
            FOp::Succ(ns) => a.record_success(Duration::from_nanos(*ns)),
            FOp::Fail => a.record_failure(),
            FOp::Read => out.push(a.limit().to_string()),
        }
    }
    out
}

pub fn render_outs(o: &[String]) -> String {
    if o.is_empty() {
        "none".to_string()
    } else {
        o.join(",")
    }
}

pub struct Adapter {
    alg: Arc<Algorithm>,
    progs: Vec<String>,
}

impl Adapter {
    pub fn new(kv: &Kv) -> Adapter {
        Adapter { alg: Arc::new(build_algorithm(kv)), progs: Vec::new() }
    }
}

impl Mw for Adapter {
    fn arrive(&mut self, _c: usize, _kv: &Kv) -> Option<CallFut> {
        None
    }
    fn manual(&mut self, what: &str, kv: &Kv) {
        match what {
            "thread" => {
                let t = kv.u64("t", 0) as usize;
                while self.progs.len() <= t {
                    self.progs.push(String::new());
                }
                self.progs[t] = kv.str("prog", "");
            }
            "warm" => {
                let o = run_prog(&self.alg, &parse_prog(&kv.str("prog", "")));
                log(format!("warm {}", render_outs(&o)));
                log(format!("limit {}", self.alg.limit()));
            }
            "sched" => {
                let schedule: Vec<usize> =
                    kv.str("s", "").split(',').filter(|x| !x.is_empty()).filter_map(|x| x.parse().ok()).collect();
                let mut bodies: Vec<Box<dyn FnOnce() -> Vec<String> + Send>> = Vec::new();
                for p in std::mem::take(&mut self.progs) {
                    let a = self.alg.clone();
                    bodies.push(Box::new(move || run_prog(&a, &parse_prog(&p))));
                }
                let (trace, outs) = run_scheduled(bodies, &schedule);
                for l in trace {
                    log(l);
                }
                for (i, o) in outs.iter().enumerate() {
                    log(format!("th {} {}", i, render_outs(o)));
                }
                log(format!("limit {}", self.alg.limit()));
            }
            _ => {}
        }
    }
}
