//! C13 (part A): the real limit algorithms (`Aimd` over `AimdController`, `Vegas`, the bare `AimdController`) with hooked
//! atomics under the baton scheduler.
//! header: `limit kind=aimd|vegas|ctl min= max= initial= inc= fnum= fden= thr_ms= alpha= beta= via=builder|new|layer`
//! (`via`: the construction path — the algorithm's own builder, `Aimd::new(AimdConfig…)` / `Vegas::new(…)`, or the
//! builders handed out by `AdaptiveLimiterLayer::builder().aimd()` / `.vegas()`; `kind=ctl`: `AimdController::new` over an
//! `AimdConfig` built with `with_*` (`via=new`) or from `AimdConfig::default()` (otherwise))
//! ops: `manual thread t=<i> prog=<S<d>|F|L|X|m|M|N<k>|R|K…>`, `manual warm prog=…` (sequential, on this thread, no
//! scheduler), `manual sched s=<tid,tid,…>` (runs the thread programs under the schedule).
//! `X` = `record_dropped()`, `m` / `M` = `min_limit()` / `max_limit()` (no atomic operation: the harness yields once in
//! front of them, so each is one turn); `N<k>` = `record_successes(k)` (`k` a digit, or `a`…`e`: `usize::MAX`, `usize::MAX - 1`,
//! `2^63`, `2^32`, `usize::MAX / 2` — the additive step saturates; `inc=` takes any `usize` too), `R` = `reset()`, `K` = `clone()` + one success on
//! the clone (its two limits are reported) — the bare controller only; elsewhere they are one yield and nothing else.
//!
//! Protocol level: every `warm` and every `sched` also records the value-level trace of the hooked atomics with the
//! begin / end of every API call and hands it to the model as the observed choice `@tr=` of the operation; the limit
//! cell is the cell a `limit()` call made first (thread 99) loads. The claim `trace-ok` is confirmed or refuted by the
//! model's verified checker (`TR.Limit.checkTrace`).
use crate::sched::{atrace_push, atrace_take, observe_here, probe_cell, run_scheduled, unobserve_here};
use crate::world::*;
use std::sync::Arc;
use std::time::Duration;
use tower_resilience_adaptive::{AdaptiveLimiterLayer, Aimd, Algorithm, ConcurrencyAlgorithm, Vegas};
use tower_resilience_core::aimd::{AimdConfig, AimdController};
use tower_resilience_core::verif::yield_point;

/// latency table of the op language `S<d>` (nanoseconds); 0..3 are powers of two
pub fn lat_ns(d: u32) -> u64 {
    match d {
        0..=3 => 1u64 << (20 + d),
        4 => 3_000_000,
        5 => 5_000_000,
        6 => 7_000_000,
        7 => 1_000_000,
        8 => 1,
        _ => 0,
    }
}

/// the count of the op `N<c>` (`record_successes(n)`): a digit is itself; `a` … `e` are the counts at which the `usize`
/// arithmetic of the code saturates (`TR.Limit.succsCount`)
pub fn succs_count(c: char) -> usize {
    match c {
        'a' => usize::MAX,
        'b' => usize::MAX - 1,
        'c' => 1usize << 63,
        'd' => 1usize << 32,
        'e' => usize::MAX / 2,
        _ => (c as u32).saturating_sub(48) as usize,
    }
}

#[derive(Clone, Copy, Debug)]
pub enum FOp {
    Succ(u64),
    Fail,
    Read,
    Dropped,
    MinL,
    MaxL,
    Succs(usize),
    Reset,
    CloneOp,
}

pub fn parse_prog(s: &str) -> Vec<FOp> {
    let cs: Vec<char> = s.chars().collect();
    let mut v = Vec::new();
    let mut i = 0;
    while i < cs.len() {
        match cs[i] {
            'S' if i + 1 < cs.len() => {
                v.push(FOp::Succ(lat_ns((cs[i + 1] as u32).saturating_sub(48))));
                i += 2;
            }
            'N' if i + 1 < cs.len() => {
                v.push(FOp::Succs(succs_count(cs[i + 1])));
                i += 2;
            }
            'F' => {
                v.push(FOp::Fail);
                i += 1;
            }
            'L' => {
                v.push(FOp::Read);
                i += 1;
            }
            'X' => {
                v.push(FOp::Dropped);
                i += 1;
            }
            'm' => {
                v.push(FOp::MinL);
                i += 1;
            }
            'M' => {
                v.push(FOp::MaxL);
                i += 1;
            }
            'R' => {
                v.push(FOp::Reset);
                i += 1;
            }
            'K' => {
                v.push(FOp::CloneOp);
                i += 1;
            }
            _ => i += 1,
        }
    }
    v
}

/// What a feedback program runs on: one of the `ConcurrencyAlgorithm`s, or the bare controller.
pub trait Target: Send + Sync {
    fn succ(&self, ns: u64);
    fn fail(&self);
    fn dropped(&self);
    fn limit(&self) -> usize;
    fn min_limit(&self) -> usize;
    fn max_limit(&self) -> usize;
    /// the bare controller: `record_successes`, `reset`, `Clone`
    fn ctl(&self) -> Option<&AimdController> {
        None
    }
}
impl<A: ConcurrencyAlgorithm> Target for A {
    fn succ(&self, ns: u64) {
        self.record_success(Duration::from_nanos(ns))
    }
    fn fail(&self) {
        self.record_failure()
    }
    fn dropped(&self) {
        self.record_dropped()
    }
    fn limit(&self) -> usize {
        ConcurrencyAlgorithm::limit(self)
    }
    fn min_limit(&self) -> usize {
        ConcurrencyAlgorithm::min_limit(self)
    }
    fn max_limit(&self) -> usize {
        ConcurrencyAlgorithm::max_limit(self)
    }
}
pub struct Ctl(pub AimdController);
impl Target for Ctl {
    fn succ(&self, _ns: u64) {
        self.0.record_success()
    }
    fn fail(&self) {
        self.0.record_failure()
    }
    fn dropped(&self) {}
    fn limit(&self) -> usize {
        self.0.limit()
    }
    fn min_limit(&self) -> usize {
        // the accessor and the configuration it was built from must tell the same
        let (a, b) = (self.0.min_limit(), self.0.config().min_limit);
        if a == b {
            a
        } else {
            usize::MAX
        }
    }
    fn max_limit(&self) -> usize {
        let (a, b) = (self.0.max_limit(), self.0.config().max_limit);
        if a == b {
            a
        } else {
            usize::MAX
        }
    }
    fn ctl(&self) -> Option<&AimdController> {
        Some(&self.0)
    }
}

fn cfg_nums(kv: &Kv) -> (usize, usize, usize) {
    (kv.u64("min", 1) as usize, kv.u64("max", 100) as usize, kv.u64("initial", 10) as usize)
}

/// The algorithm built through one of its public construction paths (`via=`) from the case header.
pub fn build_algorithm(kv: &Kv) -> Algorithm {
    let (min, max, initial) = cfg_nums(kv);
    let via = kv.str("via", "builder");
    if kv.str("kind", "aimd") == "vegas" {
        let (alpha, beta) = (kv.u64("alpha", 3) as usize, kv.u64("beta", 6) as usize);
        Algorithm::Vegas(match via.as_str() {
            "new" => Vegas::new(initial, min, max, alpha, beta),
            _ => {
                let b = if via == "layer" { AdaptiveLimiterLayer::<Algorithm>::builder().vegas() } else { Vegas::builder() };
                b.initial_limit(initial).min_limit(min).max_limit(max).alpha(alpha).beta(beta).build()
            }
        })
    } else {
        let (inc, factor, thr) = (
            kv.u64("inc", 1) as usize,
            kv.u64("fnum", 1) as f64 / kv.u64("fden", 2) as f64,
            Duration::from_millis(kv.u64("thr_ms", 100)),
        );
        Algorithm::Aimd(match via.as_str() {
            "new" => Aimd::new(aimd_config(kv, true), thr),
            _ => {
                let b = if via == "layer" { AdaptiveLimiterLayer::<Algorithm>::builder().aimd() } else { Aimd::builder() };
                b.initial_limit(initial)
                    .min_limit(min)
                    .max_limit(max)
                    .increase_by(inc)
                    .decrease_factor(factor)
                    .latency_threshold(thr)
                    .build()
            }
        })
    }
}

fn aimd_config(kv: &Kv, fresh: bool) -> AimdConfig {
    let (min, max, initial) = cfg_nums(kv);
    let c = if fresh { AimdConfig::new() } else { AimdConfig::default() };
    c.with_initial_limit(initial)
        .with_min_limit(min)
        .with_max_limit(max)
        .with_increase_by(kv.u64("inc", 1) as usize)
        .with_decrease_factor(kv.u64("fnum", 1) as f64 / kv.u64("fden", 2) as f64)
}

/// the target of the feedback programs of a `limit` case
pub fn build_target(kv: &Kv) -> Arc<dyn Target> {
    if kv.str("kind", "aimd") == "ctl" {
        Arc::new(Ctl(AimdController::new(aimd_config(kv, kv.str("via", "builder") == "new"))))
    } else {
        Arc::new(build_algorithm(kv))
    }
}

fn code(op: &FOp) -> String {
    match op {
        FOp::Succ(ns) => format!("S{}", ns),
        FOp::Fail => "F".into(),
        FOp::Read => "L".into(),
        FOp::Dropped => "X".into(),
        FOp::MinL => "m".into(),
        FOp::MaxL => "M".into(),
        FOp::Succs(n) => format!("N{}", n),
        FOp::Reset => "R".into(),
        FOp::CloneOp => "K".into(),
    }
}

/// One operation of a feedback program on the calling thread; returns what it reports (`limit()` / accessor values).
fn run_op<T: Target + ?Sized>(a: &T, op: &FOp) -> Vec<String> {
    match op {
        FOp::Succ(ns) => a.succ(*ns),
        FOp::Fail => a.fail(),
        FOp::Read => return vec![a.limit().to_string()],
        FOp::Dropped => {
            yield_point();
            a.dropped()
        }
        FOp::MinL => {
            yield_point();
            return vec![a.min_limit().to_string()];
        }
        FOp::MaxL => {
            yield_point();
            return vec![a.max_limit().to_string()];
        }
        FOp::Succs(n) => match a.ctl() {
            Some(c) => c.record_successes(*n),
            None => yield_point(),
        },
        FOp::Reset => match a.ctl() {
            Some(c) => c.reset(),
            None => yield_point(),
        },
        FOp::CloneOp => match a.ctl() {
            Some(c) => {
                // a clone is a controller of its own: same limit, same configuration, nothing shared
                let k = c.clone();
                let l0 = k.limit();
                k.record_success();
                return vec![l0.to_string(), k.limit().to_string()];
            }
            None => yield_point(),
        },
    }
    Vec::new()
}

/// Runs a feedback program on the calling thread, the begin / end of every operation marked in the value-level trace (as
/// thread `tid`); returns the values read by `limit()` (and the accessors).
pub fn run_prog_traced<T: Target + ?Sized>(a: &T, tid: usize, prog: &[FOp]) -> Vec<String> {
    let mut out = Vec::new();
    for op in prog {
        let c = code(op);
        atrace_push(format!("b{}:{}", tid, c));
        let r = run_op(a, op);
        // the End marker carries what the call reported: `limit()` / `min_limit()` / `max_limit()` the value, the bare
        // controller's `clone()` the limit the clone started from
        let res = match op {
            FOp::Read | FOp::MinL | FOp::MaxL | FOp::CloneOp => r.first().cloned().unwrap_or_else(|| "-".into()),
            _ => "-".into(),
        };
        atrace_push(format!("e{}:{}:{}", tid, c, res));
        out.extend(r);
    }
    out
}

/// the text of a recorded trace: the cells the probes found, then the entries
pub fn trace_text(lim_cell: Option<String>, inf_cell: Option<String>) -> String {
    let at = atrace_take();
    format!("k{},{};{}", lim_cell.unwrap_or_else(|| "-".into()), inf_cell.unwrap_or_else(|| "-".into()), at.join(";"))
}

/// A sequential feedback program on the calling thread with its value-level trace recorded (as thread 0); the trace
/// becomes the observed choice `@tr=` of the operation in progress.
pub fn traced_sequential<T: Target + ?Sized>(a: &T, prog: &[FOp]) -> Vec<String> {
    let _ = atrace_take();
    let lc = probe_cell(99, "L", || a.limit() as u64);
    observe_here(0);
    let o = run_prog_traced(a, 0, prog);
    unobserve_here();
    obs("tr", trace_text(lc, None));
    o
}

/// the protocol-level lines of a round / warm-up (compared with what the model's verified checker derives from the
/// trace): the claim, what every thread reported, the limit (and the in-flight count) the round left behind
pub fn log_protocol(outs: &[Vec<String>], limit: usize, in_flight: Option<usize>) {
    log("trace-ok".to_string());
    for (i, o) in outs.iter().enumerate() {
        log(format!("trace-th {} {}", i, render_outs(o)));
    }
    match in_flight {
        Some(n) => log(format!("trace-end {} {}", limit, n)),
        None => log(format!("trace-end {}", limit)),
    }
}

pub fn render_outs(o: &[String]) -> String {
    if o.is_empty() {
        "none".to_string()
    } else {
        o.join(",")
    }
}

pub struct Adapter {
    alg: Arc<dyn Target>,
    progs: Vec<String>,
}

impl Adapter {
    pub fn new(kv: &Kv) -> Adapter {
        Adapter { alg: build_target(kv), progs: Vec::new() }
    }
}

impl Mw for Adapter {
    fn arrive(&mut self, _c: usize, _kv: &Kv) -> Option<CallFut> {
        None
    }
    fn manual(&mut self, what: &str, kv: &Kv) {
        match what {
            "thread" => {
                let t = kv.u64("t", 0) as usize;
                while self.progs.len() <= t {
                    self.progs.push(String::new());
                }
                self.progs[t] = kv.str("prog", "");
            }
            "warm" => {
                let o = traced_sequential(&*self.alg, &parse_prog(&kv.str("prog", "")));
                log(format!("warm {}", render_outs(&o)));
                log(format!("limit {}", self.alg.limit()));
                log_protocol(&[o], self.alg.limit(), None);
            }
            "sched" => {
                let schedule: Vec<usize> = crate::sched::parse_schedule(&kv.str("s", ""));
                let mut bodies: Vec<Box<dyn FnOnce() -> Vec<String> + Send>> = Vec::new();
                let _ = atrace_take();
                // which cell is the limit cell: the one `limit()` loads
                let lc = probe_cell(99, "L", || self.alg.limit() as u64);
                for (tid, p) in std::mem::take(&mut self.progs).into_iter().enumerate() {
                    let a = self.alg.clone();
                    bodies.push(Box::new(move || run_prog_traced(&*a, tid, &parse_prog(&p))));
                }
                let (trace, outs) = run_scheduled(bodies, &schedule);
                obs("tr", trace_text(lc, None));
                for l in trace {
                    log(l);
                }
                for (i, o) in outs.iter().enumerate() {
                    log(format!("th {} {}", i, render_outs(o)));
                }
                log(format!("limit {}", self.alg.limit()));
                log_protocol(&outs, self.alg.limit(), None);
            }
            _ => {}
        }
    }
}
