//! Baton scheduler for the atomics hook (C08, C13): k OS threads, each blocked before every hooked
//! atomic operation until the schedule names it. One granted turn = one atomic operation.
use std::sync::{Arc, Condvar, Mutex};

// ------------------------------------------------------------------ value-level trace of the hooked atomics
// Every scheduled thread reports each hooked atomic operation it performs (kind, cell, value before, value after,
// whether it wrote) through `tower_resilience_core::verif::set_observer`; scenario bodies add their own markers
// (begin / end of an API call) with `atrace_push`. Under the baton scheduler exactly one thread runs between two
// yield points, so the order of the entries is the order in which the operations took effect.
static ATRACE: Mutex<Vec<String>> = Mutex::new(Vec::new());
static CELLS: Mutex<Vec<usize>> = Mutex::new(Vec::new());
pub fn atrace_push(s: String) {
    ATRACE.lock().unwrap_or_else(|e| e.into_inner()).push(s);
}
pub fn atrace_take() -> Vec<String> {
    CELLS.lock().unwrap_or_else(|e| e.into_inner()).clear();
    std::mem::take(&mut *ATRACE.lock().unwrap_or_else(|e| e.into_inner()))
}
fn cell_name(addr: usize, wide: bool) -> String {
    let mut c = CELLS.lock().unwrap_or_else(|e| e.into_inner());
    let ix = match c.iter().position(|a| *a == addr) {
        Some(i) => i,
        None => {
            c.push(addr);
            c.len() - 1
        }
    };
    format!("{}{}", if wide { "w" } else { "n" }, ix)
}
fn install_observer(tid: usize) {
    tower_resilience_core::verif::set_observer(Some(Box::new(move |e| {
        let k = match e.kind {
            "load" => "l",
            "store" => "s",
            "cas" => "c",
            _ => "u",
        };
        atrace_push(format!("a{},{},{},{},{},{}", tid, k, cell_name(e.cell, e.wide), e.old, e.new, if e.ok { 1 } else { 0 }));
    })));
}

/// Installs the trace observer on the CALLING thread (a sequential section outside `run_scheduled*`: a warm-up, a probe,
/// the tear-down after a round); its atomic operations are reported as those of thread `tid`. `unobserve_here` removes it.
pub fn observe_here(tid: usize) {
    install_observer(tid);
}
pub fn unobserve_here() {
    tower_resilience_core::verif::set_observer(None);
}
/// Finds out which cell an accessor reads: runs `f` (one call of `limit()`, `in_flight()`, …) on the calling thread,
/// observed as thread `tid`, between the markers `b<tid>:<code>` / `e<tid>:<code>:<value>`, and returns the name of the
/// cell it loaded — `None` unless it performed atomic operations on exactly one cell.
pub fn probe_cell(tid: usize, code: &str, f: impl FnOnce() -> u64) -> Option<String> {
    let from = ATRACE.lock().unwrap_or_else(|e| e.into_inner()).len();
    atrace_push(format!("b{}:{}", tid, code));
    observe_here(tid);
    let v = f();
    unobserve_here();
    atrace_push(format!("e{}:{}:{}", tid, code, v));
    let t = ATRACE.lock().unwrap_or_else(|e| e.into_inner());
    let mut cells: Vec<String> = Vec::new();
    for e in t[from..].iter().filter(|e| e.starts_with('a')) {
        if let Some(c) = e.split(',').nth(2) {
            if !cells.iter().any(|x| x == c) {
                cells.push(c.to_string());
            }
        }
    }
    if cells.len() == 1 {
        cells.pop()
    } else {
        None
    }
}

/// A schedule entry `WEAK + tid` is the turn of thread `tid` in which a `compare_exchange_weak` fails spuriously (if that
/// is the thread's next atomic operation; otherwise it is an ordinary turn). Written `f<tid>` in the op language.
pub const WEAK: usize = 1 << 20;

/// `0,1,f0,2` → thread ids, `f<tid>` as `WEAK + tid`
pub fn parse_schedule(s: &str) -> Vec<usize> {
    s.split(',')
        .filter(|x| !x.is_empty())
        .filter_map(|x| match x.strip_prefix('f') {
            Some(t) => t.parse::<usize>().ok().map(|t| WEAK + t),
            None => x.parse().ok(),
        })
        .collect()
}

struct St {
    turn: Option<usize>,
    at_yield: Vec<bool>,
    done: Vec<bool>,
    /// the turn just granted to the thread is one in which a weak compare-exchange fails spuriously
    weak: Vec<bool>,
}
struct Shared {
    m: Mutex<St>,
    cv: Condvar,
}

/// Runs the thread bodies under `schedule` (a list of thread ids); when the schedule is exhausted
/// the remaining threads run to completion one at a time, lowest id first. Returns the trace of
/// turns (`step <tid>` / `skip <tid>` for a turn given to a finished thread) and the bodies' outputs.
pub fn run_scheduled(
    bodies: Vec<Box<dyn FnOnce() -> Vec<String> + Send>>,
    schedule: &[usize],
) -> (Vec<String>, Vec<Vec<String>>) {
    run_scheduled_full(bodies, schedule, false, |_| {})
}

/// `inner`: the threads also stop inside every hooked `fetch_update`, between running its closure and the
/// compare-exchange (finer than the modelled step: used for monitor-only search, e.g. for closures with side effects).
pub fn run_scheduled_opt(
    bodies: Vec<Box<dyn FnOnce() -> Vec<String> + Send>>,
    schedule: &[usize],
    inner: bool,
) -> (Vec<String>, Vec<Vec<String>>) {
    run_scheduled_full(bodies, schedule, inner, |_| {})
}

/// `on_turn` is called with every trace line at the moment the turn is decided, i.e. while every thread is
/// blocked (or finished) and BEFORE the named thread is let go: a caller that writes the line to the event log gets
/// it in front of whatever the thread logs during that turn. Turns are also granted at explicit
/// `tower_resilience_core::verif::yield_point()` calls of a body.
pub fn run_scheduled_with(
    bodies: Vec<Box<dyn FnOnce() -> Vec<String> + Send>>,
    schedule: &[usize],
    on_turn: impl FnMut(&str),
) -> (Vec<String>, Vec<Vec<String>>) {
    run_scheduled_full(bodies, schedule, false, on_turn)
}

pub fn run_scheduled_full(
    bodies: Vec<Box<dyn FnOnce() -> Vec<String> + Send>>,
    schedule: &[usize],
    inner: bool,
    mut on_turn: impl FnMut(&str),
) -> (Vec<String>, Vec<Vec<String>>) {
    let _busy = crate::world::Busy::new();
    let n = bodies.len();
    let sh = Arc::new(Shared {
        m: Mutex::new(St { turn: None, at_yield: vec![false; n], done: vec![false; n], weak: vec![false; n] }),
        cv: Condvar::new(),
    });
    let mut handles = Vec::new();
    for (tid, body) in bodies.into_iter().enumerate() {
        let sh2 = sh.clone();
        handles.push(std::thread::spawn(move || {
            let sh3 = sh2.clone();
            tower_resilience_core::verif::set_yield_hook(Some(Box::new(move || {
                let mut st = sh3.m.lock().unwrap();
                st.at_yield[tid] = true;
                // a weak turn whose operation was not a weak compare-exchange was an ordinary turn
                st.weak[tid] = false;
                sh3.cv.notify_all();
                while st.turn != Some(tid) {
                    st = sh3.cv.wait(st).unwrap();
                }
                st.turn = None;
                st.at_yield[tid] = false;
            })));
            if inner {
                let sh4 = sh2.clone();
                tower_resilience_core::verif::set_inner_yield_hook(Some(Box::new(move || {
                    let mut st = sh4.m.lock().unwrap();
                    st.at_yield[tid] = true;
                    sh4.cv.notify_all();
                    while st.turn != Some(tid) {
                        st = sh4.cv.wait(st).unwrap();
                    }
                    st.turn = None;
                    st.at_yield[tid] = false;
                })));
            }
            #[cfg(weak_hook)]
            {
                let sh5 = sh2.clone();
                tower_resilience_core::verif::set_weak_fail_hook(Some(Box::new(move || {
                    let mut st = sh5.m.lock().unwrap();
                    std::mem::replace(&mut st.weak[tid], false)
                })));
            }
            install_observer(tid);
            let r = std::panic::catch_unwind(std::panic::AssertUnwindSafe(body));
            #[cfg(weak_hook)]
            tower_resilience_core::verif::set_weak_fail_hook(None);
            tower_resilience_core::verif::set_observer(None);
            tower_resilience_core::verif::set_yield_hook(None);
            tower_resilience_core::verif::set_inner_yield_hook(None);
            let mut st = sh2.m.lock().unwrap();
            st.done[tid] = true;
            sh2.cv.notify_all();
            match r {
                Ok(v) => v,
                Err(_) => vec!["panic".to_string()],
            }
        }));
    }
    let quiescent = |st: &St| st.turn.is_none() && (0..n).all(|i| st.done[i] || st.at_yield[i]);
    let mut trace = Vec::new();
    let mut grant = |want: Option<usize>, trace: &mut Vec<String>| -> bool {
        let mut st = sh.m.lock().unwrap();
        while !quiescent(&st) {
            st = sh.cv.wait(st).unwrap();
        }
        let (want, weak) = match want {
            Some(t) if t >= WEAK => (Some(t - WEAK), true),
            w => (w, false),
        };
        let sfx = if weak { " weak" } else { "" };
        let tid = match want {
            Some(t) => {
                if t >= n || st.done[t] {
                    trace.push(format!("skip {}{}", t, sfx));
                    on_turn(trace.last().unwrap());
                    return true;
                }
                t
            }
            None => match (0..n).find(|&i| !st.done[i]) {
                Some(t) => t,
                None => return false,
            },
        };
        trace.push(format!("step {}{}", tid, sfx));
        on_turn(trace.last().unwrap());
        st.weak[tid] = weak;
        st.turn = Some(tid);
        sh.cv.notify_all();
        true
    };
    for &t in schedule {
        grant(Some(t), &mut trace);
    }
    let mut guard = 0;
    while grant(None, &mut trace) {
        guard += 1;
        if guard > 100_000 {
            trace.push("livelock".into());
            break;
        }
    }
    let outs = handles.into_iter().map(|h| h.join().unwrap_or_else(|_| vec!["join-panic".into()])).collect();
    (trace, outs)
}
