//! Baton scheduler for the atomics hook (C08, C13): k OS threads, each blocked before every hooked
//! atomic operation until the schedule names it. One granted turn = one atomic operation.
use std::sync::{Arc, Condvar, Mutex};

struct St {
    turn: Option<usize>,
    at_yield: Vec<bool>,
    done: Vec<bool>,
}
struct Shared {
    m: Mutex<St>,
    cv: Condvar,
}

/// Runs the thread bodies under `schedule` (a list of thread ids); when the schedule is exhausted
/// the remaining threads run to completion one at a time, lowest id first. Returns the trace of
/// turns (`step <tid>` / `skip <tid>` for a turn given to a finished thread) and the bodies' outputs.
pub fn run_scheduled(
    bodies: Vec<Box<dyn FnOnce() -> Vec<String> + Send>>,
    schedule: &[usize],
) -> (Vec<String>, Vec<Vec<String>>) {
    run_scheduled_full(bodies, schedule, false, |_| {})
}

/// `inner`: the threads also stop inside every hooked `fetch_update`, between running its closure and the
/// compare-exchange (finer than the modelled step: used for monitor-only search, e.g. for closures with side effects).
pub fn run_scheduled_opt(
    bodies: Vec<Box<dyn FnOnce() -> Vec<String> + Send>>,
    schedule: &[usize],
    inner: bool,
) -> (Vec<String>, Vec<Vec<String>>) {
    run_scheduled_full(bodies, schedule, inner, |_| {})
}

/// `on_turn` is called with every trace line at the moment the turn is decided, i.e. while every thread is
/// blocked (or finished) and BEFORE the named thread is let go: a caller that writes the line to the event log gets
/// it in front of whatever the thread logs during that turn. Turns are also granted at explicit
/// `tower_resilience_core::verif::yield_point()` calls of a body.
pub fn run_scheduled_with(
    bodies: Vec<Box<dyn FnOnce() -> Vec<String> + Send>>,
    schedule: &[usize],
    on_turn: impl FnMut(&str),
) -> (Vec<String>, Vec<Vec<String>>) {
    run_scheduled_full(bodies, schedule, false, on_turn)
}

pub fn run_scheduled_full(
    bodies: Vec<Box<dyn FnOnce() -> Vec<String> + Send>>,
    schedule: &[usize],
    inner: bool,
    mut on_turn: impl FnMut(&str),
) -> (Vec<String>, Vec<Vec<String>>) {
    let _busy = crate::world::Busy::new();
    let n = bodies.len();
    let sh = Arc::new(Shared {
        m: Mutex::new(St { turn: None, at_yield: vec![false; n], done: vec![false; n] }),
        cv: Condvar::new(),
    });
    let mut handles = Vec::new();
    for (tid, body) in bodies.into_iter().enumerate() {
        let sh2 = sh.clone();
        handles.push(std::thread::spawn(move || {
            let sh3 = sh2.clone();
            tower_resilience_core::verif::set_yield_hook(Some(Box::new(move || {
                let mut st = sh3.m.lock().unwrap();
                st.at_yield[tid] = true;
                sh3.cv.notify_all();
                while st.turn != Some(tid) {
                    st = sh3.cv.wait(st).unwrap();
                }
                st.turn = None;
                st.at_yield[tid] = false;
            })));
            if inner {
                let sh4 = sh2.clone();
                tower_resilience_core::verif::set_inner_yield_hook(Some(Box::new(move || {
                    let mut st = sh4.m.lock().unwrap();
                    st.at_yield[tid] = true;
                    sh4.cv.notify_all();
                    while st.turn != Some(tid) {
                        st = sh4.cv.wait(st).unwrap();
                    }
                    st.turn = None;
                    st.at_yield[tid] = false;
                })));
            }
            let r = std::panic::catch_unwind(std::panic::AssertUnwindSafe(body));
            tower_resilience_core::verif::set_yield_hook(None);
            tower_resilience_core::verif::set_inner_yield_hook(None);
            let mut st = sh2.m.lock().unwrap();
            st.done[tid] = true;
            sh2.cv.notify_all();
            match r {
                Ok(v) => v,
                Err(_) => vec!["panic".to_string()],
            }
        }));
    }
    let quiescent = |st: &St| st.turn.is_none() && (0..n).all(|i| st.done[i] || st.at_yield[i]);
    let mut trace = Vec::new();
    let mut grant = |want: Option<usize>, trace: &mut Vec<String>| -> bool {
        let mut st = sh.m.lock().unwrap();
        while !quiescent(&st) {
            st = sh.cv.wait(st).unwrap();
        }
        let tid = match want {
            Some(t) => {
                if t >= n || st.done[t] {
                    trace.push(format!("skip {}", t));
                    on_turn(trace.last().unwrap());
                    return true;
                }
                t
            }
            None => match (0..n).find(|&i| !st.done[i]) {
                Some(t) => t,
                None => return false,
            },
        };
        trace.push(format!("step {}", tid));
        on_turn(trace.last().unwrap());
        st.turn = Some(tid);
        sh.cv.notify_all();
        true
    };
    for &t in schedule {
        grant(Some(t), &mut trace);
    }
    let mut guard = 0;
    while grant(None, &mut trace) {
        guard += 1;
        if guard > 100_000 {
            trace.push("livelock".into());
            break;
        }
    }
    let outs = handles.into_iter().map(|h| h.join().unwrap_or_else(|_| vec!["join-panic".into()])).collect();
    (trace, outs)
}
