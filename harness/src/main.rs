//! trh — drives the real tower-resilience middleware under a virtual clock and a manual poller.
//! usage: trh <ops-file>      (prints the event log, one `case <n>` block per case)
mod world;
mod mw_bulkhead;
mod mw_adaptive;
mod mw_limit;
mod mw_stack;
mod mw_timelimiter;
mod mw_chaos;
mod mw_fallback;
mod mw_budget;
mod sched;
mod mw_coalesce;
mod mw_backoff;
mod mw_reconnect;
mod mw_hedge;
mod mw_ratelimiter;
mod mw_retry;
mod mw_health;
mod mw_cache;
mod mw_circuit;

use std::io::Write;
use world::*;

fn make(mw: &str, kv: &Kv) -> Option<Box<dyn Mw>> {
    match mw {
        "bulkhead" => Some(Box::new(mw_bulkhead::Adapter::new(kv))),
        "circuit" => Some(Box::new(mw_circuit::Adapter::new(kv))),
        "cache" => Some(Box::new(mw_cache::Adapter::new(kv))),
        "health" => Some(Box::new(mw_health::Adapter::new(kv))),
        "retry" => Some(Box::new(mw_retry::Adapter::new(kv))),
        "ratelimiter" => Some(Box::new(mw_ratelimiter::Adapter::new(kv))),
        "hedge" => Some(Box::new(mw_hedge::Adapter::new(kv))),
        "reconnect" => Some(Box::new(mw_reconnect::Adapter::new(kv))),
        "backoff" => Some(Box::new(mw_backoff::Adapter::new(kv))),
        "coalesce" => Some(Box::new(mw_coalesce::Adapter::new(kv))),
        "budget" => Some(Box::new(mw_budget::Adapter::new(kv))),
        "fallback" => Some(Box::new(mw_fallback::Adapter::new(kv))),
        "chaos" => Some(Box::new(mw_chaos::Adapter::new(kv))),
        "timelimiter" => Some(Box::new(mw_timelimiter::Adapter::new(kv))),
        "stack" => Some(Box::new(mw_stack::Adapter::new(kv))),
        "limit" => Some(Box::new(mw_limit::Adapter::new(kv))),
        "adaptive" => Some(mw_adaptive::make(kv)),
        _ => None,
    }
}

/// A tracing subscriber that is interested in everything and records nothing: with it installed every
/// `tracing::debug!`/`trace!` call site of the crates is enabled, so the expressions in their fields are evaluated —
/// as they are in a deployment that logs at DEBUG. Logging must not change what a call does.
struct EverythingEnabled;
impl tracing::Subscriber for EverythingEnabled {
    fn enabled(&self, _: &tracing::Metadata<'_>) -> bool {
        true
    }
    fn new_span(&self, _: &tracing::span::Attributes<'_>) -> tracing::span::Id {
        tracing::span::Id::from_u64(1)
    }
    fn record(&self, _: &tracing::span::Id, _: &tracing::span::Record<'_>) {}
    fn record_follows_from(&self, _: &tracing::span::Id, _: &tracing::span::Id) {}
    fn event(&self, _: &tracing::Event<'_>) {}
    fn enter(&self, _: &tracing::span::Id) {}
    fn exit(&self, _: &tracing::span::Id) {}
}

fn main() {
    let args: Vec<String> = std::env::args().collect();
    if args.len() < 2 {
        eprintln!("usage: trh <ops-file>");
        std::process::exit(2);
    }
    clock_selftest();
    if args[1] == "--selftest" {
        println!("clock-ok");
        return;
    }
    std::panic::set_hook(Box::new(|_| {}));
    if std::env::var("TRH_NO_TRACING").is_err() {
        let _ = tracing::subscriber::set_global_default(EverythingEnabled);
    }
    // no progress for this long (wall time) = a hung case: see `world::start_watchdog`
    start_watchdog(std::env::var("TRH_HANG_MS").ok().and_then(|v| v.parse().ok()).unwrap_or(5000));
    let text = std::fs::read_to_string(&args[1]).expect("read ops file");
    // `--annotate <file>`: write the op file back with `settle`/`dropall` expanded into the polls
    // and drops actually performed and the implementation's observed choices appended (` @k=v`)
    let mut annotate = if args.len() >= 4 && args[2] == "--annotate" {
        Some(std::io::BufWriter::new(std::fs::File::create(&args[3]).expect("create annotate file")))
    } else {
        None
    };
    let stdout = std::io::stdout();
    let mut out = std::io::BufWriter::new(stdout.lock());
    let mut lines = text.lines().peekable();
    while let Some(line) = lines.next() {
        let words: Vec<&str> = line.split_whitespace().collect();
        if words.first() != Some(&"case") {
            continue;
        }
        let n = words.get(1).cloned().unwrap_or("0").to_string();
        let mwname = words.get(2).cloned().unwrap_or("").to_string();
        let kv = Kv::parse(&words[3.min(words.len())..]);
        set_tick_ns(if kv.get("tick") == Some("us") { 1_000 } else { 1_000_000 });
        let mut ops = Vec::new();
        for l in lines.by_ref() {
            if l.trim() == "end" {
                break;
            }
            ops.push(l.to_string());
        }
        {
            let _io = Busy::new();
            writeln!(out, "case {}", n).unwrap();
            // everything up to here is out of the process before the case runs (the watchdog cannot flush this buffer)
            out.flush().unwrap();
        }
        watch_case(&n);
        begin_case();
        let header = line.to_string();
        let r = std::panic::catch_unwind(std::panic::AssertUnwindSafe(|| {
            let rt = tokio::runtime::Builder::new_current_thread()
                .enable_time()
                .start_paused(true)
                .build()
                .unwrap();
            rt.block_on(async {
                match make(&mwname, &kv) {
                    Some(mut mw) => run_ops(mw.as_mut(), &ops).await,
                    None => log_raw(format!("#unknown-middleware {}", mwname)),
                }
            });
            drop(rt);
        }));
        // writing the case's log and its annotated form (the value-level traces make that file large) can stall on a loaded
        // machine (a full pipe, dirty-page throttling): that is not an operation of the middleware making no progress
        let _io = Busy::new();
        for l in take_log() {
            writeln!(out, "{}", l).unwrap();
        }
        if let Some(a) = annotate.as_mut() {
            writeln!(a, "{}", header).unwrap();
            for l in take_annotated() {
                writeln!(a, "{}", l).unwrap();
            }
            writeln!(a, "end").unwrap();
            a.flush().unwrap();
        }
        if r.is_err() {
            writeln!(out, "#harness-panic").unwrap();
        }
    }
}
