//! C20: any stack of the thirteen layers over a contract-checking inner service, with a `Tap` at
//! every service boundary that logs the Tower-contract events (`clone`, `poll_ready`, `call`).
//!
//! header: `stack layers=<outermost,…,innermost> inner=strict|climit|buffer [ready=<script>] [rec=<ms>] [cl=<n>] [lp=<mask>]
//!          [ls=<mask> lsms=<ms>] [lq=<n> lqinner=<lat:out>] [rl=<limit>:<period ms>:<fixed|log|counter>:<timeout ms>] [lpt=<mask>]`
//! `rl=…`: the configuration of every `ratelimiter` layer of the stack (default `100000:1000:fixed:0`, never at its limit): with a
//! small limit the limiter is a TRIGGERING layer — it rejects (`ratelimiter!limited`, nothing forwarded) or, with a non-zero
//! timeout, delays requests while its window is used up, and is transparent again once the window has rolled over; its
//! decisions are logged (`rl <layer> acquired|rejected`, by a listener) so that the monitors can tell which is which.
//! reconnect (one callback per kind, crate feature `tracing`): `on_state_change` runs the three counting listeners (and panics
//! when one of them did — only on the transitions in `lpt=<mask>`, bit 0 Connected→Disconnected, bit 1 Disconnected→Reconnecting,
//! bit 2 →Connected; default 7), `on_reconnect` is listener 3 (`lp` bit 3): `probe listeners … cb=<told> twincb=<told>`.
//! `rec=<ms>`: every instance of the scripted inner service answers `Pending` to `poll_ready` for that long after a call
//! (time-based, with a timer wake-up; clones start recovered) — a retry / reconnect attempt must wait for it;
//! with `recall=1` the whole service recovers: after a call on any instance every instance, fresh clones included,
//! is pending for that long (the layers leave a fresh clone behind with every call, which a per-instance recovery never meets).
//! `lq=<n>`: the completion listeners of the outermost layer make up to n probe calls (see `Prober`); `manual probes`
//! polls unfinished probes once, `probe probes` reports every probe (`presult <k> <outcome> twin=<outcome>`).
//! `lqe=<n> lqat=<j>`: EVERY listener event of layer j (admission, retry, pass-through, completion — whatever the layer
//! emits on the call path) makes a probe call through the whole stack from inside the listener, at most n per case
//! ("a listener may always USE the service"); these probes' outcomes are not compared with the twin's (the emitting call
//! is legitimately in flight), only that they end, that no call's outcome changes and that the later listeners still run.
//! `arrive … keep=1` + `release c`: the caller keeps its FINISHED call future alive (both stacks: the pair is kept).
//! `cf<j>=<knob>:<value>[/<knob>:<value>…]`: the configuration of layer j (see `Cf`; every knob has the default that the layer
//! name stands for, so a header without `cf…` means what it meant):
//!   retry `ma:<max attempts>` `maf:1` (through `max_attempts_fn`) `bo:<back-off ms>` `ro:e1|e2|all|none` (which errors are retried);
//!   fallback `st:value|valuefn|fromerr|fromreq|service|exc` `hp:never|e1|e2|all|unset` (the `handle` predicate; `unset` = none configured: every error is handled)
//!   `ho:1` (predicate set before the strategy); hedge `n:<max_hedged_attempts>` `d:<ms>|max|none` (`none` = `no_delay()`);
//!   time limiter `to:<ms>|max`; bulkhead `mc:<max concurrent>` `mw:<ms>` (not set = wait for ever); cache `sz:<n>` `ttl:<ms>|max`
//!   `ev:lru|lfu|fifo`; circuit `cb:<window>:<minimum calls>:<failure rate %>`; adaptive `lim:<n>` (initial = min = max);
//!   chaos `ef:0` (no `error_fn`) `ero:1` (`error_fn` before `error_rate`) `lat:1` (latency bounds set, rate 0);
//!   reconnect `pol:none` `ma:<n>|unl` `ror:0`; executor `ex:handle|new|cur` (explicit handle, `ExecutorLayer::new(CurrentRuntime::new())`,
//!   `ExecutorLayer::current()`; default `builder().current()`); retry also `po:1` (`retry_on` BEFORE the back-off setter)
//!   `bk:fixed|exp|fn` (`fixed_backoff` / `exponential_backoff` / `backoff(f)`).
//! `arrive … off=1`: the request is made — `poll_ready`, `call`, first poll — on a plain OS thread OUTSIDE any tokio context; the
//! call future is handed back and polled by the case's runtime from then on (for stacks with `executor` outermost).
//! `arrive … clonepanic=1`: the error this request's inner calls produce panics the first time it is cloned (see `SErr::clone`;
//! for stacks whose innermost layer is coalesce and that have no twin: the copy for the waiters is the first clone).
//! `arrive … gone=1`: fire-and-forget — `poll_ready`, `call`, and the call future is DROPPED at once (both stacks), never polled,
//! before the runtime had a turn (so before any task a layer spawned in `call` was polled): no answer, no `result` line
//! (`#drop <c> <t> gone`). What a layer that moves the call into a task of its own (executor) must still do is stated by the
//! model: the request is forwarded (see `TR.Stack.machine`, `unforwarded`).
//! Every answer of the observed stack is also recorded as `@fin=<c>:<answer>` (spaces as `_`) on the operation that produced
//! it: the model driver answers with ITS `result` line for the request — the answer `TR.Stack.denote` predicts from the layers'
//! configurations and the request's scripted outcomes wherever it predicts one, the observed answer otherwise.
//! boundary `b0` is the one the harness drives, `b<n>` the one of the inner service.
//! log:  `b<j> clone <src> <new>` · `b<j> poll <i> ready|pending|err` · `b<j> call <i> <tag>` · `b<j> ret <k> <tag> <answer>`
//! (`ret`: the future of the k-th call at boundary j — made for request `tag` — has resolved with that answer, rendered like a
//! caller's result with spaces as `_`; a call future that is dropped or panics has no `ret`)
//! Every boundary event is also recorded with `world::obs("ev", …)` so the model driver replays it.
//!
//! layer names (non-triggering configurations unless the name says otherwise):
//!   bulkhead ratelimiter circuit timelimiter timelimiter_nocancel retry cache fallback hedge hedge1
//!   hedge_fire hedge_parallel reconnect adaptive coalesce executor chaos
//!   (+ circuit_slow; bulkhead1 = one slot, full is rejected at once; bulkhead1w = one slot, wait at most 10 ms)
//! `retry` / `reconnect` re-issue the request on errors whose text contains `ierr1`; `hedge_fire`
//! starts a second attempt 5 ms after the first, `hedge_parallel` starts three attempts at once;
//! `hedge` (2 attempts, 1 h delay) waits for its hedge when the primary fails, `hedge1` has one attempt.
//!
//! The inner service is always the strict scripted service (`inner_call c k tag=… ready=0|1`), either
//! bare (`inner=strict`, with the readiness script `ready=`) or behind tower's `ConcurrencyLimit`
//! (`inner=climit cl=<n>`) or `Buffer` (`inner=buffer`), which reserve capacity in `poll_ready` and
//! panic in `call` when it was not reserved.
//!
//! Twin ("listeners only observe"): with `lp=<mask>` ≠ 0 a second, identical stack with `lp=0` is built
//! (quiet: no log, no obs, its own inner service and serial counter) and driven in lock-step: the same
//! readiness polls and the call in the same `arrive`, the two call futures polled one after the other in
//! every poll of the caller. `twin-mismatch c <a> <b>` is logged when the two answers differ (an answer
//! that is not there in the same step counts as `pending`); `probe listeners` prints both count vectors.
use crate::world::*;
use futures::future::BoxFuture;
use std::collections::VecDeque;
use std::future::Future;
use std::panic::{catch_unwind, AssertUnwindSafe};
use std::pin::Pin;
use std::collections::BTreeSet;
use std::sync::atomic::{AtomicBool, AtomicU64, Ordering};
use std::sync::{Arc, Mutex};
use std::task::{Context, Poll, Waker};
use std::time::Duration;
use tower::util::BoxCloneService;
use tower::{Layer, Service, ServiceExt};

#[derive(Debug, PartialEq)]
pub struct SErr(pub String);
/// `arrive … clonepanic=1`: the ERROR this request's inner call produces panics the first time it is cloned — `Clone` of the
/// error type is code of the wrapped service (a layer that copies results, coalesce, must cope with it unwinding). Only the
/// error as the inner service produced it (`ierr<k>:<serial>`, unwrapped) is armed: the copy the innermost layer makes.
static CP_TAGS: Mutex<BTreeSet<u64>> = Mutex::new(BTreeSet::new());
static CP_ERRS: Mutex<BTreeSet<String>> = Mutex::new(BTreeSet::new());
static CP_DONE: Mutex<BTreeSet<String>> = Mutex::new(BTreeSet::new());
impl Clone for SErr {
    fn clone(&self) -> SErr {
        let armed = {
            let mut e = CP_ERRS.lock().unwrap_or_else(|e| e.into_inner());
            !e.is_empty() && e.remove(&self.0)
        };
        if armed {
            panic!("Clone of the inner service's error panics (clonepanic=1)");
        }
        SErr(self.0.clone())
    }
}
impl std::fmt::Display for SErr {
    fn fmt(&self, f: &mut std::fmt::Formatter<'_>) -> std::fmt::Result {
        write!(f, "{}", self.0)
    }
}
impl std::error::Error for SErr {}

pub type BoxSvc = BoxCloneService<Req, Resp, SErr>;

// ------------------------------------------------------------------ Tap

struct TapShared {
    next: Mutex<Vec<u64>>,
    /// calls made so far at each boundary (the k-th call's answer is reported as `ret k …`)
    calls: Mutex<Vec<u64>>,
    /// the twin's taps neither log nor record observations
    quiet: bool,
}
pub struct Tap<S> {
    inner: S,
    b: usize,
    id: u64,
    sh: Arc<TapShared>,
    /// instant (ns in the case) of this instance's last logged `pending` answer not followed by another answer or a
    /// call: a further `pending` of the same instance at the same instant is a stutter (the caller re-polling while
    /// time stands still) and is not logged again — it changes neither the contract monitor nor the layer automaton
    /// (a pending poll only clears the "just happened" registers, which the first one already did)
    last_pending: Option<u64>,
}
fn ev(sh: &TapShared, b: usize, what: String) {
    if sh.quiet {
        return;
    }
    log(format!("b{} {}", b, what));
    obs("ev", format!("b{}:{}", b, what.replace(' ', ":")));
}
impl<S: Clone> Clone for Tap<S> {
    fn clone(&self) -> Self {
        let new = {
            let mut n = self.sh.next.lock().unwrap_or_else(|e| e.into_inner());
            let v = n[self.b];
            n[self.b] += 1;
            v
        };
        // the event comes first: the events a clone causes below appear in call order
        ev(&self.sh, self.b, format!("clone {} {}", self.id, new));
        let inner = self.inner.clone();
        Tap { inner, b: self.b, id: new, sh: self.sh.clone(), last_pending: None }
    }
}
thread_local! {
    /// how many `Service::call` / `Service::poll_ready` frames of tapped services are on the stack: a listener that runs
    /// inside one of them (cache emits hit / miss in its synchronous `call()`) does not probe — the layer automaton
    /// treats a layer's synchronous clone / call sequence as atomic
    static SYNC_DEPTH: std::cell::Cell<u32> = const { std::cell::Cell::new(0) };
}
struct InSync;
impl InSync {
    fn enter() -> InSync {
        SYNC_DEPTH.with(|d| d.set(d.get() + 1));
        InSync
    }
}
impl Drop for InSync {
    fn drop(&mut self) {
        SYNC_DEPTH.with(|d| d.set(d.get().saturating_sub(1)));
    }
}
fn in_sync_service_method() -> bool {
    SYNC_DEPTH.with(|d| d.get() > 0)
}

impl<S> Service<Req> for Tap<S>
where
    S: Service<Req, Response = Resp, Error = SErr>,
{
    type Response = Resp;
    type Error = SErr;
    type Future = TapFut<S::Future>;
    fn poll_ready(&mut self, cx: &mut Context<'_>) -> Poll<Result<(), SErr>> {
        let _g = InSync::enter();
        let r = self.inner.poll_ready(cx);
        let s = match &r {
            Poll::Ready(Ok(())) => "ready",
            Poll::Ready(Err(_)) => "err",
            Poll::Pending => "pending",
        };
        if r.is_pending() {
            let t = now_ns_in_case();
            if self.last_pending == Some(t) {
                return r;
            }
            self.last_pending = Some(t);
        } else {
            self.last_pending = None;
        }
        ev(&self.sh, self.b, format!("poll {} {}", self.id, s));
        r
    }
    fn call(&mut self, req: Req) -> TapFut<S::Future> {
        self.last_pending = None;
        ev(&self.sh, self.b, format!("call {} {}", self.id, req.tag));
        let k = {
            let mut c = self.sh.calls.lock().unwrap_or_else(|e| e.into_inner());
            let v = c[self.b];
            c[self.b] += 1;
            v
        };
        let tag = req.tag;
        let _g = InSync::enter();
        TapFut { fut: Box::pin(self.inner.call(req)), b: self.b, k, tag, sh: self.sh.clone(), done: false }
    }
}

/// The call future seen at a boundary: reports the answer it resolves with (`b<j> ret <k> <tag> <answer>`). Like `MapEFut` it
/// keeps the wrapped future after completion, for as long as it lives itself.
pub struct TapFut<F> {
    fut: Pin<Box<F>>,
    b: usize,
    k: u64,
    tag: u64,
    sh: Arc<TapShared>,
    done: bool,
}
impl<F> Future for TapFut<F>
where
    F: Future<Output = Result<Resp, SErr>>,
{
    type Output = Result<Resp, SErr>;
    fn poll(mut self: Pin<&mut Self>, cx: &mut Context<'_>) -> Poll<Self::Output> {
        if self.done {
            panic!("call future polled after completion");
        }
        match self.fut.as_mut().poll(cx) {
            Poll::Ready(r) => {
                self.done = true;
                let s = match &r {
                    Ok(x) => format!("ok:{}:tag={}", x.v, x.tag),
                    Err(e) => format!("err:{}", e.0),
                };
                ev(&self.sh, self.b, format!("ret {} {} {}", self.k, self.tag, s.replace(' ', "_")));
                if let Err(e) = &r {
                    // `clonepanic=1`: the inner service's own error (not yet wrapped by any layer) is armed, once
                    if e.0.starts_with("ierr") && CP_TAGS.lock().unwrap_or_else(|e| e.into_inner()).contains(&self.tag)
                        && CP_DONE.lock().unwrap_or_else(|e| e.into_inner()).insert(e.0.clone())
                    {
                        CP_ERRS.lock().unwrap_or_else(|e| e.into_inner()).insert(e.0.clone());
                    }
                }
                Poll::Ready(r)
            }
            Poll::Pending => Poll::Pending,
        }
    }
}

fn tap<S>(svc: S, b: usize, sh: &Arc<TapShared>) -> BoxSvc
where
    S: Service<Req, Response = Resp, Error = SErr> + Clone + Send + 'static,
    S::Future: Send + 'static,
{
    BoxCloneService::new(Tap { inner: svc, b, id: 0, sh: sh.clone(), last_pending: None })
}

// ------------------------------------------------------------------ the twin's inner service

/// `world::Inner` (strict), transcribed without any logging and with a serial counter of its own, so
/// that the twin stack leaves no trace in the event log and does not disturb the serial numbers.
struct QShared {
    next_instance: u64,
    ready_script: VecDeque<char>,
    serial: u64,
    recover_ms: u64,
    recover_all: bool,
    busy_until: Option<tokio::time::Instant>,
}
pub struct QInner {
    shared: Arc<Mutex<QShared>>,
    ready: bool,
    recovering: Option<Pin<Box<tokio::time::Sleep>>>,
}
impl QInner {
    fn strict(script: &str, recover_ms: u64, recover_all: bool) -> QInner {
        let sh = QShared { next_instance: 1, ready_script: script.chars().collect(), serial: 0, recover_ms, recover_all, busy_until: None };
        QInner { shared: Arc::new(Mutex::new(sh)), ready: false, recovering: None }
    }
}
impl Clone for QInner {
    fn clone(&self) -> QInner {
        self.shared.lock().unwrap().next_instance += 1;
        QInner { shared: self.shared.clone(), ready: false, recovering: None }
    }
}
pub struct QFut {
    sleep: Option<Pin<Box<tokio::time::Sleep>>>,
    c: usize,
    k: u64,
    tag: u64,
    out: Out,
    done: bool,
}
impl Future for QFut {
    type Output = Result<Resp, IErr>;
    fn poll(mut self: Pin<&mut Self>, cx: &mut Context<'_>) -> Poll<Self::Output> {
        if self.done {
            panic!("inner future polled after completion");
        }
        if self.out == Out::Never || self.out == Out::Hog {
            return Poll::Pending;
        }
        if let Some(s) = self.sleep.as_mut() {
            if s.as_mut().poll(cx).is_pending() {
                return Poll::Pending;
            }
        }
        self.done = true;
        match self.out {
            Out::Ok => Poll::Ready(Ok(Resp { v: self.k, c: self.c, tag: self.tag })),
            Out::Err(kind) => Poll::Ready(Err(IErr { kind, v: self.k })),
            Out::Panic => panic!("scripted inner panic"),
            Out::Never | Out::Hog => unreachable!(),
        }
    }
}
impl Service<Req> for QInner {
    type Response = Resp;
    type Error = IErr;
    type Future = QFut;
    fn poll_ready(&mut self, cx: &mut Context<'_>) -> Poll<Result<(), IErr>> {
        if let Some(s) = self.recovering.as_mut() {
            if s.as_mut().poll(cx).is_pending() {
                return Poll::Pending;
            }
            self.recovering = None;
        }
        let mut sh = self.shared.lock().unwrap();
        if let Some(t) = sh.busy_until {
            if tokio::time::Instant::now() < t {
                drop(sh);
                let mut s = Box::pin(tokio::time::sleep_until(t));
                let _ = s.as_mut().poll(cx);
                self.recovering = Some(s);
                return Poll::Pending;
            }
        }
        match sh.ready_script.pop_front() {
            Some('p') => {
                cx.waker().wake_by_ref();
                return Poll::Pending;
            }
            Some('e') => return Poll::Ready(Err(IErr { kind: 9, v: 0 })),
            _ => {}
        }
        drop(sh);
        self.ready = true;
        Poll::Ready(Ok(()))
    }
    fn call(&mut self, req: Req) -> QFut {
        let (k, rec) = {
            let mut sh = self.shared.lock().unwrap();
            let k = sh.serial;
            sh.serial += 1;
            if sh.recover_ms > 0 && sh.recover_all {
                sh.busy_until = Some(tokio::time::Instant::now() + Duration::from_millis(sh.recover_ms));
            }
            (k, if sh.recover_all { 0 } else { sh.recover_ms })
        };
        if rec > 0 {
            self.recovering = Some(Box::pin(tokio::time::sleep(Duration::from_millis(rec))));
        }
        let step = req.plan.lock().unwrap().pop_front().unwrap_or(Step { lat: 0, out: Out::Ok });
        self.ready = false;
        let sleep = if step.lat > 0 { Some(Box::pin(tokio::time::sleep(Duration::from_millis(step.lat)))) } else { None };
        QFut { sleep, c: req.c, k, tag: req.tag, out: step.out, done: false }
    }
}

// ------------------------------------------------------------------ listeners (observers only)

pub struct ListenerCounts {
    pub counts: Vec<AtomicU64>,
    pub panic_mask: u64,
    /// listeners (bit mask) that take `slow_ms` of wall time (the virtual std clock is moved forward)
    pub slow_mask: u64,
    pub slow_ms: u64,
    /// reconnect's `on_state_change` callback: the transitions (bit 0 Connected→Disconnected, bit 1
    /// Disconnected→Reconnecting, bit 2 →Connected) on which the listeners named by `panic_mask` panic
    pub transition_mask: u64,
    /// the twin's listeners log nothing
    pub quiet: bool,
}
/// `counts[CB]`: how often a crate's SECOND callback was told its event — for crates that have one callback per kind of
/// event instead of a listener list (reconnect: `on_reconnect`, next to `on_state_change`, which runs listeners 0..2)
const CB: usize = 3;
impl ListenerCounts {
    fn hit(&self, i: usize) {
        self.hit_if(i, true)
    }
    /// count the event; panic (when the mask says so) only if `may_panic`
    fn hit_if(&self, i: usize, may_panic: bool) {
        self.counts[i].fetch_add(1, Ordering::SeqCst);
        if self.slow_mask & (1 << i) != 0 {
            bump_std_clock(self.slow_ms);
        }
        if may_panic && self.panic_mask & (1 << i) != 0 {
            panic!("listener {} panics", i);
        }
    }
    /// the three listeners registered with every layer
    fn render(&self) -> String {
        let v: Vec<String> = self.counts.iter().take(CB).map(|c| c.load(Ordering::SeqCst).to_string()).collect();
        v.join(",")
    }
    fn render_cb(&self) -> String {
        self.counts[CB].load(Ordering::SeqCst).to_string()
    }
    /// a decision of a triggering layer, reported by one of its listeners (observed stack only)
    fn note(&self, what: String) {
        if !self.quiet {
            log(what);
        }
    }
}

// ------------------------------------------------------------------ a listener that calls the service (re-entrant probe)

/// "Whatever a listener does, no call's outcome changes" includes a listener that takes its time while other
/// calls arrive, and a listener that itself uses the service. Both are exercised by ONE deterministic device: a
/// listener of the OUTERMOST layer's completion events (`lq=<n>`: at most n times per case) drives a *probe call*
/// through a clone of the whole stack from inside the listener — poll_ready until ready, call, one poll of the
/// future (`now_or_never`); a probe that is not finished by then (the layer emits while holding an async lock; a
/// spawning layer; latency) is kept and polled to completion by `manual probes` ops. It is what a call arriving
/// on another thread while the listener runs would see, without threads. In the twin stack the same listener
/// only notes the request and the probe is made right after the step (the poll of the caller in which the event
/// was emitted). Oracle: the two probes' FINAL outcomes are equal (`presult <k> <outcome> twin=<outcome>`, the
/// python monitor compares modulo the serial of the inner call) — timing is not compared, so a layer that makes
/// the probe wait raises no alarm, one that rejects it (a resource of the finished call still held while its
/// completion listeners run) does. Only the outermost layer probes: for the layers above the emitting one the
/// call IS still in flight while an inner listener runs, and its time legitimately counts as call time.
/// Probe requests are numbered from 900 (`c` and `tag`), plan `lqinner=` (default `0:ok`).
pub struct Prober {
    svc: Mutex<Option<BoxSvc>>,
    /// completion probes left (`lq`): completion listeners of the outermost layer, outcome compared with the twin's
    budget: AtomicU64,
    lq: u64,
    /// call-path probes left (`lqe`), made by every listener event of layer `mid_at` (`lqat`); not compared
    mid_budget: AtomicU64,
    lqe: u64,
    mid_at: usize,
    /// inside a probe (or while probes are polled): their own completion events do not probe again
    busy: AtomicBool,
    /// twin: the listener only notes the request; `launch_wanted` makes the probe after the step
    deferred: bool,
    /// noted requests, in order (`true`: a call-path probe)
    wanted: Mutex<VecDeque<bool>>,
    next: AtomicU64,
    plan: String,
    quiet: bool,
    pending: Mutex<Vec<(u64, BoxFuture<'static, String>)>>,
    done: Mutex<Vec<(u64, String)>>,
}

/// where on the call path a listener runs
#[derive(Clone, Copy, PartialEq)]
pub enum Hook {
    /// an event emitted after the wrapped call has returned
    Done,
    /// any other event of the call path (admission, rejection, retry, pass-through, attempt started)
    Mid,
}

fn poll_once(f: &mut BoxFuture<'static, String>) -> Poll<String> {
    let w = Waker::from(Arc::new(Flag::new(false)));
    let mut cx = Context::from_waker(&w);
    let mut u = tokio::task::unconstrained(std::future::poll_fn(|cx| poll_caught(f, cx)));
    Pin::new(&mut u).poll(&mut cx)
}

impl Prober {
    fn new(lq: u64, lqe: u64, mid_at: usize, plan: String, quiet: bool) -> Prober {
        Prober {
            svc: Mutex::new(None),
            budget: AtomicU64::new(lq),
            lq,
            mid_budget: AtomicU64::new(lqe),
            lqe,
            mid_at,
            busy: AtomicBool::new(false),
            deferred: quiet,
            wanted: Mutex::new(VecDeque::new()),
            next: AtomicU64::new(0),
            plan,
            quiet,
            pending: Mutex::new(Vec::new()),
            done: Mutex::new(Vec::new()),
        }
    }
    /// the handle probes are cloned from: a clone of the outermost service, taken at the first arrival
    fn ensure_svc(&self, top: &BoxSvc) {
        let mut g = self.svc.lock().unwrap_or_else(|e| e.into_inner());
        if g.is_none() {
            *g = Some(top.clone());
        }
    }
    /// called by the listeners of layer `j`
    fn fire(&self, j: usize, hook: Hook) {
        if self.busy.load(Ordering::SeqCst) {
            return;
        }
        let mid = if hook == Hook::Done && j == 0 && self.lq > 0 {
            false
        } else if self.lqe > 0 && j == self.mid_at {
            // a listener running inside a synchronous `call()` / `poll_ready()` does not probe (see `SYNC_DEPTH`)
            if in_sync_service_method() {
                return;
            }
            true
        } else {
            return;
        };
        let b = if mid { &self.mid_budget } else { &self.budget };
        if b.fetch_update(Ordering::SeqCst, Ordering::SeqCst, |b| b.checked_sub(1)).is_err() {
            return;
        }
        if self.deferred {
            self.wanted.lock().unwrap_or_else(|e| e.into_inner()).push_back(mid);
        } else {
            self.launch("in-listener", mid);
        }
    }
    fn launch_wanted(&self) {
        loop {
            let w = self.wanted.lock().unwrap_or_else(|e| e.into_inner()).pop_front();
            match w {
                Some(mid) => self.launch("after-step", mid),
                None => break,
            }
        }
    }
    fn launch(&self, when: &str, mid: bool) {
        let svc = self.svc.lock().unwrap_or_else(|e| e.into_inner()).as_ref().map(|s| s.clone());
        let Some(mut svc) = svc else { return };
        let k = self.next.fetch_add(1, Ordering::SeqCst);
        self.busy.store(true, Ordering::SeqCst);
        if !self.quiet {
            log(format!("pstart {} {} {}", k, when, if mid { "mid" } else { "done" }));
        }
        let id = 900 + k;
        let kv = Kv(vec![("tag".to_string(), id.to_string()), ("inner".to_string(), self.plan.clone())]);
        let req = Req::new(id as usize, &kv);
        let out = match drive(&mut svc, req, 1, None).0 {
            Started::Done(s) => Some(s),
            Started::Fut(mut f) => match poll_once(&mut f) {
                Poll::Ready(s) => Some(s),
                Poll::Pending => {
                    self.pending.lock().unwrap_or_else(|e| e.into_inner()).push((k, f));
                    None
                }
            },
            Started::Gone => None,
        };
        drop(svc);
        if let Some(s) = out {
            self.done.lock().unwrap_or_else(|e| e.into_inner()).push((k, s));
        }
        if !self.quiet && mid {
            // the listener goes on: whatever the layer holds while it emits did not stop the listener's own request
            log(format!("pback {}", k));
        }
        self.busy.store(false, Ordering::SeqCst);
    }
    /// one poll of every unfinished probe
    fn poll_pending(&self) {
        self.busy.store(true, Ordering::SeqCst);
        let v: Vec<(u64, BoxFuture<'static, String>)> = std::mem::take(&mut *self.pending.lock().unwrap_or_else(|e| e.into_inner()));
        let mut keep = Vec::new();
        for (k, mut f) in v {
            match poll_once(&mut f) {
                Poll::Ready(s) => {
                    drop(f);
                    self.done.lock().unwrap_or_else(|e| e.into_inner()).push((k, s));
                }
                Poll::Pending => keep.push((k, f)),
            }
        }
        self.pending.lock().unwrap_or_else(|e| e.into_inner()).extend(keep);
        self.busy.store(false, Ordering::SeqCst);
    }
    /// `Some(outcome)` when finished, `Some("pending")` when `all` and started, `Some("none")` when `all` and never made
    fn outcome(&self, k: u64, all: bool) -> Option<String> {
        if let Some((_, s)) = self.done.lock().unwrap_or_else(|e| e.into_inner()).iter().find(|(j, _)| *j == k) {
            return Some(s.clone());
        }
        if !all {
            return None;
        }
        Some(if k < self.next.load(Ordering::SeqCst) { "pending".into() } else { "none".into() })
    }
    fn made(&self) -> u64 {
        self.next.load(Ordering::SeqCst)
    }
}

fn firer(pr: &Option<Arc<Prober>>, j: usize, hook: Hook) -> impl Fn() + Clone + Send + Sync + 'static {
    let p = pr.clone();
    move || {
        if let Some(p) = &p {
            p.fire(j, hook)
        }
    }
}

// ------------------------------------------------------------------ layers

/// `ServiceExt::map_err`, except that the wrapped call future is NOT destroyed in the poll that completes it (the
/// `futures` combinator behind tower's `MapErr` drops it there): it lives exactly as long as the future handed to the
/// caller, as it does when a layer is used without an adapter — otherwise a caller that keeps a finished future
/// (`keep=1`) would keep nothing of the layer alive.
#[derive(Clone)]
struct MapE<S, F> {
    inner: S,
    f: F,
}
fn map_e<S, F>(inner: S, f: F) -> MapE<S, F>
where
    S: Service<Req, Response = Resp>,
    F: Fn(S::Error) -> SErr + Clone,
{
    MapE { inner, f }
}
struct MapEFut<Fut, F> {
    fut: Pin<Box<Fut>>,
    f: F,
    done: bool,
}
impl<Fut, F, E> Future for MapEFut<Fut, F>
where
    Fut: Future<Output = Result<Resp, E>>,
    F: Fn(E) -> SErr + Unpin,
{
    type Output = Result<Resp, SErr>;
    fn poll(mut self: Pin<&mut Self>, cx: &mut Context<'_>) -> Poll<Self::Output> {
        if self.done {
            panic!("call future polled after completion");
        }
        match self.fut.as_mut().poll(cx) {
            Poll::Ready(r) => {
                self.done = true;
                Poll::Ready(r.map_err(&self.f))
            }
            Poll::Pending => Poll::Pending,
        }
    }
}
impl<S, F> Service<Req> for MapE<S, F>
where
    S: Service<Req, Response = Resp>,
    F: Fn(S::Error) -> SErr + Clone + Unpin,
{
    type Response = Resp;
    type Error = SErr;
    type Future = MapEFut<S::Future, F>;
    fn poll_ready(&mut self, cx: &mut Context<'_>) -> Poll<Result<(), SErr>> {
        self.inner.poll_ready(cx).map_err(&self.f)
    }
    fn call(&mut self, req: Req) -> Self::Future {
        MapEFut { fut: Box::pin(self.inner.call(req)), f: self.f.clone(), done: false }
    }
}

/// the configuration of one layer: header `cf<j>=<knob>:<value>/<knob>:<value>…` (a value may contain `:`)
struct Cf(Vec<(String, String)>);
impl Cf {
    fn of(kv: &Kv, j: usize) -> Cf {
        let s = kv.str(&format!("cf{}", j), "");
        Cf(s.split('/').filter_map(|it| it.split_once(':').map(|(a, b)| (a.to_string(), b.to_string()))).collect())
    }
    fn get(&self, k: &str) -> Option<&str> {
        self.0.iter().find(|(a, _)| a == k).map(|(_, b)| b.as_str())
    }
    fn u64(&self, k: &str, d: u64) -> u64 {
        self.get(k).and_then(|v| v.parse().ok()).unwrap_or(d)
    }
    fn str<'a>(&'a self, k: &str, d: &'a str) -> &'a str {
        self.get(k).unwrap_or(d)
    }
    /// `<ms>` or `max` (= `Duration::MAX`)
    fn dur(&self, k: &str) -> Option<Duration> {
        self.get(k).map(|v| if v == "max" { Duration::MAX } else { Duration::from_millis(v.parse().unwrap_or(0)) })
    }
}

/// which inner errors a configured predicate accepts: `e1` / `e2` by kind, `all`, `none` (nothing), `never` (nothing either)
fn err_pred(which: &str) -> impl Fn(&SErr) -> bool + Clone + Send + Sync + 'static {
    let w = which.to_string();
    move |e: &SErr| match w.as_str() {
        "all" => true,
        "e1" => e.0.contains("ierr1"),
        "e2" => e.0.contains("ierr2"),
        _ => e.0.contains("never"),
    }
}

fn boxed<S>(svc: S) -> BoxSvc
where
    S: Service<Req, Response = Resp, Error = SErr> + Clone + Send + 'static,
    S::Future: Send + 'static,
{
    BoxCloneService::new(svc)
}

type KeyFn = fn(&Req) -> u64;
/// the key of the keyed layers (cache, coalesce): the tag modulo 1000 — requests `t`, `t+1000`, … share a key and are
/// still told apart by their tags
fn tag_of(r: &Req) -> u64 {
    r.tag % 1000
}
fn chaos_inject(_r: &Req) -> SErr {
    SErr("chaos!injected".into())
}

/// `ReconnectError` is not exported by the crate: the variant is read off the `Display` text.
fn reconnect_err(s: String) -> SErr {
    if let Some(rest) = s.strip_prefix("service error: ") {
        SErr(format!("reconnect({})", rest))
    } else if let Some(rest) = s.strip_prefix("max reconnection attempts (") {
        let (n, tail) = rest.split_once(") exceeded: ").unwrap_or(("?", rest));
        SErr(format!("reconnect!max_attempts:{}({})", n, tail))
    } else if let Some(rest) = s.strip_prefix("connection failed (no retry): ") {
        SErr(format!("reconnect!no_retry({})", rest))
    } else if let Some(rest) = s.strip_prefix("connection failed: ") {
        SErr(format!("reconnect!conn_failed({})", rest))
    } else {
        SErr(format!("reconnect!unknown({})", s))
    }
}

/// Does the layer spawn tasks (so that the harness must let them run after every operation)?
fn layer_spawns(name: &str) -> bool {
    matches!(name, "hedge" | "hedge1" | "hedge_fire" | "hedge_parallel" | "executor" | "timelimiter_nocancel")
}

/// Apply layer `name` (in a non-triggering configuration unless the name says otherwise) to `inner`.
fn apply(name: &str, inner: BoxSvc, lc: &Arc<ListenerCounts>, pr: &Option<Arc<Prober>>, j: usize, kv: &Kv) -> Option<BoxSvc> {
    let l0 = lc.clone();
    let l1 = lc.clone();
    let l2 = lc.clone();
    // listeners of this layer that call the service: completion events (`f*`; compared with the twin when this is the
    // outermost layer and `lq` is set) and the other events of the call path (`m*`; `lqe` + `lqat=j`). The call-path
    // ones are registered BEFORE two of the counting listeners: those must still be told the event.
    let (f0, f1, f2) = (firer(pr, j, Hook::Done), firer(pr, j, Hook::Done), firer(pr, j, Hook::Done));
    let (m0, m1, m2) = (firer(pr, j, Hook::Mid), firer(pr, j, Hook::Mid), firer(pr, j, Hook::Mid));
    let _ = (&m1, &m2);
    // this layer's own knobs (`cf<j>=…`); without them every layer has the configuration its name stands for
    let cf = Cf::of(kv, j);
    Some(match name {
        // `bulkhead1`: at its limit with every call (one slot, full = rejected at once); `bulkhead1w`: one slot,
        // a full bulkhead is waited for at most 10 ms. Only for requests that do not overlap (see gen/stack.py).
        "bulkhead" | "bulkhead1" | "bulkhead1w" => {
            use tower_resilience_bulkhead::{BulkheadLayer, BulkheadServiceError};
            let b = BulkheadLayer::builder();
            let b = match name {
                "bulkhead1" => b.max_concurrent_calls(1).reject_when_full(),
                "bulkhead1w" => b.max_concurrent_calls(1).max_wait_duration(Duration::from_millis(10)),
                _ => b.max_concurrent_calls(100),
            };
            // `mc:<n>` slots; `mw:<ms>` bounded wait (0 = rejected at once); without `mw` a full bulkhead is waited for for ever
            let b = if cf.get("mc").is_some() { b.max_concurrent_calls(cf.u64("mc", 100) as usize) } else { b };
            let b = match cf.dur("mw") {
                Some(d) => b.max_wait_duration(d),
                None => b,
            };
            let layer = b
                .on_call_permitted(move |_| l0.hit(0))
                .on_call_permitted(move |_| m0())
                .on_call_permitted(move |_| l1.hit(1))
                .on_call_permitted(move |_| l2.hit(2))
                .on_call_rejected(move |_| m1())
                .on_call_finished(move |_| f0())
                .on_call_failed(move |_| f1())
                .build();
            boxed(map_e(layer.layer(inner), |e| match e {
                BulkheadServiceError::Inner(e) => SErr(format!("bulkhead({})", e)),
                BulkheadServiceError::Bulkhead(x) => SErr(format!("bulkhead!{:?}", x)),
            }))
        }
        // `rl=<limit>:<period ms>:<fixed|log|counter>:<timeout ms>` (header): with a small limit a TRIGGERING configuration
        "ratelimiter" => {
            use tower_resilience_ratelimiter::{RateLimiterLayer, RateLimiterServiceError, WindowType};
            let rl = kv.str("rl", "");
            let small = !rl.is_empty();
            let p: Vec<&str> = rl.split(':').collect();
            let num = |i: usize, d: u64| p.get(i).and_then(|x| x.parse::<u64>().ok()).unwrap_or(d);
            let window = match p.get(2).copied().unwrap_or("fixed") {
                "log" => WindowType::SlidingLog,
                "counter" => WindowType::SlidingCounter,
                _ => WindowType::Fixed,
            };
            let (n0, n1) = (lc.clone(), lc.clone());
            let layer = RateLimiterLayer::builder()
                .limit_for_period(num(0, 100_000) as usize)
                .refresh_period(Duration::from_millis(num(1, 1000)))
                .window_type(window)
                .timeout_duration(Duration::from_millis(num(3, 0)))
                .on_permit_acquired(move |_| l0.hit(0))
                .on_permit_acquired(move |_| m0())
                .on_permit_rejected(move |_| m1())
                .on_permit_acquired(move |_| l1.hit(1))
                .on_permit_acquired(move |_| l2.hit(2))
                .on_permit_acquired(move |_| if small { n0.note(format!("rl {} acquired", j)) })
                .on_permit_rejected(move |_| if small { n1.note(format!("rl {} rejected", j)) })
                .build();
            boxed(map_e(layer.layer(inner), |e| match e {
                RateLimiterServiceError::Inner(e) => SErr(format!("ratelimiter({})", e)),
                RateLimiterServiceError::RateLimited => SErr("ratelimiter!limited".into()),
            }))
        }
        "circuit" => {
            use tower_resilience_circuitbreaker::{CircuitBreakerError, CircuitBreakerLayer};
            // `cb:<window>:<minimum calls>:<failure rate %>`: thresholds the request pattern of the case cannot reach
            let b = CircuitBreakerLayer::builder();
            let b = match cf.get("cb") {
                Some(v) => {
                    let p: Vec<u64> = v.split(':').map(|x| x.parse().unwrap_or(0)).collect();
                    let num = |i: usize, d: u64| p.get(i).copied().unwrap_or(d);
                    b.sliding_window_size(num(0, 1000) as usize)
                        .minimum_number_of_calls(num(1, 1000) as usize)
                        .failure_rate_threshold(num(2, 50) as f64 / 100.0)
                        .wait_duration_in_open(Duration::from_secs(3600))
                }
                None => b.sliding_window_size(1000),
            };
            let layer = b
                .on_call_permitted(move |_| l0.hit(0))
                // (emitted under the breaker's async lock: the probe queues for it and is finished by `manual probes`)
                .on_call_permitted(move |_| m0())
                .on_call_rejected(move || m1())
                .on_call_permitted(move |_| l1.hit(1))
                .on_call_permitted(move |_| l2.hit(2))
                // emitted while the breaker's async lock is held: the probe waits for it
                .on_success(move |_| f0())
                .on_failure(move |_| f1())
                .build();
            boxed(map_e(layer.layer_fn(inner), |e| match e {
                CircuitBreakerError::Inner(e) => SErr(format!("circuit({})", e)),
                CircuitBreakerError::OpenCircuit => SErr("circuit!open".into()),
            }))
        }
        // slow-call detection on, window of two calls: time spent in listeners must not count as call time
        "circuit_slow" => {
            use tower_resilience_circuitbreaker::{CircuitBreakerError, CircuitBreakerLayer};
            let layer = CircuitBreakerLayer::builder()
                .sliding_window_size(2)
                .failure_rate_threshold(1.0)
                .slow_call_duration_threshold(Duration::from_millis(40))
                .slow_call_rate_threshold(1.0)
                .wait_duration_in_open(Duration::from_secs(3600))
                .on_call_permitted(move |_| l0.hit(0))
                .on_call_permitted(move |_| l1.hit(1))
                .on_call_permitted(move |_| l2.hit(2))
                .build();
            boxed(map_e(layer.layer_fn(inner), |e| match e {
                CircuitBreakerError::Inner(e) => SErr(format!("circuit({})", e)),
                CircuitBreakerError::OpenCircuit => SErr("circuit!open".into()),
            }))
        }
        "timelimiter" | "timelimiter_nocancel" => {
            use tower_resilience_timelimiter::{TimeLimiterError, TimeLimiterLayer};
            // `to:<ms>|max`: a timeout no call of the case reaches (`max` = `Duration::MAX`)
            let layer = TimeLimiterLayer::builder()
                .timeout_duration(cf.dur("to").unwrap_or(Duration::from_secs(3600)))
                .cancel_running_future(name == "timelimiter")
                .on_success(move |_| l0.hit(0))
                .on_success(move |_| l1.hit(1))
                .on_success(move |_| l2.hit(2))
                .on_success(move |_| f0())
                .on_error(move |_| f1())
                .on_timeout(move || f2())
                .build();
            boxed(map_e(layer.layer(inner), |e| match e {
                TimeLimiterError::Inner(e) => SErr(format!("timelimiter({})", e)),
                TimeLimiterError::Timeout => SErr("timelimiter!timeout".into()),
            }))
        }
        // retry: errors whose text contains `ierr1` are retried (a triggered configuration when the script
        // produces them); every other error passes through untouched
        "retry" => {
            use tower_resilience_retry::RetryLayer;
            // `ma:<n>` attempts, the first one included (0 and 1: no retry at all), `maf:1`: per request, through
            // `max_attempts_fn`; `bo:<ms>`; `ro:e1|e2|all|none`: the errors that are retried (`all` = no predicate set)
            let ma = cf.u64("ma", 3) as usize;
            let b = RetryLayer::<Req, SErr>::builder();
            let b = if cf.u64("maf", 0) == 1 { b.max_attempts_fn(move |_r: &Req| ma) } else { b.max_attempts(ma) };
            // `po:1`: the predicate is installed BEFORE the back-off setter (the builder's setters must commute);
            // `bk:fixed|exp|fn`: which of the three back-off setters (`fixed_backoff`, `exponential_backoff`, `backoff(f)`)
            let d = Duration::from_millis(cf.u64("bo", 5));
            let ro = cf.str("ro", "e1").to_string();
            let pred_first = cf.u64("po", 0) == 1;
            let b = if pred_first && ro != "all" { b.retry_on(err_pred(&ro)) } else { b };
            let b = match cf.str("bk", "fixed") {
                "exp" => b.exponential_backoff(d),
                "fn" => b.backoff(tower_resilience_retry::FnInterval::new(move |_attempt: usize| d)),
                _ => b.fixed_backoff(d),
            };
            let b = if !pred_first && ro != "all" { b.retry_on(err_pred(&ro)) } else { b };
            let layer = b
                .on_success(move |_| l0.hit(0))
                .on_success(move |_| l1.hit(1))
                .on_success(move |_| l2.hit(2))
                .on_retry(move |_, _| m0())
                .on_success(move |_| f0())
                .on_error(move |_| f1())
                .on_ignored_error(move || f2())
                .build();
            boxed(layer.layer(inner))
        }
        // cache: the key is the request's tag and tags are distinct, so nothing ever hits
        "cache" => {
            use tower_resilience_cache::{CacheError, CacheLayer};
            // `sz:<n>` entries, `ttl:<ms>|max`, `ev:lru|lfu|fifo`: for requests with DISTINCT keys none of them matters
            let b = CacheLayer::<Req, u64>::builder().max_size(cf.u64("sz", 10_000) as usize);
            let b = match cf.dur("ttl") {
                Some(d) => b.ttl(d),
                None => b,
            };
            let b = match cf.str("ev", "") {
                "lru" => b.eviction_policy(tower_resilience_cache::EvictionPolicy::Lru),
                "lfu" => b.eviction_policy(tower_resilience_cache::EvictionPolicy::Lfu),
                "fifo" => b.eviction_policy(tower_resilience_cache::EvictionPolicy::Fifo),
                _ => b,
            };
            let layer = b
                .key_extractor(|r: &Req| r.tag % 1000)
                .on_miss(move || l0.hit(0))
                // hit / miss are emitted inside the synchronous `call()`: registered, but such a listener does not probe
                .on_miss(move || m0())
                .on_hit(move || m1())
                .on_miss(move || l1.hit(1))
                .on_miss(move || l2.hit(2))
                .build();
            boxed(map_e(layer.layer(inner), |e| match e {
                CacheError::Inner(e) => SErr(format!("cache({})", e)),
            }))
        }
        // fallback: a value strategy that handles only errors containing "never" (none is generated)
        "fallback" => {
            use tower_resilience_fallback::{FallbackError, FallbackLayer};
            // `st:<strategy>` x `hp:<handle predicate>` (`unset`: none configured = every error is handled); `ho:1`: `handle` first.
            // What a strategy answers: value 999999, value_fn 999998, from_error 999997 (all with that tag too),
            // from_request_error 999996 and the backup service 999995 with the request's tag, exception `mapped(<error>)`
            let st = cf.str("st", "value").to_string();
            let hp = cf.str("hp", "never").to_string();
            let first = cf.u64("ho", 0) == 1;
            let b = FallbackLayer::<Req, Resp, SErr>::builder();
            let b = if first && hp != "unset" { b.handle(err_pred(&hp)) } else { b };
            let b = match st.as_str() {
                "valuefn" => b.value_fn(|| Resp { v: 999_998, c: 0, tag: 999_998 }),
                "fromerr" => b.from_error(|_e: &SErr| Resp { v: 999_997, c: 0, tag: 999_997 }),
                "fromreq" => b.from_request_error(|r: &Req, _e: &SErr| Resp { v: 999_996, c: r.c, tag: r.tag }),
                "service" => b.service(|r: Req| async move { Ok::<Resp, SErr>(Resp { v: 999_995, c: r.c, tag: r.tag }) }),
                "exc" => b.exception(|e: SErr| SErr(format!("mapped({})", e.0))),
                _ => b.value(Resp { v: 999_999, c: 0, tag: 999_999 }),
            };
            let b = if !first && hp != "unset" { b.handle(err_pred(&hp)) } else { b };
            let layer = b
                .on_event(move |_| l0.hit(0))
                .on_event(move |_| l1.hit(1))
                .on_event(move |_| l2.hit(2))
                // every fallback event is emitted after the inner call has returned
                .on_event(move |_| f0())
                .build();
            boxed(map_e(layer.layer(inner), |e| match e {
                FallbackError::Inner(e) => SErr(format!("fallback({})", e)),
                FallbackError::FallbackFailed(e) => SErr(format!("fallback!failed({})", e)),
            }))
        }
        "hedge" | "hedge1" | "hedge_fire" | "hedge_parallel" => {
            use tower_resilience_core::FnListener;
            use tower_resilience_hedge::{HedgeError, HedgeEvent, HedgeLayer};
            let b = HedgeLayer::builder();
            let b = match name {
                "hedge" => b.max_hedged_attempts(2).delay(Duration::from_secs(3600)),
                "hedge1" => b.max_hedged_attempts(1).delay(Duration::from_secs(3600)),
                "hedge_fire" => b.max_hedged_attempts(2).delay(Duration::from_millis(5)),
                _ => b.max_hedged_attempts(3).no_delay(),
            };
            // `n:<max_hedged_attempts>` (0 and 1: no room for a hedge), `d:<ms>|max|none` (`none` = `no_delay()`, 0 = `delay(ZERO)`)
            let b = if cf.get("n").is_some() { b.max_hedged_attempts(cf.u64("n", 2) as usize) } else { b };
            let b = match cf.get("d") {
                Some("none") => b.no_delay(),
                Some(_) => b.delay(cf.dur("d").unwrap_or(Duration::ZERO)),
                None => b,
            };
            let layer = b
                .on_event(FnListener::new(move |_: &HedgeEvent| l0.hit(0)))
                .on_event(FnListener::new(move |e: &HedgeEvent| {
                    if !matches!(e, HedgeEvent::PrimarySucceeded { .. } | HedgeEvent::HedgeSucceeded { .. } | HedgeEvent::AllFailed { .. }) {
                        m0()
                    }
                }))
                .on_event(FnListener::new(move |_: &HedgeEvent| l1.hit(1)))
                .on_event(FnListener::new(move |_: &HedgeEvent| l2.hit(2)))
                .on_event(FnListener::new(move |e: &HedgeEvent| {
                    if matches!(e, HedgeEvent::PrimarySucceeded { .. } | HedgeEvent::HedgeSucceeded { .. } | HedgeEvent::AllFailed { .. }) {
                        f0()
                    }
                }))
                .build();
            boxed(map_e(layer.layer(inner), |e| match e {
                HedgeError::Inner(e) => SErr(format!("hedge({})", e)),
                HedgeError::AllAttemptsFailed(e) => SErr(format!("hedge!all_failed({})", e)),
            }))
        }
        // reconnect: errors whose text contains `ierr1` are connection failures (retried after 5 ms, at
        // most twice); its callbacks exist only under the crate's `tracing` feature and are single
        // closures, one per kind of event, not `EventListeners`: BOTH are registered
        "reconnect" => {
            use tower_resilience_reconnect::{ConnectionState, ReconnectConfig, ReconnectLayer, ReconnectPolicy};
            // `pol:none` (no back-off policy: a connection failure is not retried), `ma:<n>|unl`, `ror:0`
            let b = ReconnectConfig::builder();
            let b = if cf.str("pol", "fixed") == "none" { b.policy(ReconnectPolicy::none()) } else { b.policy(ReconnectPolicy::fixed(Duration::from_millis(5))) };
            let b = if cf.str("ma", "2") == "unl" { b.unlimited_attempts() } else { b.max_attempts(cf.u64("ma", 2) as u32) };
            let cfg = b
                .retry_on_reconnect(cf.u64("ror", 1) == 1)
                .reconnect_predicate(|e| e.to_string().contains("ierr1"))
                // `on_state_change`: run the three listeners inside it, each under catch_unwind, and let the callback itself
                // panic if one of them did — on the transitions of `lpt` only (a callback that chokes on one kind of news)
                .on_state_change(move |from, to| {
                    let bit = match (from, to) {
                        (ConnectionState::Connected, ConnectionState::Disconnected) => 1,
                        (ConnectionState::Disconnected, ConnectionState::Reconnecting) => 2,
                        _ => 4,
                    };
                    let may = l0.transition_mask & bit != 0;
                    let mut panicked = false;
                    for i in 0..3 {
                        let l = l0.clone();
                        if std::panic::catch_unwind(std::panic::AssertUnwindSafe(move || l.hit_if(i, may))).is_err() {
                            panicked = true;
                        }
                    }
                    if panicked {
                        panic!("state-change callback panics");
                    }
                })
                // `on_reconnect`: the other observer of "a reconnect attempt starts" (listener 3: counted in `counts[CB]`,
                // panics with `lp` bit 3); whatever `on_state_change` does, it must be told every attempt
                .on_reconnect(move |_attempt| l1.hit(CB))
                .build();
            let layer = ReconnectLayer::new(cfg);
            boxed(map_e(layer.layer(inner), |e| reconnect_err(e.to_string())))
        }
        // adaptive: AIMD with limit 1000 (no event listeners in this crate)
        "adaptive" => {
            use tower_resilience_adaptive::{AdaptiveError, AdaptiveLimiterLayer, IntoLayer};
            // `lim:<n>`: initial = min = max = n (a limit that cannot move)
            let (ini, lo, hi) = match cf.get("lim") {
                Some(_) => (cf.u64("lim", 1000) as usize, cf.u64("lim", 1000) as usize, cf.u64("lim", 1000) as usize),
                None => (1000, 500, 1000),
            };
            let layer = AdaptiveLimiterLayer::<tower_resilience_adaptive::Aimd>::builder()
                .aimd()
                .initial_limit(ini)
                .min_limit(lo)
                .max_limit(hi)
                .latency_threshold(Duration::from_secs(3600))
                .build()
                .into_layer();
            boxed(map_e(layer.layer(inner), |e| match e {
                AdaptiveError::Service(e) => SErr(format!("adaptive({})", e)),
                AdaptiveError::LimitReached => SErr("adaptive!limit".into()),
            }))
        }
        // coalesce: key = tag mod 1000 (see `tag_of`): a request leads unless one with the same key is in flight (no event listeners in this crate)
        "coalesce" => {
            use tower_resilience_coalesce::{CoalesceError, CoalesceLayer};
            let layer: CoalesceLayer<u64, Req, KeyFn> = CoalesceLayer::builder(tag_of as KeyFn).name("verif").build();
            boxed(map_e(layer.layer(inner), |e| match e {
                CoalesceError::Service(e) => SErr(format!("coalesce({})", e)),
                CoalesceError::LeaderCancelled => SErr("coalesce!leader_cancelled".into()),
                CoalesceError::RecvError => SErr("coalesce!recv".into()),
            }))
        }
        // executor: the current runtime (no event listeners in this crate)
        "executor" => {
            use tower_resilience_executor::{CurrentRuntime, ExecutorError, ExecutorLayer};
            let me = |e| match e {
                ExecutorError::Service(e) => SErr(format!("executor({})", e)),
                ExecutorError::TaskCancelled => SErr("executor!cancelled".into()),
            };
            // every way of saying "the runtime this layer is built on" (the stack is built inside the case's runtime):
            // `ex:handle` an explicit handle, `ex:new` `ExecutorLayer::new(CurrentRuntime::new())`, `ex:cur` the
            // constructor `ExecutorLayer::current()`, otherwise `builder().current()`
            match cf.str("ex", "") {
                "new" => boxed(map_e(ExecutorLayer::new(CurrentRuntime::new()).layer(inner), me)),
                "cur" => boxed(map_e(ExecutorLayer::current().layer(inner), me)),
                "handle" => boxed(map_e(ExecutorLayer::<tokio::runtime::Handle>::builder().handle(tokio::runtime::Handle::current()).build().layer(inner), me)),
                _ => boxed(map_e(ExecutorLayer::<tokio::runtime::Handle>::builder().current().build().layer(inner), me)),
            }
        }
        // chaos: both rates 0, seeded; its error type is the inner one (no wrapper)
        "chaos" => {
            use tower_resilience_chaos::ChaosLayer;
            let f: fn(&Req) -> SErr = chaos_inject;
            // rates exactly 0: `ef:0` no `error_fn` at all (latency-only builder), `ero:1` `error_fn` first and the rate set
            // on the typed builder, `lat:1` latency bounds configured (never used with rate 0)
            let b = ChaosLayer::builder()
                .name("verif")
                .on_passed_through(move || l0.hit(0))
                .on_passed_through(move || m0())
                .on_latency_injected(move |_| m1())
                .on_error_injected(move || m2())
                .on_passed_through(move || l1.hit(1))
                .on_passed_through(move || l2.hit(2))
                .latency_rate(0.0)
                .seed(7);
            let b = if cf.u64("lat", 0) == 1 { b.min_latency(Duration::from_millis(5)).max_latency(Duration::from_millis(20)) } else { b };
            if cf.u64("ef", 1) == 0 {
                boxed(b.build().layer(inner))
            } else if cf.u64("ero", 0) == 1 {
                boxed(b.error_fn(f).error_rate(0.0).build().layer(inner))
            } else {
                boxed(b.error_rate(0.0).error_fn(f).build().layer(inner))
            }
        }
        _ => return None,
    })
}

// ------------------------------------------------------------------ one stack

struct Stack {
    svc: BoxSvc,
    held: Option<BoxSvc>,
    lc: Arc<ListenerCounts>,
    pr: Option<Arc<Prober>>,
    /// the twin: no log, no observations
    quiet: bool,
}

/// what an `arrive` produced on one stack
enum Started {
    /// answered before a call future existed (`readyerr:…`, `notready`, `panic`)
    Done(String),
    Fut(BoxFuture<'static, String>),
    /// `gone=1`: the call was made and its future dropped at once, never polled
    Gone,
}
/// `arrive … gone=1`: fire-and-forget — the caller drops the call future right after `call()`, before it was ever polled
/// and before the runtime had a turn (`let _ = svc.call(req);`, an outer `select!` that has lost interest already)
fn forget(st: Started, gone: bool) -> Started {
    match st {
        Started::Fut(f) if gone => {
            let _ = catch_unwind(AssertUnwindSafe(move || drop(f)));
            Started::Gone
        }
        st => st,
    }
}

fn bottom<I>(kind: &str, inner: I, cl: usize) -> BoxSvc
where
    I: Service<Req, Response = Resp, Error = IErr> + Clone + Send + 'static,
    I::Future: Send + 'static,
{
    match kind {
        "climit" => boxed(tower::limit::ConcurrencyLimit::new(inner, cl).map_err(|e: IErr| SErr(e.to_string()))),
        "buffer" => boxed(tower::buffer::Buffer::new(inner, 8).map_err(|e: tower::BoxError| SErr(e.to_string()))),
        _ => boxed(inner.map_err(|e: IErr| SErr(e.to_string()))),
    }
}

impl Stack {
    fn new(kv: &Kv, layers: &[String], lp: u64, quiet: bool) -> Stack {
        let n = layers.len();
        let sh = Arc::new(TapShared { next: Mutex::new(vec![1; n + 1]), calls: Mutex::new(vec![0; n + 1]), quiet });
        let lc = Arc::new(ListenerCounts {
            counts: (0..=CB).map(|_| AtomicU64::new(0)).collect(),
            panic_mask: lp,
            slow_mask: if quiet { 0 } else { kv.u64("ls", 0) },
            slow_ms: kv.u64("lsms", 90),
            transition_mask: kv.u64("lpt", 7),
            quiet,
        });
        let kind = kv.str("inner", "strict");
        let script = if kind == "strict" { kv.str("ready", "") } else { String::new() };
        let cl = kv.u64("cl", 2) as usize;
        let (rec, recall) = (kv.u64("rec", 0), kv.u64("recall", 0) == 1);
        let b = if quiet { bottom(&kind, QInner::strict(&script, rec, recall), cl) } else { bottom(&kind, Inner::strict_rec(&script, rec, recall), cl) };
        let (lq, lqe) = (kv.u64("lq", 0), kv.u64("lqe", 0));
        let pr = if lq > 0 || lqe > 0 { Some(Arc::new(Prober::new(lq, lqe, kv.u64("lqat", 0) as usize, kv.str("lqinner", "0:ok"), quiet))) } else { None };
        let mut svc = tap(b, n, &sh);
        for (j, name) in layers.iter().enumerate().rev() {
            svc = match apply(name, svc, &lc, &pr, j, kv) {
                Some(s) => tap(s, j, &sh),
                None => {
                    if !quiet {
                        log_raw(format!("#unknown-middleware stack-layer:{}", name));
                    }
                    tap(boxed(Inner::new().map_err(|e: IErr| SErr(e.to_string()))), j, &sh)
                }
            };
        }
        Stack { svc, held: None, lc, pr, quiet }
    }

    /// `arrive`: on a clone of the outermost service, or on the one instance the harness keeps (`how=held`)
    fn start(&mut self, c: usize, kv: &Kv) -> Started {
        if let Some(p) = &self.pr {
            p.ensure_svc(&self.svc);
        }
        let req = Req::new(c, kv);
        if kv.u64("clonepanic", 0) == 1 && !self.quiet {
            CP_TAGS.lock().unwrap_or_else(|e| e.into_inner()).insert(req.tag);
        }
        let held = kv.str("how", "clone") == "held";
        let mut svc = if held {
            match self.held.take() {
                Some(s) => s,
                None => self.svc.clone(),
            }
        } else {
            self.svc.clone()
        };
        let (r, called) = drive(&mut svc, req, kv.u64("polls", 1).max(1), if self.quiet { None } else { Some(c) });
        // A caller that gives up must drop the instance: one that stays alive after a `Pending` keeps its
        // place in the queue of a ConcurrencyLimit / Buffer and would be handed capacity nobody uses
        // (and a failed service is discarded). The next `how=held` request starts from a fresh clone.
        if held && called {
            self.held = Some(svc);
        }
        r
    }
}

/// Drive a service the way a contract-respecting caller does: poll_ready (possibly several times) until ready,
/// then call. A panic out of `poll_ready` / `call` is the caller's answer `panic`. The flag says whether the
/// service was called (otherwise the caller gave up and must drop the instance).
fn drive(svc: &mut BoxSvc, req: Req, want: u64, fin: Option<usize>) -> (Started, bool) {
    let (mut got, mut tries) = (0, 0);
    let mut early: Option<String> = None;
    while got < want && tries < want + 8 {
        tries += 1;
        match catch_unwind(AssertUnwindSafe(|| poll_ready_once(svc))) {
            Ok(Poll::Ready(Ok(()))) => got += 1,
            Ok(Poll::Ready(Err(e))) => {
                early = Some(format!("readyerr:{}", e.0));
                break;
            }
            Ok(Poll::Pending) => {}
            Err(_) => {
                early = Some("panic".into());
                break;
            }
        }
    }
    if early.is_none() && got < want {
        early = Some("notready".into());
    }
    if let Some(s) = early {
        return (Started::Done(s), false);
    }
    match catch_unwind(AssertUnwindSafe(|| svc.call(req))) {
        Ok(fut) => (Started::Fut(Box::pin(Kept { fut, done: false, fin })), true),
        Err(_) => (Started::Done("panic".into()), true),
    }
}

/// The stack's call future; once it has resolved it is NOT destroyed until this wrapper is: the caller decides when a
/// finished future goes (at once by default; with `arrive … keep=1` at the later `release` op). An `async` block
/// around `fut.await` would destroy it in the poll that completes it.
struct Kept {
    fut: BoxFuture<'static, Result<Resp, SErr>>,
    done: bool,
    /// the caller whose answer this is (observed stack only): the answer is recorded as `@fin=<c>:<answer>`
    fin: Option<usize>,
}
/// the answer request `c` gets, recorded for the model driver (which replies with the answer IT expects)
fn obs_fin(c: usize, s: &str) {
    obs("fin", format!("{}:{}", c, s.replace(' ', "_")));
}
impl Future for Kept {
    type Output = String;
    fn poll(mut self: Pin<&mut Self>, cx: &mut Context<'_>) -> Poll<String> {
        if self.done {
            panic!("call future polled after completion");
        }
        let this = &mut *self;
        match catch_unwind(AssertUnwindSafe(|| this.fut.as_mut().poll(cx))) {
            Ok(Poll::Ready(r)) => {
                this.done = true;
                let s = render(r);
                if let Some(c) = this.fin {
                    obs_fin(c, &s);
                }
                Poll::Ready(s)
            }
            Ok(Poll::Pending) => Poll::Pending,
            Err(p) => {
                // the call future panicked: that is the caller's answer (the poller above reports `panic`)
                this.done = true;
                if let Some(c) = this.fin {
                    obs_fin(c, "panic");
                }
                std::panic::resume_unwind(p)
            }
        }
    }
}

pub fn render(r: Result<Resp, SErr>) -> String {
    match r {
        Ok(x) => format!("ok:{}:tag={}", x.v, x.tag),
        Err(e) => format!("err:{}", e.0),
    }
}

/// The call futures of the two stacks, polled one after the other in every poll of the caller.
struct Pair {
    c: usize,
    a: Option<BoxFuture<'static, String>>,
    b: Option<BoxFuture<'static, String>>,
    b_done: bool,
    rb: Option<String>,
    /// the twin's prober: probes its listeners asked for are made right after the twin's step
    tp: Option<Arc<Prober>>,
    /// `keep=1`: the caller keeps its finished future — both finished futures live until the pair is dropped (`release`)
    keep: bool,
    /// call-path probes (`lqe`): a probe made inside a listener may queue in front of the emitting call (a fair async
    /// lock, a bounded wait), which then answers a step later than its twin — timing, not outcome: only the final
    /// answers are compared (an answer that never comes is a wedged request for the monitors)
    lenient: bool,
}
fn poll_caught(f: &mut BoxFuture<'static, String>, cx: &mut Context<'_>) -> Poll<String> {
    match catch_unwind(AssertUnwindSafe(|| f.as_mut().poll(cx))) {
        Ok(p) => p,
        Err(_) => Poll::Ready("panic".into()),
    }
}
impl Future for Pair {
    type Output = String;
    fn poll(mut self: Pin<&mut Self>, cx: &mut Context<'_>) -> Poll<String> {
        let this = &mut *self;
        let ra = match this.a.as_mut() {
            Some(f) => poll_caught(f, cx),
            None => Poll::Pending,
        };
        if !this.b_done {
            if let Some(f) = this.b.as_mut() {
                if let Poll::Ready(s) = poll_caught(f, cx) {
                    this.b_done = true;
                    if !this.keep {
                        this.b = None;
                    }
                    if ra.is_pending() && !this.lenient {
                        // the twin answers in a step in which the observed stack does not
                        log(format!("twin-mismatch {} pending {}", this.c, s));
                    }
                    this.rb = Some(s);
                }
            }
        }
        if let Some(p) = &this.tp {
            p.launch_wanted();
        }
        match ra {
            Poll::Ready(s) => {
                // drop both futures before the result is logged (their drop glue belongs to this step) — unless the
                // caller keeps its finished future
                if !this.keep {
                    this.a = None;
                    this.b = None;
                }
                match this.rb.take() {
                    Some(t) if t == s => {}
                    Some(t) => log(format!("twin-mismatch {} {} {}", this.c, s, t)),
                    None => log(format!("twin-mismatch {} {} pending", this.c, s)),
                }
                Poll::Ready(s)
            }
            Poll::Pending => Poll::Pending,
        }
    }
}

// ------------------------------------------------------------------ adapter

pub struct Adapter {
    main: Stack,
    twin: Option<Stack>,
    yields: usize,
    /// probes whose pair of outcomes has been logged
    reported: BTreeSet<u64>,
    /// see `Pair::lenient`
    lenient: bool,
    /// a layer with single callbacks (reconnect) is in the stack
    has_cb: bool,
}

impl Adapter {
    /// ` cb=<n> [twincb=<n>]`: how often the second callback of the one-callback-per-kind crates (reconnect's `on_reconnect`)
    /// was told its event; only printed for stacks with such a layer (other logs stay as they were)
    fn cb(&self, twin: Option<&Stack>) -> String {
        if !self.has_cb {
            return String::new();
        }
        match twin {
            Some(t) => format!(" cb={} twincb={}", self.main.lc.render_cb(), t.lc.render_cb()),
            None => format!(" cb={}", self.main.lc.render_cb()),
        }
    }
    pub fn new(kv: &Kv) -> Adapter {
        CP_TAGS.lock().unwrap_or_else(|e| e.into_inner()).clear();
        CP_ERRS.lock().unwrap_or_else(|e| e.into_inner()).clear();
        CP_DONE.lock().unwrap_or_else(|e| e.into_inner()).clear();
        let layers: Vec<String> = kv.str("layers", "").split(',').filter(|s| !s.is_empty()).map(|s| s.to_string()).collect();
        let lp = kv.u64("lp", 0);
        let spawning = layers.iter().filter(|l| layer_spawns(l)).count() + (kv.str("inner", "strict") == "buffer") as usize;
        let main = Stack::new(kv, &layers, lp, false);
        let twin = if lp != 0 || kv.u64("ls", 0) != 0 || kv.u64("lq", 0) != 0 || kv.u64("lqe", 0) != 0 { Some(Stack::new(kv, &layers, 0, true)) } else { None };
        Adapter { main, twin, yields: if spawning == 0 { 0 } else { 8 * (spawning + 1) }, reported: BTreeSet::new(), lenient: kv.u64("lqe", 0) != 0, has_cb: layers.iter().any(|l| l == "reconnect") }
    }
    /// `presult <k> <outcome> twin=<outcome>` for every probe finished on both sides (`all`: for every probe made)
    fn report_probes(&mut self, all: bool) {
        let (Some(m), Some(t)) = (self.main.pr.clone(), self.twin.as_ref().and_then(|t| t.pr.clone())) else { return };
        for k in 0..m.made().max(t.made()) {
            if self.reported.contains(&k) {
                continue;
            }
            if let (Some(a), Some(b)) = (m.outcome(k, all), t.outcome(k, all)) {
                self.reported.insert(k);
                log(format!("presult {} {} twin={}", k, a, b));
            }
        }
    }
}

impl Mw for Adapter {
    /// `arrive c tag=… inner=… [how=clone|held] [polls=<n>]`
    fn arrive(&mut self, c: usize, kv: &Kv) -> Option<CallFut> {
        let gone = kv.u64("gone", 0) == 1;
        let (a, b) = if kv.u64("off", 0) == 1 {
            // `off=1`: the caller lives on a plain OS thread with NO tokio context: `poll_ready`, `call` and the first poll
            // of the call future happen there (both stacks, in the usual order); the future is then handed back to the
            // case's runtime, which runs whatever the layers have spawned on it and polls the future from then on. The
            // runtime thread waits for the hand-over, so the case stays deterministic. Meant for stacks whose outermost
            // layer moves the work onto the runtime it was built on (executor): nothing above it needs a reactor.
            let (main, twin) = (&mut self.main, &mut self.twin);
            let r = std::thread::scope(|s| {
                let h = std::thread::Builder::new().name("off-runtime".into()).spawn_scoped(s, move || {
                    let first = |st: Started| match forget(st, gone) {
                        Started::Fut(mut f) => match poll_once(&mut f) {
                            Poll::Ready(ans) => Started::Fut(Box::pin(std::future::ready(ans))),
                            Poll::Pending => Started::Fut(f),
                        },
                        d => d,
                    };
                    let a = first(main.start(c, kv));
                    let b = twin.as_mut().map(|t| first(t.start(c, kv)));
                    (a, b)
                });
                match h {
                    Ok(h) => h.join().ok(),
                    Err(_) => None,
                }
            });
            match r {
                Some(r) => r,
                None => {
                    log_raw("#off-runtime-thread-failed".into());
                    (Started::Done("panic".into()), None)
                }
            }
        } else {
            let a = forget(self.main.start(c, kv), gone);
            let b = self.twin.as_mut().map(|t| forget(t.start(c, kv), gone));
            (a, b)
        };
        let tp = self.twin.as_ref().and_then(|t| t.pr.clone());
        if let Some(p) = &tp {
            p.launch_wanted();
        }
        match (a, b) {
            // fire-and-forget: no future, no answer (`#drop`: the caller is gone, like after a `drop` op)
            (Started::Gone, b) => {
                log_raw(format!("#drop {} {} gone", c, now_ms()));
                if let Some(Started::Done(t)) = b {
                    log(format!("twin-mismatch {} gone {}", c, t));
                }
                None
            }
            (Started::Done(s), None) => {
                obs_fin(c, &s);
                log(format!("result {} {}", c, s));
                None
            }
            (Started::Fut(f), None) => Some(f),
            (Started::Done(s), Some(Started::Done(t))) => {
                obs_fin(c, &s);
                log(format!("result {} {}", c, s));
                if s != t {
                    log(format!("twin-mismatch {} {} {}", c, s, t));
                }
                None
            }
            (Started::Done(s), Some(Started::Fut(_) | Started::Gone)) => {
                obs_fin(c, &s);
                log(format!("result {} {}", c, s));
                log(format!("twin-mismatch {} {} pending", c, s));
                None
            }
            (Started::Fut(f), Some(Started::Done(t))) => {
                log(format!("twin-mismatch {} pending {}", c, t));
                Some(f)
            }
            (Started::Fut(f), Some(Started::Gone)) => Some(f),
            (Started::Fut(f), Some(Started::Fut(g))) => Some(Box::pin(Pair {
                c,
                a: Some(f),
                b: Some(g),
                b_done: false,
                rb: None,
                tp,
                keep: kv.u64("keep", 0) == 1,
                lenient: self.lenient,
            })),
        }
    }
    fn probe(&mut self, what: &str, _kv: &Kv) {
        if what == "probes" {
            // end of case: every probe made, finished or not (`pending`; `none` = not made on that side)
            self.report_probes(true);
        }
        if what == "listeners" {
            match &self.twin {
                Some(t) => log(format!("probe listeners {} twin={}{}", self.main.lc.render(), t.lc.render(), self.cb(Some(t)))),
                None => log(format!("probe listeners {}{}", self.main.lc.render(), self.cb(None))),
            }
        }
    }
    /// `manual probes`: one poll of every unfinished probe call (observed stack first, then the twin)
    fn manual(&mut self, what: &str, _kv: &Kv) {
        if what == "probes" {
            if let Some(p) = &self.main.pr {
                p.poll_pending();
            }
            if let Some(p) = self.twin.as_ref().and_then(|t| t.pr.as_ref()) {
                // requests noted by a listener that ran in a spawned task (no step of a caller followed)
                p.launch_wanted();
                p.poll_pending();
            }
            self.report_probes(false);
        }
    }
    fn yields(&self) -> usize {
        self.yields
    }
}
