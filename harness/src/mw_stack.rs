//! C20: any stack of the thirteen layers over a contract-checking inner service, with a `Tap` at
//! every service boundary that logs the Tower-contract events (`clone`, `poll_ready`, `call`).
//!
//! header: `stack layers=<outermost,…,innermost> inner=strict|climit|buffer [ready=<script>] [lp=<mask>]`
//! boundary `b0` is the one the harness drives, `b<n>` the one of the inner service.
//! log:  `b<j> clone <src> <new>` · `b<j> poll <i> ready|pending|err` · `b<j> call <i> <tag>`
//! Every boundary event is also recorded with `world::obs("ev", …)` so the model driver replays it.
use crate::world::*;
use futures::future::BoxFuture;
use std::sync::atomic::{AtomicU64, Ordering};
use std::sync::{Arc, Mutex};
use std::task::{Context, Poll};
use std::time::Duration;
use tower::util::BoxCloneService;
use tower::{Layer, Service, ServiceExt};

#[derive(Clone, Debug, PartialEq)]
pub struct SErr(pub String);
impl std::fmt::Display for SErr {
    fn fmt(&self, f: &mut std::fmt::Formatter<'_>) -> std::fmt::Result {
        write!(f, "{}", self.0)
    }
}
impl std::error::Error for SErr {}

pub type BoxSvc = BoxCloneService<Req, Resp, SErr>;

// ------------------------------------------------------------------ Tap

struct TapShared {
    next: Mutex<Vec<u64>>,
}
pub struct Tap<S> {
    inner: S,
    b: usize,
    id: u64,
    sh: Arc<TapShared>,
}
fn ev(b: usize, what: String) {
    log(format!("b{} {}", b, what));
    obs("ev", format!("b{}:{}", b, what.replace(' ', ":")));
}
impl<S: Clone> Clone for Tap<S> {
    fn clone(&self) -> Self {
        let new = {
            let mut n = self.sh.next.lock().unwrap();
            let v = n[self.b];
            n[self.b] += 1;
            v
        };
        // the inner clone comes first: the events a clone causes below appear in call order
        ev(self.b, format!("clone {} {}", self.id, new));
        let inner = self.inner.clone();
        Tap { inner, b: self.b, id: new, sh: self.sh.clone() }
    }
}
impl<S> Service<Req> for Tap<S>
where
    S: Service<Req, Response = Resp, Error = SErr>,
{
    type Response = Resp;
    type Error = SErr;
    type Future = S::Future;
    fn poll_ready(&mut self, cx: &mut Context<'_>) -> Poll<Result<(), SErr>> {
        let r = self.inner.poll_ready(cx);
        let s = match &r {
            Poll::Ready(Ok(())) => "ready",
            Poll::Ready(Err(_)) => "err",
            Poll::Pending => "pending",
        };
        ev(self.b, format!("poll {} {}", self.id, s));
        r
    }
    fn call(&mut self, req: Req) -> S::Future {
        ev(self.b, format!("call {} {}", self.id, req.tag));
        self.inner.call(req)
    }
}

fn tap<S>(svc: S, b: usize, sh: &Arc<TapShared>) -> BoxSvc
where
    S: Service<Req, Response = Resp, Error = SErr> + Clone + Send + 'static,
    S::Future: Send + 'static,
{
    BoxCloneService::new(Tap { inner: svc, b, id: 0, sh: sh.clone() })
}

// ------------------------------------------------------------------ listeners (observers only)

pub struct ListenerCounts {
    pub counts: Vec<AtomicU64>,
    pub panic_mask: u64,
}
impl ListenerCounts {
    fn hit(&self, i: usize) {
        self.counts[i].fetch_add(1, Ordering::SeqCst);
        if self.panic_mask & (1 << i) != 0 {
            panic!("listener {} panics", i);
        }
    }
}

// ------------------------------------------------------------------ layers

fn boxed<S>(svc: S) -> BoxSvc
where
    S: Service<Req, Response = Resp, Error = SErr> + Clone + Send + 'static,
    S::Future: Send + 'static,
{
    BoxCloneService::new(svc)
}

/// Apply layer `name` (in a non-triggering configuration unless the name says otherwise) to `inner`.
fn apply(name: &str, inner: BoxSvc, lc: &Arc<ListenerCounts>) -> Option<BoxSvc> {
    let l0 = lc.clone();
    let l1 = lc.clone();
    let l2 = lc.clone();
    Some(match name {
        "bulkhead" => {
            use tower_resilience_bulkhead::{BulkheadLayer, BulkheadServiceError};
            let layer = BulkheadLayer::builder()
                .max_concurrent_calls(100)
                .on_call_permitted(move |_| l0.hit(0))
                .on_call_permitted(move |_| l1.hit(1))
                .on_call_permitted(move |_| l2.hit(2))
                .build();
            boxed(layer.layer(inner).map_err(|e| match e {
                BulkheadServiceError::Inner(e) => SErr(format!("bulkhead({})", e)),
                BulkheadServiceError::Bulkhead(x) => SErr(format!("bulkhead!{:?}", x)),
            }))
        }
        "ratelimiter" => {
            use tower_resilience_ratelimiter::{RateLimiterLayer, RateLimiterServiceError};
            let layer = RateLimiterLayer::builder()
                .limit_for_period(100_000)
                .refresh_period(Duration::from_secs(1))
                .timeout_duration(Duration::ZERO)
                .on_permit_acquired(move |_| l0.hit(0))
                .on_permit_acquired(move |_| l1.hit(1))
                .on_permit_acquired(move |_| l2.hit(2))
                .build();
            boxed(layer.layer(inner).map_err(|e| match e {
                RateLimiterServiceError::Inner(e) => SErr(format!("ratelimiter({})", e)),
                RateLimiterServiceError::RateLimited => SErr("ratelimiter!limited".into()),
            }))
        }
        "circuit" => {
            use tower_resilience_circuitbreaker::{CircuitBreakerError, CircuitBreakerLayer};
            let layer = CircuitBreakerLayer::builder()
                .sliding_window_size(1000)
                .on_call_permitted(move |_| l0.hit(0))
                .on_call_permitted(move |_| l1.hit(1))
                .on_call_permitted(move |_| l2.hit(2))
                .build();
            boxed(layer.layer_fn(inner).map_err(|e| match e {
                CircuitBreakerError::Inner(e) => SErr(format!("circuit({})", e)),
                CircuitBreakerError::OpenCircuit => SErr("circuit!open".into()),
            }))
        }
        "timelimiter" | "timelimiter_nocancel" => {
            use tower_resilience_timelimiter::{TimeLimiterError, TimeLimiterLayer};
            let layer = TimeLimiterLayer::builder()
                .timeout_duration(Duration::from_secs(3600))
                .cancel_running_future(name == "timelimiter")
                .on_success(move |_| l0.hit(0))
                .on_success(move |_| l1.hit(1))
                .on_success(move |_| l2.hit(2))
                .build();
            boxed(layer.layer(inner).map_err(|e| match e {
                TimeLimiterError::Inner(e) => SErr(format!("timelimiter({})", e)),
                TimeLimiterError::Timeout => SErr("timelimiter!timeout".into()),
            }))
        }
        // retry: errors whose text contains `inner1` are retried (a triggered configuration when the script
        // produces them); every other error passes through untouched
        "retry" => {
            use tower_resilience_retry::RetryLayer;
            let layer = RetryLayer::<Req, SErr>::builder()
                .max_attempts(3)
                .fixed_backoff(Duration::from_millis(5))
                .retry_on(|e: &SErr| e.0.contains("ierr1"))
                .on_success(move |_| l0.hit(0))
                .on_success(move |_| l1.hit(1))
                .on_success(move |_| l2.hit(2))
                .build();
            boxed(layer.layer(inner))
        }
        _ => return None,
    })
}

pub struct Adapter {
    svc: BoxSvc,
    held: Option<BoxSvc>,
    lc: Arc<ListenerCounts>,
    spawns: bool,
}

impl Adapter {
    pub fn new(kv: &Kv) -> Adapter {
        let layers: Vec<String> = kv.str("layers", "").split(',').filter(|s| !s.is_empty()).map(|s| s.to_string()).collect();
        let n = layers.len();
        let sh = Arc::new(TapShared { next: Mutex::new(vec![1; n + 1]) });
        let lc = Arc::new(ListenerCounts {
            counts: (0..3).map(|_| AtomicU64::new(0)).collect(),
            panic_mask: kv.u64("lp", 0),
        });
        let mut spawns = false;
        let bottom: BoxSvc = match kv.str("inner", "strict").as_str() {
            "climit" => boxed(
                tower::limit::ConcurrencyLimit::new(Inner::new(), kv.u64("cl", 2) as usize).map_err(|e: IErr| SErr(e.to_string())),
            ),
            "buffer" => {
                spawns = true;
                boxed(tower::buffer::Buffer::new(Inner::new(), 8).map_err(|e: tower::BoxError| SErr(e.to_string())))
            }
            _ => boxed(Inner::strict(&kv.str("ready", "")).map_err(|e: IErr| SErr(e.to_string()))),
        };
        let mut svc = tap(bottom, n, &sh);
        for (j, name) in layers.iter().enumerate().rev() {
            if matches!(name.as_str(), "hedge" | "hedge_fire" | "hedge_parallel" | "executor" | "timelimiter_nocancel") {
                spawns = true;
            }
            svc = match apply(name, svc, &lc) {
                Some(s) => tap(s, j, &sh),
                None => {
                    log_raw(format!("#unknown-layer {}", name));
                    tap(boxed(Inner::new().map_err(|e: IErr| SErr(e.to_string()))), j, &sh)
                }
            };
        }
        Adapter { svc, held: None, lc, spawns }
    }
}

pub fn render(r: Result<Resp, SErr>) -> String {
    match r {
        Ok(x) => format!("ok:{}:tag={}", x.v, x.tag),
        Err(e) => format!("err:{}", e.0),
    }
}

impl Mw for Adapter {
    /// `arrive c tag=… inner=… [how=clone|held] [polls=<n>]`: drive the outermost service the way a
    /// contract-respecting caller does: poll_ready (possibly several times) until ready, then call.
    fn arrive(&mut self, c: usize, kv: &Kv) -> Option<CallFut> {
        let req = Req::new(c, kv);
        let held = kv.str("how", "clone") == "held";
        let mut svc = if held {
            match self.held.take() {
                Some(s) => s,
                None => self.svc.clone(),
            }
        } else {
            self.svc.clone()
        };
        let want = kv.u64("polls", 1).max(1);
        let (mut got, mut tries) = (0, 0);
        while got < want && tries < want + 8 {
            tries += 1;
            match poll_ready_once(&mut svc) {
                Poll::Ready(Ok(())) => got += 1,
                Poll::Ready(Err(e)) => {
                    log(format!("result {} readyerr:{}", c, e.0));
                    if held {
                        self.held = Some(svc);
                    }
                    return None;
                }
                Poll::Pending => {}
            }
        }
        if got < want {
            log(format!("result {} notready", c));
            if held {
                self.held = Some(svc);
            }
            return None;
        }
        let fut: BoxFuture<'static, Result<Resp, SErr>> = Box::pin(svc.call(req));
        if held {
            self.held = Some(svc);
        }
        Some(Box::pin(async move { render(fut.await) }))
    }
    fn probe(&mut self, what: &str, _kv: &Kv) {
        if what == "listeners" {
            let v: Vec<String> = self.lc.counts.iter().map(|c| c.load(Ordering::SeqCst).to_string()).collect();
            log(format!("probe listeners {}", v.join(",")));
        }
    }
    fn yields(&self) -> usize {
        if self.spawns {
            8
        } else {
            0
        }
    }
}
