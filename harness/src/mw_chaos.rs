//! C19: the real `ChaosLayer` (built through its public builder) over the scripted inner service.
//!
//! header: `chaos seed=<u64> [erate=<spec>] lrate=<spec> min_us=<µs> max_us=<µs> [order=<0|1|2|3>] [entry=<layer|new|default>]
//!          [name=<s>|-] [handles=<k>] [ready=<script>]`
//!   `min_us` / `max_us`: the bounds given to the builder, any `Duration` in whole microseconds — from 0 to hours;
//!   the layer compares them in whole milliseconds (`Duration::as_millis`, truncating), and so does the model
//!   rate spec: `T<n>`   = n / 2^53 (n ≤ 2^53; every such value is an exact f64)
//!              `b<bits>` = the f64 with these bits (clamped to [0,1] like the builder does)
//!              `d<i>[+1|-1]` = the i-th f64 of `StdRng::seed_from_u64(seed)` (± one step of 2^-53):
//!                              puts the rate exactly on / next to a roll the layer will see
//!   no `erate` key = latency-only layer (`NoErrorInjection`).
//!   `order`: the builder path to the error-injecting layer. 0 (default): everything configured on the first builder
//!   type, then `.error_rate(r).error_fn(f)`; 1: …, then `.error_fn(f).error_rate(r)`; 2: `.error_rate(r)` FIRST and
//!   everything else (`name`, listeners, `latency_rate`, `min_latency`, `max_latency`, `seed`) on the second builder
//!   type `ChaosConfigBuilderWithRate`, then `.error_fn(f)`; 3: name and listeners on the first builder type,
//!   `.error_rate(r)`, rates / bounds / seed on the second, `.error_fn(f)`. All four must give the same layer.
//!   `entry`: where the builder comes from — `layer` (default) `ChaosLayer::builder()`, `new` `ChaosConfigBuilder::new()`,
//!   `default` `ChaosConfigBuilder::default()`.
//!   `name=<s>`: `.name(s)` (default `verif`); `name=-`: `.name(..)` is not called (the layer keeps `<unnamed>`).
//!   `chain=<tok>,<tok>,…`: THE BUILDER SETTERS IN THE ORDER THEY ARE CALLED (replaces `order=` and the values of `seed` / `erate` /
//!   `lrate` / `min_us` / `max_us` / `name`, which are then documentation): `m:<µs>` `.min_latency`, `M:<µs>` `.max_latency`,
//!   `l:<spec>` `.latency_rate`, `e:<spec>` `.error_rate`, `s:<seed>` `.seed`, `n:<name>` `.name`, `f` `.error_fn`, `h` the three
//!   listeners — any order, any setter any number of times (`f`, `h` once), each called on whichever of the three builder types is
//!   current (`e` before `f`: `ChaosConfigBuilderWithRate`; `f` first: the rate is set on the builder with the error function).
//!   The configuration the chain demands — the last setter of each kind, the builder's defaults (10 ms, 100 ms, latency rate 0)
//!   otherwise, every setter independent of the others — is computed here (`parse_chain`: thresholds `@eT @lT`), by the model
//!   (`TR.Chaos.buildChain`: the bounds) and by the monitors (`configured_bounds_us`); rate specs `d<i>` refer to the last seed.
//!   `handles=k`: which handle of the service serves a request. 0 (default) = a fresh clone of the
//!   pristine service per request; k >= 1 = k clones taken up front, request c goes to handle c mod k
//!   `ready=<script>`: the wrapped service of instance A is the STRICT scripted service (`Inner::strict`): readiness is
//!   per instance (a clone is not ready; a call uses the readiness up), successive `poll_ready` calls reaching it (on
//!   any instance) are answered from the script ('r' ready, 'p' pending, 'e' error; exhausted: ready), and every
//!   `inner_call` line says whether the instance called had reported ready since its last call (`ready=1|0`).
//!   Without the key: the always-ready service that does not log readiness (as before).
//!
//! `arrive c … [svc=<k>] [lclone=1]`: SEVERAL SERVICES FROM ONE LAYER VALUE. Instance A is one `ChaosLayer` value, built
//! once; service k is made from it lazily, at the first arrival that names it (`layer.layer(inner)`; with `lclone=1` on
//! that arrival from a clone of the layer taken at that moment, i.e. after the earlier services were built — the clone
//! is kept alive with the other handles). Default `svc=0`. Everything that is per service in the crate — the seeded
//! stream above all — must not be shared between the services: each service k has its own twin (below), built from a
//! layer of ITS OWN (a second, independent `builder()…build()`), which is given exactly the requests made on service k,
//! in the order of their first polls. `handles=k` / `via=` apply per service (each service has its own pristine handle
//! and its own k kept clones). The wrapped services of all services of instance A are clones of one scripted inner
//! service (one log, one serial counter, one readiness script).
//!
//! `arrive c … [via=<mode>] [tvia=<mode>]`: how the caller obtains the handle it calls — all legitimate Tower usage,
//! all must behave alike (the modes of `mw_bulkhead.rs`). The "template" is the handle the request is routed to
//! (`handles=0`: the pristine service; k >= 1: kept clone c mod k; the twin: its one handle).
//!   `clone`      clone the template, ready the clone, call the clone (default of instance A with `handles=0`)
//!   `readyclone` ready the template first, then clone it, ready the clone, call the clone (the template stays
//!                ready-but-uncalled: a handle is cloned between `poll_ready` and `call`)
//!   `swap`       the `mem::replace` idiom: ready the template, leave a fresh clone in its place, call the readied one
//!   `template`   ready and call the template itself (default of instance A with `handles=k`, and of the twin)
//! `via` is the mode of instance A, `tvia` that of the twin (whose wrapped service is silent but strict too: a call on
//! an instance that never reported ready is noted as `#unready-b c`). Every `poll_ready` answer of the layer during an
//! arrival of instance A and every answer its wrapped service gave meanwhile are noted as `#rdy c via=<mode>
//! layer=<answers> inner=<answers>` (the layer forwards readiness). A request refused by `poll_ready` (pending or
//! error) is not made: `result c notready`.
//!
//! No hook into the repository, and NO MIRROR of the layer's generator: the property says the decisions are a
//! deterministic FUNCTION of the seed and the order of requests, not which function, so nothing here (and nothing in the
//! Lean model) pins the draw scheme. The decision the layer takes for a request is OBSERVED through the layer's own public
//! event callbacks (`on_error_injected` / `on_latency_injected(d)` / `on_passed_through`) while the request is polled
//! for the first time, and handed to the model as an observed choice on that `poll` line: `@dec=e` | `@dec=l<ms>` |
//! `@dec=p` (together with the exact thresholds of the configured rates, `@eT @lT`). The model checks the decision
//! against the boundary clauses (rate 0 => never, rate 1 => always, latency within the bounds) and predicts what the
//! request must then do. The log contains observables only: inner calls (with their virtual instants), results, and — printed
//! by the harness itself — `first_poll <c> svc=<k>` when the call future of request c is polled for the first time
//! (the instant its decision is taken: the injected latency is the distance from this line to the `inner_call` line).
//!
//! Determinism is decided on this side, without the model, by running the same seed and the same order of requests
//! twice inside the case:
//!  * twin: every request made on service k of instance A is also given to the twin of service k — a second service
//!    built independently (its own `builder()…build()`, same configuration and seed, over a silent inner service) —
//!    polled in the same step, but driven differently: the twin is ONE handle that is never cloned (unless `tvia=` asks
//!    for another caller mode), and its `call()` happens only at the first poll (instance A: clones, `call()` at
//!    `arrive`). Same seed + same order of requests must give the same decisions whichever clone serves a request,
//!    whenever the future was created, and whatever the sibling services of the layer value have served; any
//!    difference in behaviour is logged as `twin-mismatch`, and the decisions the two report for a request (`#obs` /
//!    `#obsb`) are compared.
//!  * services: the services built from the one layer value are equally seeded, so their decision sequences (each in
//!    the order of its own first polls, `#svc c k`) must agree on their common prefix.
//!  * witness: when the case begins, yet another independently built, equally configured and seeded service takes its
//!    first `WITNESS_N` decisions one after the other at instant 0 — other payloads, every request dropped right after
//!    its first poll, nothing else going on (`#wit i <d>`). The i-th request to be first polled on ANY service of
//!    instance A — whenever that happens, whatever its payload, whatever happened to the requests before it, whichever
//!    handles are still alive — must get that very decision: the reference stream is the implementation's own.
//!  * reference (informational only, never a failure): a free-running `StdRng::seed_from_u64(seed)` per service and the
//!    draw scheme of the code as it was when this was written give `#ref c <d>`; whether the layer still uses that
//!    scheme is recorded as a transition tag, nothing more.
//!
//! `manual dropsvc`: the caller drops EVERY handle it holds — of instance A the pristine service, the k kept clones
//! and the layer, of the twin its only handle and its layer — while call futures may be alive, polled or not yet
//! polled (`let f = svc.call(r); drop(svc); f.await`, `svc.oneshot(r)`). Requests that arrived before still get
//! their decision at their first poll, in first-poll order, from the seed's stream: instance A made their `call()`
//! at `arrive`; the twin, whose `call()` is otherwise made at the first poll, makes the `call()`s of the requests
//! not yet polled (in arrival order) just before it lets go of its handle (each twin of each service). The callbacks
//! live in what the futures hold and keep working. Later `arrive`s are answered `noop` (nothing left to make a call on).
//!
//! `manual stress threads=<N> calls=<K>`: real-OS-thread stress search (NOT a proof) for the part no
//! single-threaded schedule can reach: N threads, each with a clone of one freshly built, equally
//! configured and seeded service, make K calls in total (first poll only). Oracles: the property
//! clauses themselves — see `stress`.
use crate::world::*;
use futures::future::BoxFuture;
use rand::rngs::StdRng;
use rand::{Rng, SeedableRng};
use std::cell::{Cell, RefCell};
use std::collections::{BTreeMap, HashMap, VecDeque};
use std::future::Future;
use std::pin::Pin;
use std::rc::Rc;
use std::sync::atomic::{AtomicBool, AtomicU64, Ordering};
use std::sync::{Arc, Mutex};
use std::task::{Context, Poll, Waker};
use std::time::Duration;
use tower::{Layer, Service};
use tower_resilience_chaos::config::{ChaosConfigBuilderWithRate, CustomErrorFn};
use tower_resilience_chaos::{ChaosConfigBuilder, ChaosLayer};

const P53: u64 = 1 << 53;
type Fut = BoxFuture<'static, Result<Resp, IErr>>;
type MakeFut = Box<dyn FnMut(Req, Via, Sel) -> Option<Fut>>;

/// which service of the layer value a request is made on; `lclone`: if the service does not exist yet it is made
/// from a clone of the layer (taken now) instead of from the layer value itself
#[derive(Clone, Copy, Debug)]
struct Sel {
    svc: usize,
    lclone: bool,
}
const SVC0: Sel = Sel { svc: 0, lclone: false };

/// how the caller obtains the handle it calls (see the module documentation)
#[derive(Clone, Copy, Debug, PartialEq, Eq)]
enum Via {
    Clone,
    ReadyClone,
    Swap,
    Template,
}
impl Via {
    fn parse(s: Option<&str>, default: Via) -> Via {
        match s {
            Some("clone") => Via::Clone,
            Some("readyclone") => Via::ReadyClone,
            Some("swap") => Via::Swap,
            Some("template") => Via::Template,
            _ => default,
        }
    }
    fn name(self) -> &'static str {
        match self {
            Via::Clone => "clone",
            Via::ReadyClone => "readyclone",
            Via::Swap => "swap",
            Via::Template => "template",
        }
    }
}

thread_local! {
    /// `poll_ready` answers during the current arrival of instance A: of the layer / of its wrapped service
    static RDY_LAYER: RefCell<String> = RefCell::new(String::new());
    static RDY_INNER: RefCell<String> = RefCell::new(String::new());
}
fn rdy_char<E>(r: &Poll<Result<(), E>>) -> char {
    match r {
        Poll::Ready(Ok(())) => 'r',
        Poll::Ready(Err(_)) => 'e',
        Poll::Pending => 'p',
    }
}
type Hook0 = Box<dyn Fn() + Send + Sync>;
type HookD = Box<dyn Fn(Duration) + Send + Sync>;
type Calls = Arc<Mutex<HashMap<usize, u64>>>;

/// `⌈rate·2^53⌉` for a rate in [0,1], from the bits of the f64 (exact integer arithmetic)
fn threshold(rate: f64) -> u64 {
    if !(rate > 0.0) {
        return 0;
    }
    if rate >= 1.0 {
        return P53;
    }
    let bits = rate.to_bits();
    let exp = ((bits >> 52) & 0x7ff) as i64;
    let mant = bits & ((1u64 << 52) - 1);
    let (m, e) = if exp == 0 { (mant, -1074i64) } else { (mant | (1u64 << 52), exp - 1075) };
    let sh = e + 53; // rate·2^53 = m·2^sh
    if sh >= 0 {
        ((m as u128) << sh) as u64
    } else {
        let s = (-sh) as u32;
        if s >= 64 {
            1
        } else {
            (((m as u128) + (1u128 << s) - 1) >> s) as u64
        }
    }
}

fn parse_rate(spec: &str, seed: u64) -> f64 {
    if let Some(n) = spec.strip_prefix('T') {
        let n: u64 = n.parse().unwrap_or(0);
        return n.min(P53) as f64 / P53 as f64;
    }
    if let Some(b) = spec.strip_prefix('b') {
        let b: u64 = b.parse().unwrap_or(0);
        let x = f64::from_bits(b);
        return if x.is_nan() { 0.0 } else { x.clamp(0.0, 1.0) };
    }
    if let Some(d) = spec.strip_prefix('d') {
        let (idx, off): (&str, i64) = if let Some(i) = d.strip_suffix("+1") {
            (i, 1)
        } else if let Some(i) = d.strip_suffix("-1") {
            (i, -1)
        } else {
            (d, 0)
        };
        let idx: usize = idx.parse().unwrap_or(0);
        let mut r = StdRng::seed_from_u64(seed);
        let mut x: f64 = r.random();
        for _ in 0..idx {
            x = r.random();
        }
        let n = (x * P53 as f64) as i64 + off;
        return n.clamp(0, P53 as i64) as f64 / P53 as f64;
    }
    0.0
}

#[derive(Clone)]
struct Params {
    seed: u64,
    erate: Option<f64>,
    lrate: f64,
    min: Duration,
    max: Duration,
    order: u64,
    handles: usize,
    /// where the builder comes from: 0 `ChaosLayer::builder()`, 1 `ChaosConfigBuilder::new()`, 2 `::default()`
    entry: u8,
    /// `.name(..)`; `None`: not called
    name: Option<String>,
    /// `chain=`: the builder setters in the order they are called (normalised); `None`: the fixed paths of `order=`
    chain: Option<Vec<Tok>>,
}

/// one builder setter of a `chain=` header (see the module documentation)
#[derive(Clone, Debug)]
enum Tok {
    Min(Duration),
    Max(Duration),
    LRate(f64),
    ERate(f64),
    Seed(u64),
    Name(String),
    ErrFn,
    Hooks,
}

/// `chain=<tok>,<tok>,…` -> the setters as they will be called, and the configuration they DEMAND: the last setter of
/// each kind wins, a kind that is never set keeps the builder's default (min 10 ms, max 100 ms, latency rate 0, no
/// name), setters of different kinds do not influence each other. Normalisation (so that every chain is a legitimate
/// builder path and the layer is seeded): a second `f` and an `e:` between `.error_rate()` and `.error_fn()` (the
/// second builder type has no such setter) are left out; an `e:` without any `f` gets `f` at the end; a chain without
/// `s:` gets `s:<header seed>` at the end, a chain without `h` gets the listeners first.
fn parse_chain(spec: &str, p: &mut Params) {
    let parts: Vec<(&str, &str)> = spec.split(',').filter(|t| !t.is_empty()).map(|t| t.split_once(':').unwrap_or((t, ""))).collect();
    let seed = parts.iter().rev().find(|(k, _)| *k == "s").and_then(|(_, v)| v.parse().ok()).unwrap_or(p.seed);
    let mut toks: Vec<Tok> = Vec::new();
    // 0 first builder type, 1 `ChaosConfigBuilderWithRate`, 2 the builder with the error function
    let mut st = 0;
    for (k, v) in &parts {
        match *k {
            "m" => toks.push(Tok::Min(Duration::from_micros(v.parse().unwrap_or(0)))),
            "M" => toks.push(Tok::Max(Duration::from_micros(v.parse().unwrap_or(0)))),
            "l" => toks.push(Tok::LRate(parse_rate(v, seed))),
            "s" => toks.push(Tok::Seed(v.parse().unwrap_or(0))),
            "n" => toks.push(Tok::Name(v.to_string())),
            "h" if !toks.iter().any(|t| matches!(t, Tok::Hooks)) => toks.push(Tok::Hooks),
            "e" if st != 1 => {
                toks.push(Tok::ERate(parse_rate(v, seed)));
                if st == 0 {
                    st = 1;
                }
            }
            "f" if st != 2 => {
                toks.push(Tok::ErrFn);
                st = 2;
            }
            _ => {}
        }
    }
    if st == 1 {
        toks.push(Tok::ErrFn);
        st = 2;
    }
    if !toks.iter().any(|t| matches!(t, Tok::Seed(_))) {
        toks.push(Tok::Seed(seed));
    }
    if !toks.iter().any(|t| matches!(t, Tok::Hooks)) {
        toks.insert(0, Tok::Hooks);
    }
    // the configuration the chain demands: last setter of each kind, defaults of `ChaosConfigBuilder::new()` otherwise
    p.seed = seed;
    p.min = Duration::from_millis(10);
    p.max = Duration::from_millis(100);
    p.lrate = 0.0;
    p.erate = if st == 2 { Some(0.0) } else { None };
    p.name = None;
    for t in &toks {
        match t {
            Tok::Min(d) => p.min = *d,
            Tok::Max(d) => p.max = *d,
            Tok::LRate(r) => p.lrate = *r,
            Tok::ERate(r) => p.erate = Some(*r),
            Tok::Name(n) => p.name = Some(n.clone()),
            _ => {}
        }
    }
    p.chain = Some(toks);
}

type ErrF = fn(&Req) -> IErr;
/// the three builder types a chain of setters passes through
enum B {
    Plain(ChaosConfigBuilder),
    Rate(ChaosConfigBuilderWithRate),
    Full(ChaosConfigBuilder<CustomErrorFn<ErrF>>),
}
macro_rules! on_any {
    ($b:expr, $x:ident => $e:expr) => {
        match $b {
            B::Plain($x) => B::Plain($e),
            B::Rate($x) => B::Rate($e),
            B::Full($x) => B::Full($e),
        }
    };
}

/// Build one layer value by calling the setters of `chain` in that very order, on whichever builder type is current.
fn build_chain<S, C, R>(b0: ChaosConfigBuilder, chain: &[Tok], h: Hooks, k: C) -> R
where
    S: Service<Req, Response = Resp, Error = IErr> + Clone + Send + 'static,
    S::Future: Send + 'static,
    C: Consumer<S, R>,
{
    let mut hooks = Some(h);
    let f: ErrF = inject;
    let mut b = B::Plain(b0);
    for t in chain {
        b = match t {
            Tok::Min(d) => on_any!(b, x => x.min_latency(*d)),
            Tok::Max(d) => on_any!(b, x => x.max_latency(*d)),
            Tok::LRate(r) => on_any!(b, x => x.latency_rate(*r)),
            Tok::Seed(s) => on_any!(b, x => x.seed(*s)),
            Tok::Name(n) => on_any!(b, x => x.name(n.clone())),
            Tok::Hooks => match hooks.take() {
                Some(Hooks { e, l, p }) => on_any!(b, x => x
                    .on_error_injected(move || e())
                    .on_latency_injected(move |d| l(d))
                    .on_passed_through(move || p())),
                None => b,
            },
            Tok::ERate(r) => match b {
                B::Plain(x) => B::Rate(x.error_rate(*r)),
                B::Full(x) => B::Full(x.error_rate(*r)),
                other => other,
            },
            Tok::ErrFn => match b {
                B::Plain(x) => B::Full(x.error_fn(f)),
                B::Rate(x) => B::Full(x.error_fn(f)),
                other => other,
            },
        };
    }
    match b {
        B::Plain(x) => k.take(x.build()),
        B::Full(x) => k.take(x.build()),
        B::Rate(x) => k.take(x.error_fn(f).build()),
    }
}
impl Params {
    fn min_ms(&self) -> u64 {
        self.min.as_millis() as u64
    }
    fn max_ms(&self) -> u64 {
        self.max.as_millis() as u64
    }
    fn et(&self) -> u64 {
        self.erate.map(threshold).unwrap_or(0)
    }
    fn lt(&self) -> u64 {
        threshold(self.lrate)
    }
}

/// one decision of the layer for one request
#[derive(Clone, Copy, Debug, PartialEq, Eq, PartialOrd, Ord)]
enum Dec {
    Error,
    Lat(u64),
    Pass,
}
impl std::fmt::Display for Dec {
    fn fmt(&self, f: &mut std::fmt::Formatter<'_>) -> std::fmt::Result {
        match self {
            Dec::Error => write!(f, "error"),
            Dec::Lat(ms) => write!(f, "lat:{}", ms),
            Dec::Pass => write!(f, "pass"),
        }
    }
}

/// The draw scheme of `Chaos::call` as it was when this harness was written (one admissible "function of the seed
/// and the order of requests" among many): the next decision of the stream of `rng` (exact integer comparison of
/// 53-bit numerators with the thresholds; draws in the order roll, roll, range). Advances `rng` by exactly the draws
/// of that decision. REFERENCE ONLY: used for the informational `#ref` lines, never for a verdict.
fn decide_next(rng: &mut StdRng, et: u64, lt: u64, lo: u64, hi: u64) -> Dec {
    let mut e_roll = P53;
    if et > 0 {
        let x: f64 = rng.random();
        e_roll = (x * P53 as f64) as u64;
    }
    if e_roll < et {
        return Dec::Error;
    }
    if lt > 0 {
        let x: f64 = rng.random();
        if ((x * P53 as f64) as u64) < lt {
            return Dec::Lat(if hi > lo { rng.random_range(lo..=hi) } else { lo });
        }
    }
    Dec::Pass
}

/// records the instant of the inner call per caller, then delegates
#[derive(Clone)]
struct Tap<S> {
    inner: S,
    calls: Calls,
    /// instance A: note every readiness answer of the wrapped service (`RDY_INNER`)
    trace: bool,
}
impl<S: Service<Req>> Service<Req> for Tap<S> {
    type Response = S::Response;
    type Error = S::Error;
    type Future = S::Future;
    fn poll_ready(&mut self, cx: &mut Context<'_>) -> Poll<Result<(), S::Error>> {
        let r = self.inner.poll_ready(cx);
        if self.trace {
            RDY_INNER.with(|x| x.borrow_mut().push(rdy_char(&r)));
        }
        r
    }
    fn call(&mut self, req: Req) -> S::Future {
        self.calls.lock().unwrap().insert(req.c, now_ms());
        self.inner.call(req)
    }
}

/// inner service of the twin instance: answers at once, logs nothing, consumes no serial. Always ready when asked,
/// but strict: readiness is per instance (a clone is not ready, a call uses the readiness up); a call on an instance
/// that has not reported ready since its last call is noted (`#unready-b c`)
struct Quiet {
    ready: bool,
}
impl Clone for Quiet {
    fn clone(&self) -> Quiet {
        Quiet { ready: false }
    }
}
impl Service<Req> for Quiet {
    type Response = Resp;
    type Error = IErr;
    type Future = std::future::Ready<Result<Resp, IErr>>;
    fn poll_ready(&mut self, _cx: &mut Context<'_>) -> Poll<Result<(), IErr>> {
        self.ready = true;
        Poll::Ready(Ok(()))
    }
    fn call(&mut self, req: Req) -> Self::Future {
        if !self.ready {
            log_raw(format!("#unready-b {}", req.c));
        }
        self.ready = false;
        std::future::ready(Ok(Resp { v: 0, c: req.c, tag: req.tag }))
    }
}

fn inject(req: &Req) -> IErr {
    IErr { kind: 99, v: req.tag }
}

/// what is done with the layer once it is built (its type depends on the builder path taken); `S` is the wrapped
/// service the layer will be applied to
trait Consumer<S, R> {
    fn take<L>(self, layer: L) -> R
    where
        L: Layer<S> + Clone + 'static,
        L::Service: Service<Req, Response = Resp, Error = IErr, Future = Fut> + Clone + Send + 'static;
}

/// The caller of one instance = one layer value and the services made from it. Service `sel.svc` is made lazily
/// (`layer.layer(inner(svc))`, or from a clone of the layer: `sel.lclone`). Per service: `k` = 0: the template is the
/// pristine service; k >= 1: k clones taken up front, the template of request c is handle c mod k. How the handle that
/// is called is obtained from the template: `Via`. `trace`: note the layer's readiness answers (`RDY_LAYER`; instance
/// A). Dropping the closure drops the layer, its kept clones and every handle of every service.
struct Handles<S> {
    k: usize,
    trace: bool,
    inner: Box<dyn FnMut(usize) -> S>,
}
impl<S: 'static> Consumer<S, MakeFut> for Handles<S> {
    fn take<L>(self, layer: L) -> MakeFut
    where
        L: Layer<S> + Clone + 'static,
        L::Service: Service<Req, Response = Resp, Error = IErr, Future = Fut> + Clone + Send + 'static,
    {
        let (k, trace, mut inner) = (self.k, self.trace, self.inner);
        let mut svcs: BTreeMap<usize, (L::Service, Vec<L::Service>)> = BTreeMap::new();
        let mut layer_clones: Vec<L> = Vec::new();
        Box::new(move |req, via, sel| {
            if !svcs.contains_key(&sel.svc) {
                let i = inner(sel.svc);
                let svc = if sel.lclone {
                    // a clone of the layer taken after the earlier services were built; the caller keeps it
                    let l2 = layer.clone();
                    let s = l2.layer(i);
                    layer_clones.push(l2);
                    s
                } else {
                    layer.layer(i)
                };
                let hs: Vec<L::Service> = (0..k).map(|_| svc.clone()).collect();
                svcs.insert(sel.svc, (svc, hs));
            }
            let (svc, hs) = svcs.get_mut(&sel.svc).unwrap();
            let t: &mut L::Service = if k == 0 { svc } else { &mut hs[req.c % k] };
            let ready = |s: &mut L::Service| {
                let r = poll_ready_once(s);
                if trace {
                    RDY_LAYER.with(|x| x.borrow_mut().push(rdy_char(&r)));
                }
                matches!(r, Poll::Ready(Ok(())))
            };
            match via {
                Via::Clone => {
                    let mut h = t.clone();
                    if !ready(&mut h) {
                        return None;
                    }
                    Some(h.call(req))
                }
                Via::ReadyClone => {
                    if !ready(t) {
                        return None;
                    }
                    let mut h = t.clone();
                    if !ready(&mut h) {
                        return None;
                    }
                    Some(h.call(req))
                }
                Via::Swap => {
                    if !ready(t) {
                        return None;
                    }
                    let fresh = t.clone();
                    let mut readied = std::mem::replace(t, fresh);
                    Some(readied.call(req))
                }
                Via::Template => {
                    if !ready(t) {
                        return None;
                    }
                    Some(t.call(req))
                }
            }
        })
    }
}

struct Hooks {
    e: Hook0,
    l: HookD,
    p: Hook0,
}
/// Build one layer value through the public builder (path: `p.entry`, `p.order`, `p.name`) and hand it to `k`.
fn build<S, C, R>(p: &Params, h: Hooks, k: C) -> R
where
    S: Service<Req, Response = Resp, Error = IErr> + Clone + Send + 'static,
    S::Future: Send + 'static,
    C: Consumer<S, R>,
{
    let b0 = match p.entry {
        1 => ChaosConfigBuilder::new(),
        2 => ChaosConfigBuilder::default(),
        _ => ChaosLayer::builder(),
    };
    if let Some(chain) = &p.chain {
        return build_chain(b0, chain, h, k);
    }
    let Hooks { e, l, p: pt } = h;
    let f: fn(&Req) -> IErr = inject;
    match (p.erate, p.order) {
        (Some(r), 2) => {
            // the error rate first: everything else is configured on the second builder type
            let mut w = b0.error_rate(r);
            if let Some(n) = &p.name {
                w = w.name(n.clone());
            }
            let w = w
                .on_error_injected(move || e())
                .on_latency_injected(move |d| l(d))
                .on_passed_through(move || pt())
                .latency_rate(p.lrate)
                .min_latency(p.min)
                .max_latency(p.max)
                .seed(p.seed);
            k.take(w.error_fn(f).build())
        }
        (Some(r), 3) => {
            // name and listeners on the first builder type, rates / bounds / seed on the second
            let mut b = b0;
            if let Some(n) = &p.name {
                b = b.name(n.clone());
            }
            let w = b
                .on_error_injected(move || e())
                .on_latency_injected(move |d| l(d))
                .on_passed_through(move || pt())
                .error_rate(r)
                .latency_rate(p.lrate)
                .min_latency(p.min)
                .max_latency(p.max)
                .seed(p.seed);
            k.take(w.error_fn(f).build())
        }
        (erate, order) => {
            let mut b = b0;
            if let Some(n) = &p.name {
                b = b.name(n.clone());
            }
            let b = b
                .on_error_injected(move || e())
                .on_latency_injected(move |d| l(d))
                .on_passed_through(move || pt())
                .latency_rate(p.lrate)
                .min_latency(p.min)
                .max_latency(p.max)
                .seed(p.seed);
            match erate {
                None => k.take(b.build()),
                Some(r) if order == 0 => k.take(b.error_rate(r).error_fn(f).build()),
                Some(r) => k.take(b.error_fn(f).error_rate(r).build()),
            }
        }
    }
}

/// the request whose future is being polled (instance A): the layer's callbacks carry no request
type Cur = Arc<Mutex<Option<usize>>>;

fn note(what: &str, cur: &Cur, d: Dec) -> bool {
    if let Some(c) = *cur.lock().unwrap() {
        log_raw(format!("{} {} {}", what, c, d));
        return true;
    }
    false
}

/// Hooks of a twin: only the decision it reports for the request being polled (`#obsb`).
fn hooks_b(cur: Cur) -> Hooks {
    let (c1, c2, c3) = (cur.clone(), cur.clone(), cur);
    Hooks {
        e: Box::new(move || {
            note("#obsb", &c1, Dec::Error);
        }),
        l: Box::new(move |d| {
            note("#obsb", &c2, Dec::Lat(d.as_millis() as u64));
        }),
        p: Box::new(move || {
            note("#obsb", &c3, Dec::Pass);
        }),
    }
}

/// Hooks of the witness: the decisions in the order they are reported.
fn hooks_w(decs: Arc<Mutex<Vec<Dec>>>) -> Hooks {
    let (d1, d2, d3) = (decs.clone(), decs.clone(), decs);
    Hooks {
        e: Box::new(move || d1.lock().unwrap().push(Dec::Error)),
        l: Box::new(move |d| d2.lock().unwrap().push(Dec::Lat(d.as_millis() as u64))),
        p: Box::new(move || d3.lock().unwrap().push(Dec::Pass)),
    }
}

/// how many decisions the witness service takes at the beginning of a case
const WITNESS_N: usize = 32;

/// The witness: a service built independently (same builder path, configuration and seed, over the silent inner
/// service) serves `WITNESS_N` requests one after the other, right now: ready, call, first poll, drop. What it reports
/// is "decision i of this seed" as the implementation itself defines it — with payloads, instants, outcomes and
/// cancellations that have nothing to do with those of the case (`#wit i <d>`; `#wit i none|many` if the layer
/// reported no / more than one decision for a request).
fn witness(p: &Params) {
    let decs: Arc<Mutex<Vec<Dec>>> = Default::default();
    let calls: Calls = Default::default();
    let mut mk: MakeFut = build(
        p,
        hooks_w(decs.clone()),
        Handles { k: 0, trace: false, inner: Box::new(move |_svc| Tap { inner: Quiet { ready: false }, calls: calls.clone(), trace: false }) },
    );
    for i in 0..WITNESS_N {
        let before = decs.lock().unwrap().len();
        let req = Req { c: 1_000_000 + i, key: 0, tag: 7_000_000 + i as u64, plan: Default::default() };
        if let Some(mut f) = mk(req, Via::Template, SVC0) {
            let _ = noop_cx_poll(&mut f);
            drop(f);
        }
        let d = decs.lock().unwrap();
        match &d[before..] {
            [one] => log_raw(format!("#wit {} {}", i, one)),
            [] => log_raw(format!("#wit {} none", i)),
            _ => log_raw(format!("#wit {} many", i)),
        }
    }
}

/// Hooks of instance A: the branch the layer reports through its event callbacks while a request is being polled is
/// the observed decision of that request: noted (`#obs`) and handed to the model as an observed choice of the
/// operation in progress (`@dec=e|l<ms>|p`).
fn hooks_a(cur: Cur) -> Hooks {
    let (c1, c2, c3) = (cur.clone(), cur.clone(), cur);
    Hooks {
        e: Box::new(move || {
            if note("#obs", &c1, Dec::Error) {
                obs("dec", "e");
            }
        }),
        l: Box::new(move |d| {
            if note("#obs", &c2, Dec::Lat(d.as_millis() as u64)) {
                obs("dec", format!("l{}", d.as_millis()));
            }
        }),
        p: Box::new(move || {
            if note("#obs", &c3, Dec::Pass) {
                obs("dec", "p");
            }
        }),
    }
}

/// The twins as their caller sees them: per service of instance A one independently built layer with ONE handle
/// (until `manual dropsvc`), the requests that have arrived and whose `call()` is still to be made (at their first
/// poll), and the futures of the `call()`s made when the handles were about to be dropped.
struct TwinSide {
    /// service k -> the twin's layer and only handle; emptied when every handle is dropped
    make: BTreeMap<usize, MakeFut>,
    /// builds another twin (a layer of its own, through the same builder path); `None` once every handle has been dropped
    new_twin: Option<Box<dyn FnMut() -> MakeFut>>,
    /// arrived, not yet first polled, in arrival order: (request, its service, the twin's caller mode)
    waiting: Vec<(usize, usize, Req, Via)>,
    /// `call()` made at `manual dropsvc` for a request that had not been polled yet
    made: HashMap<usize, Option<Fut>>,
}

pub struct Adapter {
    p: Params,
    /// the layer value of instance A and every handle of every service made from it; `None` once dropped
    make_a: Option<MakeFut>,
    twin: Rc<RefCell<TwinSide>>,
    a_calls: Calls,
    b_calls: Calls,
    /// reference only: a free-running generator per service (see `decide_next`)
    oracle: Rc<RefCell<BTreeMap<usize, StdRng>>>,
    cur: Cur,
    cur_b: Cur,
}

impl Adapter {
    pub fn new(kv: &Kv) -> Adapter {
        let seed = kv.u64("seed", 0);
        let mut p = Params {
            chain: None,
            seed,
            erate: kv.get("erate").map(|s| parse_rate(s, seed)),
            lrate: parse_rate(&kv.str("lrate", "T0"), seed),
            min: Duration::from_micros(kv.u64("min_us", 0)),
            max: Duration::from_micros(kv.u64("max_us", 0)),
            order: kv.u64("order", 0),
            handles: kv.u64("handles", 0).min(64) as usize,
            entry: match kv.get("entry") {
                Some("new") => 1,
                Some("default") => 2,
                _ => 0,
            },
            name: match kv.get("name") {
                Some("-") => None,
                Some(n) => Some(n.to_string()),
                None => Some("verif".to_string()),
            },
        };
        if let Some(spec) = kv.get("chain") {
            parse_chain(spec, &mut p);
        }
        log_raw(format!("#cfg min_ms={} max_ms={} seed={} chain={}", p.min_ms(), p.max_ms(), p.seed, u8::from(p.chain.is_some())));
        witness(&p);
        let cur: Cur = Default::default();
        let cur_b: Cur = Default::default();
        let a_calls: Calls = Default::default();
        let b_calls: Calls = Default::default();
        // `ready=<script>`: the strict scripted service (readiness per instance, answers from the script); the wrapped
        // services of the services of instance A are clones of it
        let base = match kv.get("ready") {
            Some(script) => Inner::strict(script),
            None => Inner::new(),
        };
        let calls = a_calls.clone();
        let make_a = build(
            &p,
            hooks_a(cur.clone()),
            Handles { k: p.handles, trace: true, inner: Box::new(move |_svc| Tap { inner: base.clone(), calls: calls.clone(), trace: true }) },
        );
        let (p2, calls_b, cb) = (p.clone(), b_calls.clone(), cur_b.clone());
        let new_twin: Box<dyn FnMut() -> MakeFut> = Box::new(move || {
            let calls = calls_b.clone();
            build(
                &p2,
                hooks_b(cb.clone()),
                Handles { k: 0, trace: false, inner: Box::new(move |_svc| Tap { inner: Quiet { ready: false }, calls: calls.clone(), trace: false }) },
            )
        });
        let twin = Rc::new(RefCell::new(TwinSide { make: BTreeMap::new(), new_twin: Some(new_twin), waiting: Vec::new(), made: HashMap::new() }));
        Adapter { p, make_a: Some(make_a), twin, a_calls, b_calls, oracle: Default::default(), cur, cur_b }
    }
}

pub fn render(r: Result<Resp, IErr>) -> String {
    match r {
        Ok(x) => format!("ok:{}", x.v),
        Err(e) => format!("err:inner{}:{}", e.kind, e.v),
    }
}

/// the call future of instance A together with its twin
struct Pair {
    c: usize,
    svc: usize,
    fa: Fut,
    /// the twin's request waits in `twin.waiting`: its `call()` is made at the first poll, on the only handle of the
    /// twin of its service — or, if every handle is dropped before that, just before the handle goes (`twin.made`)
    twin: Rc<RefCell<TwinSide>>,
    fb: Option<Fut>,
    b_res: Option<Result<Resp, IErr>>,
    first: bool,
    reported: bool,
    a_calls: Calls,
    b_calls: Calls,
    oracle: Rc<RefCell<BTreeMap<usize, StdRng>>>,
    seed: u64,
    cur: Cur,
    cur_b: Cur,
    lo: u64,
    hi: u64,
    et: u64,
    lt: u64,
}

fn state(injected: bool, calls: &Calls, c: usize) -> String {
    match calls.lock().unwrap().get(&c) {
        Some(t) => format!("call@{}", t),
        None if injected => "error".into(),
        None => "wait".into(),
    }
}

impl Future for Pair {
    type Output = String;
    fn poll(mut self: Pin<&mut Self>, cx: &mut Context<'_>) -> Poll<String> {
        let this = &mut *self;
        if this.first {
            this.first = false;
            // the instant the decision of this request is taken, in the compared log: injected latency = instant of
            // the `inner_call` line (or of the injected error) - instant of this line. Printed by the harness itself,
            // before the layer's future is polled: it depends on nothing the layer reports.
            log(format!("first_poll {} svc={}", this.c, this.svc));
            // the exact thresholds of the configured rates travel with every first poll
            obs("eT", this.et);
            obs("lT", this.lt);
            // reference only: decision i of the old draw scheme for the i-th first poll on this service
            let seed = this.seed;
            let rf = decide_next(
                this.oracle.borrow_mut().entry(this.svc).or_insert_with(|| StdRng::seed_from_u64(seed)),
                this.et,
                this.lt,
                this.lo,
                this.hi,
            );
            log_raw(format!("#ref {} {}", this.c, rf));
            // the order of first polls per service
            log_raw(format!("#svc {} {}", this.c, this.svc));
            let mut tw = this.twin.borrow_mut();
            if let Some(f) = tw.made.remove(&this.c) {
                this.fb = f;
            } else if let Some(i) = tw.waiting.iter().position(|(c, _, _, _)| *c == this.c) {
                let (_, svc, req, via) = tw.waiting.remove(i);
                if let Some(mk) = tw.make.get_mut(&svc) {
                    this.fb = mk(req, via, SVC0);
                }
            }
        }
        // the twin first: a scripted panic of A's inner service unwinds out of this function
        if let Some(fb) = this.fb.as_mut() {
            *this.cur_b.lock().unwrap() = Some(this.c);
            if let Poll::Ready(r) = fb.as_mut().poll(cx) {
                this.b_res = Some(r);
                this.fb = None;
            }
            *this.cur_b.lock().unwrap() = None;
        }
        *this.cur.lock().unwrap() = Some(this.c);
        let ra = this.fa.as_mut().poll(cx);
        *this.cur.lock().unwrap() = None;
        let a_inj = matches!(&ra, Poll::Ready(Err(e)) if e.kind == 99);
        let b_inj = matches!(&this.b_res, Some(Err(e)) if e.kind == 99);
        let (sa, sb) = (state(a_inj, &this.a_calls, this.c), state(b_inj, &this.b_calls, this.c));
        if sa != sb && !this.reported {
            this.reported = true;
            log(format!("twin-mismatch {} a={} b={}", this.c, sa, sb));
        }
        match ra {
            Poll::Ready(r) => Poll::Ready(render(r)),
            Poll::Pending => Poll::Pending,
        }
    }
}

impl Drop for Pair {
    fn drop(&mut self) {
        if self.first {
            // never polled: the twin has no `call()` to make for it any more
            if let Ok(mut tw) = self.twin.try_borrow_mut() {
                tw.waiting.retain(|(c, _, _, _)| *c != self.c);
                tw.made.remove(&self.c);
            }
        }
    }
}

// ------------------------------------------------------------------ real-thread stress search

thread_local! {
    /// decisions reported by the layer's callbacks during the current poll on this thread
    static TL_DECS: RefCell<Vec<Dec>> = RefCell::new(Vec::new());
    /// inner calls made during the current poll on this thread
    static TL_INNER: Cell<u64> = Cell::new(0);
}

/// inner service of the stress instance: counts its calls, answers at once
#[derive(Clone)]
struct Counting(Arc<AtomicU64>);
impl Service<Req> for Counting {
    type Response = Resp;
    type Error = IErr;
    type Future = std::future::Ready<Result<Resp, IErr>>;
    fn poll_ready(&mut self, _cx: &mut Context<'_>) -> Poll<Result<(), IErr>> {
        Poll::Ready(Ok(()))
    }
    fn call(&mut self, req: Req) -> Self::Future {
        self.0.fetch_add(1, Ordering::Relaxed);
        TL_INNER.with(|x| x.set(x.get() + 1));
        std::future::ready(Ok(Resp { v: 0, c: req.c, tag: req.tag }))
    }
}

struct ThreadOut {
    decs: Vec<Dec>,
    /// calls whose first poll returned the injected error / anything else at once / pending
    failed: u64,
    returned: u64,
    pending: u64,
    /// first call of this thread whose behaviour contradicts the decision the layer reported for it
    anomaly: Option<String>,
    anomalies: u64,
    /// first call of this thread that does not do what the configuration demands of every call
    undemanded: Option<String>,
}

struct Stress {
    threads: usize,
    calls: usize,
    /// what the configuration demands of EVERY call, if anything: error rate 1 => `Some(Dec::Error)`,
    /// both rates 0 => `Some(Dec::Pass)`
    every: Option<Dec>,
    /// the wrapped (counting) service
    inner: Counting,
}
struct StressOut {
    per_thread: Vec<ThreadOut>,
    /// threads / runtimes could not be created: nothing was checked
    aborted: bool,
}

impl Consumer<Counting, StressOut> for Stress {
    fn take<L>(self, layer: L) -> StressOut
    where
        L: Layer<Counting> + Clone + 'static,
        L::Service: Service<Req, Response = Resp, Error = IErr, Future = Fut> + Clone + Send + 'static,
    {
        let svc = layer.layer(self.inner.clone());
        let n = self.threads;
        let every = self.every;
        // start line: every thread reports ready and spins until `go`; `stop` = the run is aborted because a
        // thread (or its runtime) could not be created — an infrastructure problem, never a finding
        let ready = Arc::new(AtomicU64::new(0));
        let go = Arc::new(AtomicBool::new(false));
        let stop = Arc::new(AtomicBool::new(false));
        let mut handles = Vec::new();
        for tid in 0..n {
            // every thread owns a clone of the one service: all of them share its generator
            let mut s = svc.clone();
            let quota = self.calls / n + usize::from(tid < self.calls % n);
            let (ready, go, stop_t) = (ready.clone(), go.clone(), stop.clone());
            let spawned = std::thread::Builder::new().name(format!("stress-{}", tid)).spawn(move || {
                // a tiny runtime of its own, only so that `tokio::time::sleep` can be created and polled
                let rt = tokio::runtime::Builder::new_current_thread().enable_time().start_paused(true).build();
                if rt.is_err() {
                    stop_t.store(true, Ordering::SeqCst);
                }
                let _g = rt.as_ref().ok().map(|rt| rt.enter());
                let waker = Waker::from(Arc::new(Flag::new(false)));
                let mut cx = Context::from_waker(&waker);
                let plan: Arc<Mutex<VecDeque<Step>>> = Default::default();
                let mut out = ThreadOut { decs: Vec::with_capacity(quota), failed: 0, returned: 0, pending: 0, anomaly: None, anomalies: 0, undemanded: None };
                ready.fetch_add(1, Ordering::SeqCst);
                while !go.load(Ordering::Acquire) {
                    std::hint::spin_loop();
                    std::thread::yield_now();
                }
                for i in 0..quota {
                    if stop_t.load(Ordering::Relaxed) {
                        break;
                    }
                    TL_DECS.with(|d| d.borrow_mut().clear());
                    TL_INNER.with(|x| x.set(0));
                    let tag = (tid * 1_000_000 + i) as u64;
                    let req = Req { c: tid, key: 0, tag, plan: plan.clone() };
                    if !matches!(s.poll_ready(&mut cx), Poll::Ready(Ok(()))) {
                        out.anomalies += 1;
                        out.anomaly.get_or_insert(format!("thread {} call #{}: poll_ready not ready", tid, i));
                        continue;
                    }
                    let mut fut = s.call(req);
                    let r = fut.as_mut().poll(&mut cx);
                    drop(fut);
                    let inner = TL_INNER.with(|x| x.get());
                    let decs: Vec<Dec> = TL_DECS.with(|d| d.borrow().clone());
                    let shown = match &r {
                        Poll::Ready(Ok(x)) => format!("returned ok (tag {})", x.tag),
                        Poll::Ready(Err(e)) if e.kind == 99 => format!("failed with the injected error (tag {})", e.v),
                        Poll::Ready(Err(e)) => format!("failed with err{}", e.kind),
                        Poll::Pending => "is delayed (pending)".to_string(),
                    };
                    match &r {
                        Poll::Ready(Err(e)) if e.kind == 99 => out.failed += 1,
                        Poll::Ready(_) => out.returned += 1,
                        Poll::Pending => out.pending += 1,
                    }
                    // the behaviour of this call against the one decision the layer reported for it
                    let consistent = match (decs.as_slice(), &r) {
                        ([Dec::Error], Poll::Ready(Err(e))) => e.kind == 99 && e.v == tag && inner == 0,
                        ([Dec::Pass], Poll::Ready(Ok(x))) => x.tag == tag && inner == 1,
                        ([Dec::Lat(0)], Poll::Ready(Ok(x))) => x.tag == tag && inner == 1,
                        ([Dec::Lat(0)], Poll::Pending) => inner == 0,
                        ([Dec::Lat(_)], Poll::Pending) => inner == 0,
                        _ => false,
                    };
                    let demanded = match (every, &r) {
                        (Some(Dec::Error), Poll::Ready(Err(e))) => e.kind == 99 && inner == 0,
                        (Some(Dec::Pass), Poll::Ready(Ok(_))) => inner == 1,
                        (Some(_), _) => false,
                        (None, _) => true,
                    };
                    if !demanded && out.undemanded.is_none() {
                        out.undemanded = Some(format!(
                            "thread {} call #{} (after {} calls of this thread that failed with the injected error): the call {} and the inner service was called {} time(s)",
                            tid, i, out.failed - u64::from(matches!(&r, Poll::Ready(Err(e)) if e.kind == 99)), shown, inner
                        ));
                    }
                    if !consistent {
                        out.anomalies += 1;
                        let ds: Vec<String> = decs.iter().map(|d| d.to_string()).collect();
                        out.anomaly.get_or_insert(format!(
                            "thread {} call #{}: the layer reported the decision(s) [{}] but the call {} and the inner service was called {} time(s)",
                            tid, i, ds.join(","), shown, inner
                        ));
                    }
                    if let [d] = decs.as_slice() {
                        out.decs.push(*d);
                    }
                }
                out
            });
            match spawned {
                Ok(h) => handles.push(h),
                Err(_) => stop.store(true, Ordering::SeqCst),
            }
        }
        while ready.load(Ordering::SeqCst) < handles.len() as u64 {
            std::thread::yield_now();
        }
        go.store(true, Ordering::Release);
        let per_thread = handles.into_iter().map(|h| h.join().expect("stress thread")).collect();
        StressOut { per_thread, aborted: stop.load(Ordering::SeqCst) }
    }
}

fn wall_us() -> u128 {
    std::time::SystemTime::now().duration_since(std::time::UNIX_EPOCH).map(|d| d.as_micros()).unwrap_or(0)
}

impl Adapter {
    /// Stress search on real OS threads. N threads, each with its own clone of ONE freshly built
    /// service (same configuration, same seed, a counting inner service) make K calls in total,
    /// first poll only, all released together from a start line. The oracles are clauses of the property:
    ///  1. every call behaves as the single decision the layer reported for it (injected error =>
    ///     that request's error, inner service not called; pass => inner called once; delay => pending);
    ///  2. error rate 1: every call fails and the inner service is never called; rates 0/0: every
    ///     call passes (special cases of 3, stated separately);
    ///  3. seeded determinism under any thread interleaving: the decisions are a function of the seed and of the
    ///     order in which the requests take their decision (the generator's mutex), so the MULTISET of the
    ///     decisions of the K calls is the multiset of the decisions of K calls made ONE AFTER THE OTHER on an
    ///     equally configured and seeded service — which is obtained by doing just that: a second service, built
    ///     independently through the same builder path, serves K calls on one thread. No reference to what the
    ///     decision function is.
    /// Nondeterministic by nature (real scheduling): a clean run proves nothing, a failing run is a
    /// concrete counter-example and is reported in full (`#stress-fail`).
    fn stress(&mut self, kv: &Kv) {
        let _busy = Busy::new();
        let threads = kv.u64("threads", 4).clamp(1, 64) as usize;
        let calls = kv.u64("calls", 1000).min(50_000_000) as usize;
        let (et, lt, lo, hi) = (self.p.et(), self.p.lt(), self.p.min_ms(), self.p.max_ms());
        let inner_calls = Arc::new(AtomicU64::new(0));
        let hooks = || Hooks {
            e: Box::new(|| TL_DECS.with(|d| d.borrow_mut().push(Dec::Error))),
            l: Box::new(|d| TL_DECS.with(|v| v.borrow_mut().push(Dec::Lat(d.as_millis() as u64)))),
            p: Box::new(|| TL_DECS.with(|d| d.borrow_mut().push(Dec::Pass))),
        };
        let every = if et == P53 {
            Some(Dec::Error)
        } else if et == 0 && lt == 0 {
            Some(Dec::Pass)
        } else {
            None
        };
        let t0 = wall_us();
        let out = build(&self.p, hooks(), Stress { threads, calls, every, inner: Counting(inner_calls.clone()) });
        // the same number of calls one after the other, on one thread, on a service built independently
        let seq = build(&self.p, hooks(), Stress { threads: 1, calls, every: None, inner: Counting(Arc::new(AtomicU64::new(0))) });
        let wall = wall_us().saturating_sub(t0);
        if out.aborted || seq.aborted {
            log_raw("#harness-panic stress: could not create the threads / their runtimes".into());
            return;
        }
        let inner_total = inner_calls.load(Ordering::SeqCst);
        let mut seen: BTreeMap<Dec, u64> = BTreeMap::new();
        let (mut failed, mut returned, mut pending, mut anomalies, mut decided) = (0u64, 0u64, 0u64, 0u64, 0u64);
        let mut first_anomaly: Option<String> = None;
        let mut first_undemanded: Option<String> = None;
        for t in &out.per_thread {
            failed += t.failed;
            returned += t.returned;
            pending += t.pending;
            anomalies += t.anomalies;
            decided += t.decs.len() as u64;
            if first_anomaly.is_none() {
                first_anomaly = t.anomaly.clone();
            }
            if first_undemanded.is_none() {
                first_undemanded = t.undemanded.clone();
            }
            for d in &t.decs {
                *seen.entry(*d).or_insert(0) += 1;
            }
        }
        let performed = failed + returned + pending;
        // the decisions of the sequential run
        let mut want: BTreeMap<Dec, u64> = BTreeMap::new();
        let mut seq_decided = 0u64;
        for t in &seq.per_thread {
            seq_decided += t.decs.len() as u64;
            for d in &t.decs {
                *want.entry(*d).or_insert(0) += 1;
            }
        }
        // reference only: the first `performed` decisions of the old draw scheme
        let mut refm: BTreeMap<Dec, u64> = BTreeMap::new();
        let mut o = StdRng::seed_from_u64(self.p.seed);
        for _ in 0..performed {
            *refm.entry(decide_next(&mut o, et, lt, lo, hi)).or_insert(0) += 1;
        }
        let ref_same = refm == seen;
        let count = |m: &BTreeMap<Dec, u64>, f: fn(&Dec) -> bool| -> u64 { m.iter().filter(|(d, _)| f(d)).map(|(_, n)| *n).sum() };
        let (ne, nl, np) = (
            count(&seen, |d| matches!(d, Dec::Error)),
            count(&seen, |d| matches!(d, Dec::Lat(_))),
            count(&seen, |d| matches!(d, Dec::Pass)),
        );
        let cfg = format!("threads={} calls={} seed={} eT={} lT={} range=[{},{}]ms", threads, calls, self.p.seed, et, lt, lo, hi);
        let totals = format!(
            "totals over {} calls: {} failed with the injected error, {} returned at once, {} delayed; inner service called {} time(s); decisions reported: {} error, {} delay, {} pass",
            performed, failed, returned, pending, inner_total, ne, nl, np
        );
        let mut fails: Vec<String> = Vec::new();
        if et == P53 && (failed != performed || inner_total != 0) {
            fails.push(format!(
                "error rate 1 but {} of {} calls did not fail and the inner service was called {} time(s); first: {}",
                performed - failed,
                performed,
                inner_total,
                first_undemanded.clone().unwrap_or_default()
            ));
        }
        if et == 0 && lt == 0 && (returned != performed || inner_total != performed) {
            fails.push(format!(
                "both rates 0 but only {} of {} calls passed straight through; first: {}",
                returned,
                performed,
                first_undemanded.clone().unwrap_or_default()
            ));
        }
        if let Some(a) = &first_anomaly {
            fails.push(format!("{} call(s) contradict the decision reported for them; first: {}", anomalies, a));
        }
        if seen != want {
            let mut diff: Vec<String> = Vec::new();
            let keys: std::collections::BTreeSet<Dec> = seen.keys().chain(want.keys()).cloned().collect();
            for k in keys {
                let (a, b) = (seen.get(&k).cloned().unwrap_or(0), want.get(&k).cloned().unwrap_or(0));
                if a != b && diff.len() < 6 {
                    diff.push(format!("{}: observed {} expected {}", k, a, b));
                }
            }
            fails.push(format!(
                "same seed, same number of requests, but the multiset of the {} decisions taken when {} threads make the calls on clones of one service differs from that of the {} decisions taken when one thread makes {} calls one after the other on an equally configured and seeded service ({}): the decisions depend on more than the seed and the order of the requests",
                decided,
                threads,
                seq_decided,
                calls,
                diff.join("; ")
            ));
        }
        log_raw(format!("#stress {} performed={} wall_us={} fails={} ref={}", cfg, performed, wall, fails.len(), if ref_same { "same" } else { "differs" }));
        if !fails.is_empty() {
            log_raw(format!("#stress-fail {} :: {} :: {}", cfg, fails.join(" | "), totals));
        }
        obs("ne", ne);
        obs("nl", nl);
        obs("np", np);
        log(format!("stress calls={} errors={} delayed={} passed={} anomalies={}", performed, ne, nl, np, anomalies));
    }
}

impl Mw for Adapter {
    fn arrive(&mut self, c: usize, kv: &Kv) -> Option<CallFut> {
        let Some(make_a) = self.make_a.as_mut() else {
            // every handle has been dropped: there is nothing left to make a call on
            log_raw("noop".into());
            return None;
        };
        let req = Req::new(c, kv);
        let via = Via::parse(kv.get("via"), if self.p.handles == 0 { Via::Clone } else { Via::Template });
        let tvia = Via::parse(kv.get("tvia"), Via::Template);
        let sel = Sel { svc: kv.u64("svc", 0).min(63) as usize, lclone: kv.u64("lclone", 0) == 1 };
        RDY_LAYER.with(|x| x.borrow_mut().clear());
        RDY_INNER.with(|x| x.borrow_mut().clear());
        let made = make_a(req.clone(), via, sel);
        log_raw(format!(
            "#rdy {} via={} layer={} inner={}",
            c,
            via.name(),
            RDY_LAYER.with(|x| x.borrow().clone()),
            RDY_INNER.with(|x| x.borrow().clone())
        ));
        let Some(fa) = made else {
            log(format!("result {} notready", c));
            return None;
        };
        log_raw(format!("#tvia {} {}", c, tvia.name()));
        {
            // the twin of this service: a layer of its own, built now if this is the first request on the service
            let mut tw = self.twin.borrow_mut();
            if !tw.make.contains_key(&sel.svc) {
                if let Some(mk) = tw.new_twin.as_mut().map(|f| f()) {
                    tw.make.insert(sel.svc, mk);
                }
            }
            tw.waiting.push((c, sel.svc, req, tvia));
        }
        Some(Box::pin(Pair {
            c,
            svc: sel.svc,
            fa,
            twin: self.twin.clone(),
            fb: None,
            b_res: None,
            first: true,
            reported: false,
            a_calls: self.a_calls.clone(),
            b_calls: self.b_calls.clone(),
            oracle: self.oracle.clone(),
            seed: self.p.seed,
            cur: self.cur.clone(),
            cur_b: self.cur_b.clone(),
            lo: self.p.min_ms(),
            hi: self.p.max_ms(),
            et: self.p.et(),
            lt: self.p.lt(),
        }))
    }
    fn probe(&mut self, what: &str, _kv: &Kv) {
        if what == "cfg" {
            let et = self.p.et();
            let lt = self.p.lt();
            obs("eT", et);
            obs("lT", lt);
            log(format!("probe cfg eT={} lT={}", et, lt));
        }
    }
    fn manual(&mut self, what: &str, kv: &Kv) {
        if what == "stress" {
            // the thresholds travel with the op (a shrunk case may have lost `probe cfg`)
            obs("eT", self.p.et());
            obs("lT", self.p.lt());
            self.stress(kv);
        }
        if what == "dropsvc" {
            log_raw(format!("#dropsvc {}", now_ms()));
            // instance A: the layer value, its clones, and of every service made from it the pristine handle and the
            // kept clones all live in the closure
            self.make_a = None;
            // the twins make the `call()`s they still owe (requests that arrived and were not polled yet), in
            // arrival order, then drop their only handles and their layers
            let mut tw = self.twin.borrow_mut();
            let waiting = std::mem::take(&mut tw.waiting);
            let mut make = std::mem::take(&mut tw.make);
            tw.new_twin = None;
            for (c, svc, req, via) in waiting {
                let f = make.get_mut(&svc).and_then(|mk| mk(req, via, SVC0));
                tw.made.insert(c, f);
            }
            drop(make);
        }
    }
}
