//! C19: the real `ChaosLayer` (built through its public builder) over the scripted inner service.
//!
//! header: `chaos seed=<u64> [erate=<spec>] lrate=<spec> min_us=<µs> max_us=<µs> [order=<0|1>]`
//!   rate spec: `T<n>`   = n / 2^53 (n ≤ 2^53; every such value is an exact f64)
//!              `b<bits>` = the f64 with these bits (clamped to [0,1] like the builder does)
//!              `d<i>[+1|-1]` = the i-th f64 of `StdRng::seed_from_u64(seed)` (± one step of 2^-53):
//!                              puts the rate exactly on / next to a roll the layer will see
//!   no `erate` key = latency-only layer (`NoErrorInjection`); `order=1` = `.error_fn().error_rate()`
//!
//! No hook into the repository: the adapter holds a mirror `StdRng::seed_from_u64(seed)`. In the
//! first poll of a call future it draws speculatively on clones of the mirror, in the order the
//! layer draws (f64, f64, range), and reports the draws to the model (`@r1 @r2 @g1 @g2`, exact
//! integers). The branch the layer really took is classified through the layer's own public
//! event callbacks, and the mirror is advanced by the draws that branch consumes. The log
//! contains observables only: inner calls (with their virtual instants) and results.
//!
//! Determinism is also checked directly: every request is given to a second, equally seeded
//! layer instance (over a silent inner service) polled in the same step; any difference in
//! what the two instances do is logged as `twin-mismatch`.
use crate::world::*;
use futures::future::BoxFuture;
use rand::rngs::StdRng;
use rand::{Rng, SeedableRng};
use std::collections::HashMap;
use std::future::Future;
use std::pin::Pin;
use std::sync::{Arc, Mutex};
use std::task::{Context, Poll};
use std::time::Duration;
use tower::{Layer, Service};
use tower_resilience_chaos::ChaosLayer;

const P53: u64 = 1 << 53;
type Fut = BoxFuture<'static, Result<Resp, IErr>>;
type MakeFut = Box<dyn FnMut(Req) -> Option<Fut>>;
type Calls = Arc<Mutex<HashMap<usize, u64>>>;

/// `⌈rate·2^53⌉` for a rate in [0,1], from the bits of the f64 (exact integer arithmetic)
fn threshold(rate: f64) -> u64 {
    if !(rate > 0.0) {
        return 0;
    }
    if rate >= 1.0 {
        return P53;
    }
    let bits = rate.to_bits();
    let exp = ((bits >> 52) & 0x7ff) as i64;
    let mant = bits & ((1u64 << 52) - 1);
    let (m, e) = if exp == 0 { (mant, -1074i64) } else { (mant | (1u64 << 52), exp - 1075) };
    let sh = e + 53; // rate·2^53 = m·2^sh
    if sh >= 0 {
        ((m as u128) << sh) as u64
    } else {
        let s = (-sh) as u32;
        if s >= 64 {
            1
        } else {
            (((m as u128) + (1u128 << s) - 1) >> s) as u64
        }
    }
}

fn parse_rate(spec: &str, seed: u64) -> f64 {
    if let Some(n) = spec.strip_prefix('T') {
        let n: u64 = n.parse().unwrap_or(0);
        return n.min(P53) as f64 / P53 as f64;
    }
    if let Some(b) = spec.strip_prefix('b') {
        let b: u64 = b.parse().unwrap_or(0);
        let x = f64::from_bits(b);
        return if x.is_nan() { 0.0 } else { x.clamp(0.0, 1.0) };
    }
    if let Some(d) = spec.strip_prefix('d') {
        let (idx, off): (&str, i64) = if let Some(i) = d.strip_suffix("+1") {
            (i, 1)
        } else if let Some(i) = d.strip_suffix("-1") {
            (i, -1)
        } else {
            (d, 0)
        };
        let idx: usize = idx.parse().unwrap_or(0);
        let mut r = StdRng::seed_from_u64(seed);
        let mut x: f64 = r.random();
        for _ in 0..idx {
            x = r.random();
        }
        let n = (x * P53 as f64) as i64 + off;
        return n.clamp(0, P53 as i64) as f64 / P53 as f64;
    }
    0.0
}

#[derive(Clone)]
struct Params {
    seed: u64,
    erate: Option<f64>,
    lrate: f64,
    min: Duration,
    max: Duration,
    order: u64,
}
impl Params {
    fn min_ms(&self) -> u64 {
        self.min.as_millis() as u64
    }
    fn max_ms(&self) -> u64 {
        self.max.as_millis() as u64
    }
}

/// records the instant of the inner call per caller, then delegates
#[derive(Clone)]
struct Tap<S> {
    inner: S,
    calls: Calls,
}
impl<S: Service<Req>> Service<Req> for Tap<S> {
    type Response = S::Response;
    type Error = S::Error;
    type Future = S::Future;
    fn poll_ready(&mut self, cx: &mut Context<'_>) -> Poll<Result<(), S::Error>> {
        self.inner.poll_ready(cx)
    }
    fn call(&mut self, req: Req) -> S::Future {
        self.calls.lock().unwrap().insert(req.c, now_ms());
        self.inner.call(req)
    }
}

/// inner service of the twin instance: answers at once, logs nothing, consumes no serial
#[derive(Clone)]
struct Quiet;
impl Service<Req> for Quiet {
    type Response = Resp;
    type Error = IErr;
    type Future = std::future::Ready<Result<Resp, IErr>>;
    fn poll_ready(&mut self, _cx: &mut Context<'_>) -> Poll<Result<(), IErr>> {
        Poll::Ready(Ok(()))
    }
    fn call(&mut self, req: Req) -> Self::Future {
        std::future::ready(Ok(Resp { v: 0, c: req.c, tag: req.tag }))
    }
}

fn inject(req: &Req) -> IErr {
    IErr { kind: 99, v: req.tag }
}

fn to_make<Sv>(svc: Sv) -> MakeFut
where
    Sv: Service<Req, Response = Resp, Error = IErr, Future = Fut> + Clone + 'static,
{
    Box::new(move |req| {
        let mut s = svc.clone();
        match poll_ready_once(&mut s) {
            Poll::Ready(Ok(())) => Some(s.call(req)),
            _ => None,
        }
    })
}

/// Build one layer instance. `mirror` (instance A only) is advanced from the layer's event
/// callbacks by exactly the draws the reported branch consumes.
fn build<S>(inner: S, p: &Params, mirror: Option<Arc<Mutex<StdRng>>>) -> MakeFut
where
    S: Service<Req, Response = Resp, Error = IErr> + Clone + Send + 'static,
    S::Future: Send + 'static,
{
    let has_e = p.erate.map(|r| r > 0.0).unwrap_or(false);
    let has_l = p.lrate > 0.0;
    let (lo, hi) = (p.min_ms(), p.max_ms());
    let (m1, m2, m3) = (mirror.clone(), mirror.clone(), mirror);
    let b = ChaosLayer::builder()
        .name("verif")
        .on_error_injected(move || {
            if let Some(m) = &m1 {
                let _: f64 = m.lock().unwrap().random();
            }
        })
        .on_latency_injected(move |_d| {
            if let Some(m) = &m2 {
                let mut m = m.lock().unwrap();
                if has_e {
                    let _: f64 = m.random();
                }
                let _: f64 = m.random();
                if hi > lo {
                    let _: u64 = m.random_range(lo..=hi);
                }
            }
        })
        .on_passed_through(move || {
            if let Some(m) = &m3 {
                let mut m = m.lock().unwrap();
                if has_e {
                    let _: f64 = m.random();
                }
                if has_l {
                    let _: f64 = m.random();
                }
            }
        })
        .latency_rate(p.lrate)
        .min_latency(p.min)
        .max_latency(p.max)
        .seed(p.seed);
    let f: fn(&Req) -> IErr = inject;
    match p.erate {
        None => to_make(b.build().layer(inner)),
        Some(r) if p.order == 0 => to_make(b.error_rate(r).error_fn(f).build().layer(inner)),
        Some(r) => to_make(b.error_fn(f).error_rate(r).build().layer(inner)),
    }
}

pub struct Adapter {
    p: Params,
    make_a: MakeFut,
    make_b: MakeFut,
    a_calls: Calls,
    b_calls: Calls,
    mirror: Arc<Mutex<StdRng>>,
}

impl Adapter {
    pub fn new(kv: &Kv) -> Adapter {
        let seed = kv.u64("seed", 0);
        let p = Params {
            seed,
            erate: kv.get("erate").map(|s| parse_rate(s, seed)),
            lrate: parse_rate(&kv.str("lrate", "T0"), seed),
            min: Duration::from_micros(kv.u64("min_us", 0)),
            max: Duration::from_micros(kv.u64("max_us", 0)),
            order: kv.u64("order", 0),
        };
        let mirror = Arc::new(Mutex::new(StdRng::seed_from_u64(seed)));
        let a_calls: Calls = Default::default();
        let b_calls: Calls = Default::default();
        let make_a = build(Tap { inner: Inner::new(), calls: a_calls.clone() }, &p, Some(mirror.clone()));
        let make_b = build(Tap { inner: Quiet, calls: b_calls.clone() }, &p, None);
        Adapter { p, make_a, make_b, a_calls, b_calls, mirror }
    }
}

pub fn render(r: Result<Resp, IErr>) -> String {
    match r {
        Ok(x) => format!("ok:{}", x.v),
        Err(e) => format!("err:inner{}:{}", e.kind, e.v),
    }
}

/// the call future of instance A together with its twin of instance B
struct Pair {
    c: usize,
    fa: Fut,
    fb: Option<Fut>,
    b_res: Option<Result<Resp, IErr>>,
    first: bool,
    reported: bool,
    a_calls: Calls,
    b_calls: Calls,
    mirror: Arc<Mutex<StdRng>>,
    lo: u64,
    hi: u64,
    et: u64,
    lt: u64,
}

fn state(injected: bool, calls: &Calls, c: usize) -> String {
    match calls.lock().unwrap().get(&c) {
        Some(t) => format!("call@{}", t),
        None if injected => "error".into(),
        None => "wait".into(),
    }
}

impl Future for Pair {
    type Output = String;
    fn poll(mut self: Pin<&mut Self>, cx: &mut Context<'_>) -> Poll<String> {
        let this = &mut *self;
        if this.first {
            this.first = false;
            // the draws the layer will make next, in its fixed order, on clones of the mirror
            let mut s2 = this.mirror.lock().unwrap().clone();
            let x1: f64 = s2.random();
            let mut s1 = s2.clone();
            let x2: f64 = s2.random();
            let (g1, g2) = if this.hi > this.lo {
                (s1.random_range(this.lo..=this.hi), s2.random_range(this.lo..=this.hi))
            } else {
                (this.lo, this.lo)
            };
            // the exact thresholds of the configured rates travel with every first poll
            obs("eT", this.et);
            obs("lT", this.lt);
            obs("r1", (x1 * P53 as f64) as u64);
            obs("r2", (x2 * P53 as f64) as u64);
            obs("g1", g1);
            obs("g2", g2);
        }
        // the twin first: a scripted panic of A's inner service unwinds out of this function
        if let Some(fb) = this.fb.as_mut() {
            if let Poll::Ready(r) = fb.as_mut().poll(cx) {
                this.b_res = Some(r);
                this.fb = None;
            }
        }
        let ra = this.fa.as_mut().poll(cx);
        let a_inj = matches!(&ra, Poll::Ready(Err(e)) if e.kind == 99);
        let b_inj = matches!(&this.b_res, Some(Err(e)) if e.kind == 99);
        let (sa, sb) = (state(a_inj, &this.a_calls, this.c), state(b_inj, &this.b_calls, this.c));
        if sa != sb && !this.reported {
            this.reported = true;
            log(format!("twin-mismatch {} a={} b={}", this.c, sa, sb));
        }
        match ra {
            Poll::Ready(r) => Poll::Ready(render(r)),
            Poll::Pending => Poll::Pending,
        }
    }
}

impl Mw for Adapter {
    fn arrive(&mut self, c: usize, kv: &Kv) -> Option<CallFut> {
        let req = Req::new(c, kv);
        let fa = (self.make_a)(req.clone());
        let fb = (self.make_b)(req);
        let (Some(fa), Some(fb)) = (fa, fb) else {
            log(format!("result {} notready", c));
            return None;
        };
        Some(Box::pin(Pair {
            c,
            fa,
            fb: Some(fb),
            b_res: None,
            first: true,
            reported: false,
            a_calls: self.a_calls.clone(),
            b_calls: self.b_calls.clone(),
            mirror: self.mirror.clone(),
            lo: self.p.min_ms(),
            hi: self.p.max_ms(),
            et: self.p.erate.map(threshold).unwrap_or(0),
            lt: threshold(self.p.lrate),
        }))
    }
    fn probe(&mut self, what: &str, _kv: &Kv) {
        if what == "cfg" {
            let et = self.p.erate.map(threshold).unwrap_or(0);
            let lt = threshold(self.p.lrate);
            obs("eT", et);
            obs("lT", lt);
            log(format!("probe cfg eT={} lT={}", et, lt));
        }
    }
}
